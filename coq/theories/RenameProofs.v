(* RenameProofs.v — lemmas behind props/C19x.v (C19_rename): the reference check commutes with a
   consistent renaming of job parameters, task parameters and embedded files.

   Setting.  The theorem is about the document-level specification [spec_job_template refs j] of
   ScopeSpec.v; by C03_exact_job the real walker on Generated.schema equals it for EVERY document,
   so the statement transfers to [prevalidate Generated.schema refs "JobTemplate"].

   [rho : str -> str] renames identifiers.  Its action on symbols, [rename_sym rho], maps
   <prefix><x> to <prefix><rho x> for the six reference prefixes
       Param.  RawParam.  Task.Param.  Task.RawParam.  Task.File.  Env.File.
   and leaves every other name (in particular the Session names) alone.  The prefixes are pairwise
   incomparable, so [rename_sym rho] is injective as soon as [rho] is: no "reserved name"
   side condition is needed at this level (a renamed symbol stays inside its own namespace).

   Its action on a document, [rename_job] / [rename_env_template], maps the [name] of every job
   parameter definition, task parameter definition and embedded file through [rho], and every
   string at a format-string site through [rs] (the renaming of format-string TEXTS).  Format
   strings are abstract in the specification ([refs : str -> option (list str)]), so [rs] and the
   front end of the renamed side [refs'] are parameters, tied by ONE hypothesis: on every string
   [s] that occurs in the document,
         refs' (rs s) = option_map (map (rename_sym rho)) (refs s)
   ("the renamed text is malformed iff the original is, and its references are the renamed
   references, in order").  This is what FormatStr.v provides for [refs = refs' = fs_refs classify]
   and [rs] = "rewrite the name inside each {{ }}" when rho maps identifiers to identifiers; it is
   NOT derived from FormatStr.v here.  Nothing is assumed about lengths: the specification has no
   length limits (those belong to the structural layer). *)
From Coq Require Import List NArith ZArith Bool String Lia.
Import ListNotations.
Require Import OJD.Base OJD.Json OJD.Schema OJD.Generated OJD.ScopeWalk OJD.ScopeSpec OJD.ScopeProofs OJD.GlueLib.
Local Open Scope string_scope.
Local Open Scope list_scope.

(* ------------------------------------------------------------------ symbols *)

(* [strip p s] = Some x  iff  s = p ++ x *)
Fixpoint strip (p s : str) : option str :=
  match p, s with
  | [], _ => Some s
  | a :: p', b :: s' => if N.eqb a b then strip p' s' else None
  | _ :: _, [] => None
  end.

Definition ref_prefixes : list str :=
  [$"Param."; $"RawParam."; $"Task.Param."; $"Task.RawParam."; $"Task.File."; $"Env.File."].

Fixpoint split_in (ps : list str) (n : str) : option (str * str) :=
  match ps with
  | [] => None
  | p :: r => match strip p n with Some x => Some (p, x) | None => split_in r n end
  end.

Definition split_pfx (n : str) : option (str * str) := split_in ref_prefixes n.

Lemma strip_some : forall p s x, strip p s = Some x -> s = p ++ x.
Proof.
  induction p as [|a p IH]; intros s x H.
  - cbn [strip] in H. injection H as ->. reflexivity.
  - destruct s as [|b s]; [discriminate H|]. cbn [strip] in H.
    destruct (N.eqb a b) eqn:E; [|discriminate H]. apply N.eqb_eq in E. subst b.
    cbn [app]. f_equal. apply IH. exact H.
Qed.

Lemma split_in_some : forall ps n p x, split_in ps n = Some (p, x) -> In p ps /\ n = p ++ x.
Proof.
  induction ps as [|q r IH]; intros n p x H; [discriminate H|].
  cbn [split_in] in H. destruct (strip q n) as [y|] eqn:E.
  - injection H as <- <-. split; [left; reflexivity|apply strip_some; exact E].
  - destruct (IH n p x H) as [Hin Hn]. split; [right; exact Hin|exact Hn].
Qed.

(* a name built from one of the six prefixes splits back into that prefix and the rest *)
Lemma split_pfx_app : forall p x, In p ref_prefixes -> split_pfx (p ++ x) = Some (p, x).
Proof.
  intros p x H. unfold ref_prefixes in H. cbn [In] in H.
  repeat (destruct H as [<-|H]; [reflexivity|]). contradiction.
Qed.

Section Rename.
  Variable rho : str -> str.

  Definition rename_sym (n : str) : str :=
    match split_pfx n with
    | Some (p, x) => p ++ rho x
    | None => n
    end.

  Definition rename_err (e : werr) : werr :=
    match e with
    | ERef l n => ERef l (rename_sym n)
    | EFuel => EFuel
    end.

  Hypothesis rho_inj : forall a b, rho a = rho b -> a = b.

  Lemma rename_sym_app : forall p x, In p ref_prefixes -> rename_sym (p ++ x) = p ++ rho x.
  Proof. intros p x H. unfold rename_sym. rewrite (split_pfx_app p x H). reflexivity. Qed.

  Theorem rename_sym_inj : forall a b, rename_sym a = rename_sym b -> a = b.
  Proof.
    intros a b H. unfold rename_sym in H.
    destruct (split_pfx a) as [[p x]|] eqn:Ea; destruct (split_pfx b) as [[q y]|] eqn:Eb.
    - destruct (split_in_some _ _ _ _ Ea) as [Hp ->]. destruct (split_in_some _ _ _ _ Eb) as [Hq ->].
      pose proof (split_pfx_app p (rho x) Hp) as E1. rewrite H in E1.
      rewrite (split_pfx_app q (rho y) Hq) in E1. injection E1 as -> E2.
      rewrite (rho_inj y x E2). reflexivity.
    - destruct (split_in_some _ _ _ _ Ea) as [Hp _].
      pose proof (split_pfx_app p (rho x) Hp) as E1. rewrite H, Eb in E1. discriminate E1.
    - destruct (split_in_some _ _ _ _ Eb) as [Hq _].
      pose proof (split_pfx_app q (rho y) Hq) as E1. rewrite <- H, Ea in E1. discriminate E1.
    - exact H.
  Qed.

  Lemma str_eqb_rename : forall a b, str_eqb (rename_sym a) (rename_sym b) = str_eqb a b.
  Proof.
    intros a b. destruct (str_eqb a b) eqn:E.
    - apply gl_str_eqb_eq in E. subst b. apply gl_str_eqb_refl.
    - apply gl_str_eqb_neq. apply gl_str_eqb_neq in E. intros H. apply E. apply rename_sym_inj. exact H.
  Qed.

  Lemma named_ren : forall (pfx : string) names n, In (str_of_string pfx) ref_prefixes ->
    named pfx (map rho names) (rename_sym n) = named pfx names n.
  Proof.
    intros pfx names n Hp. unfold named. induction names as [|p r IH]; [reflexivity|].
    cbn [map existsb]. rewrite IH. f_equal.
    rewrite <- (rename_sym_app _ p Hp). apply str_eqb_rename.
  Qed.

  Lemma session_const_ren : forall n, session_const (rename_sym n) = session_const n.
  Proof.
    intros n. unfold session_const.
    change $"Session.WorkingDirectory" with (rename_sym $"Session.WorkingDirectory").
    change $"Session.HasPathMappingRules" with (rename_sym $"Session.HasPathMappingRules").
    change $"Session.PathMappingRulesFile" with (rename_sym $"Session.PathMappingRulesFile").
    rewrite !str_eqb_rename. reflexivity.
  Qed.

  (* ---------------------------------------------------------------- documents *)
  Variable rs : str -> str.        (* the renaming of format-string texts *)

  Definition on_obj (h : str -> json -> json) (v : json) : json :=
    match v with
    | JObj ms => JObj (map (fun kv => (fst kv, h (fst kv) (snd kv))) ms)
    | _ => v
    end.

  Definition on_arr (g : json -> json) (v : json) : json :=
    match v with
    | JArr l => JArr (map g l)
    | _ => v
    end.

  (* by member name; members not listed are left alone *)
  Fixpoint dispatch (tbl : list (string * (json -> json))) (k : str) (v : json) : json :=
    match tbl with
    | [] => v
    | (n, g) :: r => if str_eqb k (str_of_string n) then g v else dispatch r k v
    end.

  Definition ren_fs (v : json) : json := match v with JStr s => JStr (rs s) | _ => v end.
  (* a declared name is a non-empty string (ScopeSpec.decl_name) *)
  Definition ren_name (v : json) : json := match v with JStr (c :: r) => JStr (rho (c :: r)) | _ => v end.
  Definition ren_fs_list : json -> json := on_arr ren_fs.
  Definition ren_range (v : json) : json :=
    match v with
    | JArr l => JArr (map ren_fs l)
    | JStr s => JStr (rs s)
    | _ => v
    end.

  Definition ren_def : json -> json := on_obj (dispatch [("name", ren_name)]).
  Definition ren_defs : json -> json := on_arr ren_def.
  Definition ren_action : json -> json := on_obj (dispatch [("command", ren_fs); ("args", ren_fs_list)]).
  Definition ren_file : json -> json := on_obj (dispatch [("name", ren_name); ("data", ren_fs)]).
  Definition ren_files : json -> json := on_arr ren_file.
  Definition ren_env_actions : json -> json := on_obj (dispatch [("onEnter", ren_action); ("onExit", ren_action)]).
  Definition ren_env_script : json -> json :=
    on_obj (dispatch [("actions", ren_env_actions); ("embeddedFiles", ren_files)]).
  Definition ren_vars : json -> json := on_obj (fun _ v => ren_fs v).
  Definition ren_env : json -> json := on_obj (dispatch [("script", ren_env_script); ("variables", ren_vars)]).
  Definition ren_envs : json -> json := on_arr ren_env.
  Definition ren_tparam : json -> json := on_obj (dispatch [("name", ren_name); ("range", ren_range)]).
  Definition ren_tparams : json -> json := on_arr ren_tparam.
  Definition ren_pspace : json -> json := on_obj (dispatch [("taskParameterDefinitions", ren_tparams)]).
  Definition ren_amount : json -> json := on_obj (dispatch [("name", ren_fs)]).
  Definition ren_amounts : json -> json := on_arr ren_amount.
  Definition ren_attr : json -> json :=
    on_obj (dispatch [("name", ren_fs); ("anyOf", ren_fs_list); ("allOf", ren_fs_list)]).
  Definition ren_attrs : json -> json := on_arr ren_attr.
  Definition ren_hostreq : json -> json := on_obj (dispatch [("amounts", ren_amounts); ("attributes", ren_attrs)]).
  Definition ren_step_actions : json -> json := on_obj (dispatch [("onRun", ren_action)]).
  Definition ren_step_script : json -> json :=
    on_obj (dispatch [("actions", ren_step_actions); ("embeddedFiles", ren_files)]).
  Definition ren_step : json -> json :=
    on_obj (dispatch [("script", ren_step_script); ("stepEnvironments", ren_envs);
                      ("parameterSpace", ren_pspace); ("hostRequirements", ren_hostreq)]).
  Definition ren_steps : json -> json := on_arr ren_step.

  (* the renamed job template / environment template *)
  Definition rename_job : json -> json :=
    on_obj (dispatch [("name", ren_fs); ("parameterDefinitions", ren_defs); ("steps", ren_steps);
                      ("jobEnvironments", ren_envs)]).
  Definition rename_env_template : json -> json :=
    on_obj (dispatch [("parameterDefinitions", ren_defs); ("environment", ren_env)]).

  (* ---------------------------------------------------------------- lookups through a renamed object *)
  Lemma assoc_on_obj : forall (h : str -> json -> json) k (ms : list (str * json)),
    assoc k (map (fun kv : str * json => (fst kv, h (fst kv) (snd kv))) ms) = option_map (h k) (assoc k ms).
  Proof.
    intros h k ms. induction ms as [|[k' v] r IH]; [reflexivity|].
    cbn [map assoc fst snd]. destruct (str_eqb k k') eqn:E; [|exact IH].
    apply gl_str_eqb_eq in E. subst k'. reflexivity.
  Qed.

  Lemma jget_on_obj : forall h name v, h (str_of_string name) JNull = JNull ->
    jget name (on_obj h v) = h (str_of_string name) (jget name v).
  Proof.
    intros h name v Hn. destruct v as [| | | | | |ms]; try (cbn [on_obj jget]; symmetry; exact Hn).
    cbn [on_obj jget]. rewrite assoc_on_obj.
    destruct (assoc (str_of_string name) ms) as [x|]; [reflexivity|symmetry; exact Hn].
  Qed.

  Lemma is_obj_on_obj : forall h v, is_obj (on_obj h v) = is_obj v.
  Proof. intros h v. destruct v; reflexivity. Qed.

  Lemma jget_ren_def_name : forall v, jget "name" (ren_def v) = ren_name (jget "name" v).
  Proof. intros v. unfold ren_def. rewrite jget_on_obj by reflexivity. reflexivity. Qed.
  Lemma jget_ren_def_type : forall v, jget "type" (ren_def v) = jget "type" v.
  Proof. intros v. unfold ren_def. rewrite jget_on_obj by reflexivity. reflexivity. Qed.
  Lemma is_obj_ren_def : forall v, is_obj (ren_def v) = is_obj v.
  Proof. intros v. apply is_obj_on_obj. Qed.
  Lemma jget_ren_action_command : forall v, jget "command" (ren_action v) = ren_fs (jget "command" v).
  Proof. intros v. unfold ren_action. rewrite jget_on_obj by reflexivity. reflexivity. Qed.
  Lemma jget_ren_action_args : forall v, jget "args" (ren_action v) = ren_fs_list (jget "args" v).
  Proof. intros v. unfold ren_action. rewrite jget_on_obj by reflexivity. reflexivity. Qed.
  Lemma is_obj_ren_action : forall v, is_obj (ren_action v) = is_obj v.
  Proof. intros v. apply is_obj_on_obj. Qed.
  Lemma jget_ren_file_name : forall v, jget "name" (ren_file v) = ren_name (jget "name" v).
  Proof. intros v. unfold ren_file. rewrite jget_on_obj by reflexivity. reflexivity. Qed.
  Lemma jget_ren_file_data : forall v, jget "data" (ren_file v) = ren_fs (jget "data" v).
  Proof. intros v. unfold ren_file. rewrite jget_on_obj by reflexivity. reflexivity. Qed.
  Lemma is_obj_ren_file : forall v, is_obj (ren_file v) = is_obj v.
  Proof. intros v. apply is_obj_on_obj. Qed.
  Lemma jget_ren_env_actions_onEnter : forall v, jget "onEnter" (ren_env_actions v) = ren_action (jget "onEnter" v).
  Proof. intros v. unfold ren_env_actions. rewrite jget_on_obj by reflexivity. reflexivity. Qed.
  Lemma jget_ren_env_actions_onExit : forall v, jget "onExit" (ren_env_actions v) = ren_action (jget "onExit" v).
  Proof. intros v. unfold ren_env_actions. rewrite jget_on_obj by reflexivity. reflexivity. Qed.
  Lemma is_obj_ren_env_actions : forall v, is_obj (ren_env_actions v) = is_obj v.
  Proof. intros v. apply is_obj_on_obj. Qed.
  Lemma jget_ren_env_script_actions : forall v, jget "actions" (ren_env_script v) = ren_env_actions (jget "actions" v).
  Proof. intros v. unfold ren_env_script. rewrite jget_on_obj by reflexivity. reflexivity. Qed.
  Lemma jget_ren_env_script_embeddedFiles : forall v, jget "embeddedFiles" (ren_env_script v) = ren_files (jget "embeddedFiles" v).
  Proof. intros v. unfold ren_env_script. rewrite jget_on_obj by reflexivity. reflexivity. Qed.
  Lemma is_obj_ren_env_script : forall v, is_obj (ren_env_script v) = is_obj v.
  Proof. intros v. apply is_obj_on_obj. Qed.
  Lemma jget_ren_env_script : forall v, jget "script" (ren_env v) = ren_env_script (jget "script" v).
  Proof. intros v. unfold ren_env. rewrite jget_on_obj by reflexivity. reflexivity. Qed.
  Lemma jget_ren_env_variables : forall v, jget "variables" (ren_env v) = ren_vars (jget "variables" v).
  Proof. intros v. unfold ren_env. rewrite jget_on_obj by reflexivity. reflexivity. Qed.
  Lemma is_obj_ren_env : forall v, is_obj (ren_env v) = is_obj v.
  Proof. intros v. apply is_obj_on_obj. Qed.
  Lemma jget_ren_tparam_name : forall v, jget "name" (ren_tparam v) = ren_name (jget "name" v).
  Proof. intros v. unfold ren_tparam. rewrite jget_on_obj by reflexivity. reflexivity. Qed.
  Lemma jget_ren_tparam_range : forall v, jget "range" (ren_tparam v) = ren_range (jget "range" v).
  Proof. intros v. unfold ren_tparam. rewrite jget_on_obj by reflexivity. reflexivity. Qed.
  Lemma jget_ren_tparam_type : forall v, jget "type" (ren_tparam v) = jget "type" v.
  Proof. intros v. unfold ren_tparam. rewrite jget_on_obj by reflexivity. reflexivity. Qed.
  Lemma is_obj_ren_tparam : forall v, is_obj (ren_tparam v) = is_obj v.
  Proof. intros v. apply is_obj_on_obj. Qed.
  Lemma jget_ren_pspace_taskParameterDefinitions : forall v, jget "taskParameterDefinitions" (ren_pspace v) = ren_tparams (jget "taskParameterDefinitions" v).
  Proof. intros v. unfold ren_pspace. rewrite jget_on_obj by reflexivity. reflexivity. Qed.
  Lemma is_obj_ren_pspace : forall v, is_obj (ren_pspace v) = is_obj v.
  Proof. intros v. apply is_obj_on_obj. Qed.
  Lemma jget_ren_amount_name : forall v, jget "name" (ren_amount v) = ren_fs (jget "name" v).
  Proof. intros v. unfold ren_amount. rewrite jget_on_obj by reflexivity. reflexivity. Qed.
  Lemma is_obj_ren_amount : forall v, is_obj (ren_amount v) = is_obj v.
  Proof. intros v. apply is_obj_on_obj. Qed.
  Lemma jget_ren_attr_name : forall v, jget "name" (ren_attr v) = ren_fs (jget "name" v).
  Proof. intros v. unfold ren_attr. rewrite jget_on_obj by reflexivity. reflexivity. Qed.
  Lemma jget_ren_attr_anyOf : forall v, jget "anyOf" (ren_attr v) = ren_fs_list (jget "anyOf" v).
  Proof. intros v. unfold ren_attr. rewrite jget_on_obj by reflexivity. reflexivity. Qed.
  Lemma jget_ren_attr_allOf : forall v, jget "allOf" (ren_attr v) = ren_fs_list (jget "allOf" v).
  Proof. intros v. unfold ren_attr. rewrite jget_on_obj by reflexivity. reflexivity. Qed.
  Lemma is_obj_ren_attr : forall v, is_obj (ren_attr v) = is_obj v.
  Proof. intros v. apply is_obj_on_obj. Qed.
  Lemma jget_ren_hostreq_amounts : forall v, jget "amounts" (ren_hostreq v) = ren_amounts (jget "amounts" v).
  Proof. intros v. unfold ren_hostreq. rewrite jget_on_obj by reflexivity. reflexivity. Qed.
  Lemma jget_ren_hostreq_attributes : forall v, jget "attributes" (ren_hostreq v) = ren_attrs (jget "attributes" v).
  Proof. intros v. unfold ren_hostreq. rewrite jget_on_obj by reflexivity. reflexivity. Qed.
  Lemma is_obj_ren_hostreq : forall v, is_obj (ren_hostreq v) = is_obj v.
  Proof. intros v. apply is_obj_on_obj. Qed.
  Lemma jget_ren_step_actions_onRun : forall v, jget "onRun" (ren_step_actions v) = ren_action (jget "onRun" v).
  Proof. intros v. unfold ren_step_actions. rewrite jget_on_obj by reflexivity. reflexivity. Qed.
  Lemma is_obj_ren_step_actions : forall v, is_obj (ren_step_actions v) = is_obj v.
  Proof. intros v. apply is_obj_on_obj. Qed.
  Lemma jget_ren_step_script_actions : forall v, jget "actions" (ren_step_script v) = ren_step_actions (jget "actions" v).
  Proof. intros v. unfold ren_step_script. rewrite jget_on_obj by reflexivity. reflexivity. Qed.
  Lemma jget_ren_step_script_embeddedFiles : forall v, jget "embeddedFiles" (ren_step_script v) = ren_files (jget "embeddedFiles" v).
  Proof. intros v. unfold ren_step_script. rewrite jget_on_obj by reflexivity. reflexivity. Qed.
  Lemma is_obj_ren_step_script : forall v, is_obj (ren_step_script v) = is_obj v.
  Proof. intros v. apply is_obj_on_obj. Qed.
  Lemma jget_ren_step_script : forall v, jget "script" (ren_step v) = ren_step_script (jget "script" v).
  Proof. intros v. unfold ren_step. rewrite jget_on_obj by reflexivity. reflexivity. Qed.
  Lemma jget_ren_step_stepEnvironments : forall v, jget "stepEnvironments" (ren_step v) = ren_envs (jget "stepEnvironments" v).
  Proof. intros v. unfold ren_step. rewrite jget_on_obj by reflexivity. reflexivity. Qed.
  Lemma jget_ren_step_parameterSpace : forall v, jget "parameterSpace" (ren_step v) = ren_pspace (jget "parameterSpace" v).
  Proof. intros v. unfold ren_step. rewrite jget_on_obj by reflexivity. reflexivity. Qed.
  Lemma jget_ren_step_hostRequirements : forall v, jget "hostRequirements" (ren_step v) = ren_hostreq (jget "hostRequirements" v).
  Proof. intros v. unfold ren_step. rewrite jget_on_obj by reflexivity. reflexivity. Qed.
  Lemma is_obj_ren_step : forall v, is_obj (ren_step v) = is_obj v.
  Proof. intros v. apply is_obj_on_obj. Qed.
  Lemma jget_rename_job_name : forall v, jget "name" (rename_job v) = ren_fs (jget "name" v).
  Proof. intros v. unfold rename_job. rewrite jget_on_obj by reflexivity. reflexivity. Qed.
  Lemma jget_rename_job_parameterDefinitions : forall v, jget "parameterDefinitions" (rename_job v) = ren_defs (jget "parameterDefinitions" v).
  Proof. intros v. unfold rename_job. rewrite jget_on_obj by reflexivity. reflexivity. Qed.
  Lemma jget_rename_job_steps : forall v, jget "steps" (rename_job v) = ren_steps (jget "steps" v).
  Proof. intros v. unfold rename_job. rewrite jget_on_obj by reflexivity. reflexivity. Qed.
  Lemma jget_rename_job_jobEnvironments : forall v, jget "jobEnvironments" (rename_job v) = ren_envs (jget "jobEnvironments" v).
  Proof. intros v. unfold rename_job. rewrite jget_on_obj by reflexivity. reflexivity. Qed.
  Lemma is_obj_rename_job : forall v, is_obj (rename_job v) = is_obj v.
  Proof. intros v. apply is_obj_on_obj. Qed.
  Lemma jget_rename_env_template_parameterDefinitions : forall v, jget "parameterDefinitions" (rename_env_template v) = ren_defs (jget "parameterDefinitions" v).
  Proof. intros v. unfold rename_env_template. rewrite jget_on_obj by reflexivity. reflexivity. Qed.
  Lemma jget_rename_env_template_environment : forall v, jget "environment" (rename_env_template v) = ren_env (jget "environment" v).
  Proof. intros v. unfold rename_env_template. rewrite jget_on_obj by reflexivity. reflexivity. Qed.
  Lemma is_obj_rename_env_template : forall v, is_obj (rename_env_template v) = is_obj v.
  Proof. intros v. apply is_obj_on_obj. Qed.

  (* ---------------------------------------------------------------- the two front ends *)
  Variables refs refs' : str -> option (list str).
  Hypothesis rho_nonempty : forall c r, rho (c :: r) <> [].

  (* every string value that occurs in a document (a superset of its format-string sites) *)
  Fixpoint jstrings (j : json) : list str :=
    match j with
    | JStr s => [s]
    | JArr l => flat_map jstrings l
    | JObj ms => flat_map (fun kv => jstrings (snd kv)) ms
    | _ => []
    end.

  (* the hypothesis on the renamed front end, for one string *)
  Definition fs_hyp (s : str) : Prop := refs' (rs s) = option_map (map rename_sym) (refs s).
  Definition good (v : json) : Prop := forall s, In s (jstrings v) -> fs_hyp s.

  Lemma assoc_in : forall (k : str) (ms : list (str * json)) x, assoc k ms = Some x -> exists kv, In kv ms /\ snd kv = x.
  Proof.
    intros k ms x. induction ms as [|[k' v] r IH]; intros H; [discriminate H|].
    cbn [assoc] in H. destruct (str_eqb k k').
    - injection H as <-. exists (k', v). split; [left; reflexivity|reflexivity].
    - destruct (IH H) as [kv [Hin Hs]]. exists kv. split; [right; exact Hin|exact Hs].
  Qed.

  Lemma good_member : forall ms kv, good (JObj ms) -> In kv ms -> good (snd kv).
  Proof.
    intros ms kv H Hin s Hs. apply H. cbn [jstrings]. apply in_flat_map. exists kv. split; assumption.
  Qed.

  Lemma good_item : forall l x, good (JArr l) -> In x l -> good x.
  Proof.
    intros l x H Hin s Hs. apply H. cbn [jstrings]. apply in_flat_map. exists x. split; assumption.
  Qed.

  Lemma good_jget : forall name v, good v -> good (jget name v).
  Proof.
    intros name v H. destruct v as [| | | | | |ms]; try (intros s0 []).
    cbn [jget]. destruct (assoc (str_of_string name) ms) as [x|] eqn:E; [|intros s0 []].
    destruct (assoc_in _ _ _ E) as [kv [Hin <-]]. apply (good_member ms kv H Hin).
  Qed.

  (* visibility on the renamed side agrees with visibility on the original side *)
  Definition HV (vis vis' : str -> bool) : Prop := forall n, vis' (rename_sym n) = vis n.

  Lemma map_rename_flat : forall vis vis' l names, HV vis vis' ->
    flat_map (fun n => if vis' n then [] else [ERef l n]) (map rename_sym names)
    = map rename_err (flat_map (fun n => if vis n then [] else [ERef l n]) names).
  Proof.
    intros vis vis' l names H. induction names as [|n r IH]; [reflexivity|].
    cbn [map flat_map]. rewrite map_app, IH, (H n). destruct (vis n); reflexivity.
  Qed.

  Lemma ren_chk : forall vis vis' l v, HV vis vis' -> good v ->
    chk refs' vis' l (ren_fs v) = map rename_err (chk refs vis l v).
  Proof.
    intros vis vis' l v H Hg. destruct v as [| | | |s| |]; try reflexivity.
    cbn [ren_fs chk]. rewrite (Hg s (or_introl eq_refl)).
    destruct (refs s) as [names|]; cbn [option_map]; [|reflexivity].
    apply map_rename_flat. exact H.
  Qed.

  Lemma concat_combine_ren : forall (F F' : nat * json -> list werr) g items,
    (forall i x, In x items -> F' (i, g x) = map rename_err (F (i, x))) ->
    forall s, List.concat (map F' (combine (seq s (List.length (map g items))) (map g items)))
              = map rename_err (List.concat (map F (combine (seq s (List.length items)) items))).
  Proof.
    intros F F' g items. induction items as [|x r IH]; intros H s; [reflexivity|].
    cbn [map List.length seq combine List.concat]. rewrite map_app.
    rewrite (H s x (or_introl eq_refl)). f_equal.
    apply IH. intros i y Hy. apply H. right. exact Hy.
  Qed.

  Lemma concat_indexed_ren : forall (F F' : nat * json -> list werr) g items,
    (forall i x, In x items -> F' (i, g x) = map rename_err (F (i, x))) ->
    List.concat (map F' (indexed (map g items))) = map rename_err (List.concat (map F (indexed items))).
  Proof. intros F F' g items H. unfold indexed. apply concat_combine_ren. exact H. Qed.

  Lemma ren_chk_list : forall vis vis' l v, HV vis vis' -> good v ->
    chk_list refs' vis' l (ren_fs_list v) = map rename_err (chk_list refs vis l v).
  Proof.
    intros vis vis' l v H Hg. destruct v as [| | | | |items|]; try reflexivity.
    cbn [ren_fs_list on_arr chk_list]. apply concat_indexed_ren.
    intros i x Hx. cbn [fst snd]. apply ren_chk; [exact H|exact (good_item items x Hg Hx)].
  Qed.

  (* ---------------------------------------------------------------- declared names *)
  Lemma decl_name_alt : forall o,
    decl_name o = if is_obj o then match jget "name" o with JStr (c :: r) => Some (c :: r) | _ => None end else None.
  Proof. intros o. destruct o; reflexivity. Qed.

  Lemma decl_name_ren : forall h o, (forall v, h $"name" v = ren_name v) ->
    decl_name (on_obj h o) = option_map rho (decl_name o).
  Proof.
    intros h o Hh. rewrite !decl_name_alt. rewrite is_obj_on_obj.
    rewrite jget_on_obj by (rewrite Hh; reflexivity). rewrite Hh.
    destruct (is_obj o); [|reflexivity].
    destruct (jget "name" o) as [| | | |[|c r]| |]; try reflexivity.
    cbn [ren_name option_map]. destruct (rho (c :: r)) as [|c' r'] eqn:E; [|reflexivity].
    exfalso. exact (rho_nonempty c r E).
  Qed.

  Lemma declared_ren : forall ok ok' g v, (forall o, ok' (g o) = ok o) ->
    (forall o, decl_name (g o) = option_map rho (decl_name o)) ->
    declared ok' (on_arr g v) = map rho (declared ok v).
  Proof.
    intros ok ok' g v Hok Hdn. destruct v as [| | | | |items|]; try reflexivity.
    unfold declared. cbn [on_arr obj_list]. induction items as [|o r IH]; [reflexivity|].
    cbn [map flat_map]. rewrite map_app, IH, Hok, Hdn.
    destruct (ok o); [|reflexivity]. destruct (decl_name o); reflexivity.
  Qed.

  Lemma decl_name_ren_def : forall o, decl_name (ren_def o) = option_map rho (decl_name o).
  Proof. intros o. apply decl_name_ren. reflexivity. Qed.
  Lemma decl_name_ren_file : forall o, decl_name (ren_file o) = option_map rho (decl_name o).
  Proof. intros o. apply decl_name_ren. reflexivity. Qed.
  Lemma decl_name_ren_tparam : forall o, decl_name (ren_tparam o) = option_map rho (decl_name o).
  Proof. intros o. apply decl_name_ren. reflexivity. Qed.

  Lemma type_is_ren_def : forall o t, type_is (ren_def o) t = type_is o t.
  Proof. intros o t. unfold type_is. rewrite jget_ren_def_type. reflexivity. Qed.
  Lemma type_is_ren_tparam : forall o t, type_is (ren_tparam o) t = type_is o t.
  Proof. intros o t. unfold type_is. rewrite jget_ren_tparam_type. reflexivity. Qed.
  Lemma has_param_type_ren_def : forall o, has_param_type (ren_def o) = has_param_type o.
  Proof. intros o. unfold has_param_type. rewrite !type_is_ren_def. reflexivity. Qed.
  Lemma has_param_type_ren_tparam : forall o, has_param_type (ren_tparam o) = has_param_type o.
  Proof. intros o. unfold has_param_type. rewrite !type_is_ren_tparam. reflexivity. Qed.

  Lemma all_params_ren : forall v, all_params (ren_defs v) = map rho (all_params v).
  Proof. intros v. apply declared_ren; [apply has_param_type_ren_def|apply decl_name_ren_def]. Qed.
  Lemma nonpath_params_ren : forall v, nonpath_params (ren_defs v) = map rho (nonpath_params v).
  Proof.
    intros v. apply declared_ren; [|apply decl_name_ren_def].
    intros o. rewrite has_param_type_ren_def, type_is_ren_def. reflexivity.
  Qed.
  Lemma path_params_ren : forall v, path_params (ren_defs v) = map rho (path_params v).
  Proof. intros v. apply declared_ren; [intros o; apply type_is_ren_def|apply decl_name_ren_def]. Qed.
  Lemma file_names_ren : forall v, file_names (ren_files v) = map rho (file_names v).
  Proof. intros v. apply declared_ren; [reflexivity|apply decl_name_ren_file]. Qed.
  Lemma task_param_names_ren : forall p, task_param_names (ren_pspace p) = map rho (task_param_names p).
  Proof.
    intros p. unfold task_param_names. rewrite is_obj_ren_pspace. destruct (is_obj p); [|reflexivity].
    rewrite jget_ren_pspace_taskParameterDefinitions.
    apply declared_ren; [apply has_param_type_ren_tparam|apply decl_name_ren_tparam].
  Qed.

  Ltac pfx := unfold ref_prefixes; cbn [In]; tauto.

  Lemma HV_template : forall pd, HV (vis_template pd) (vis_template (ren_defs pd)).
  Proof.
    intros pd n. unfold vis_template. rewrite all_params_ren, nonpath_params_ren.
    rewrite !named_ren by pfx. reflexivity.
  Qed.

  Lemma HV_session : forall pd, HV (vis_session pd) (vis_session (ren_defs pd)).
  Proof.
    intros pd n. unfold vis_session. rewrite (HV_template pd n), path_params_ren.
    rewrite !named_ren by pfx. reflexivity.
  Qed.

  (* ---------------------------------------------------------------- the pieces of the specification *)
  Lemma ren_spec_action : forall vis vis' l a, HV vis vis' -> good a ->
    spec_action refs' vis' l (ren_action a) = map rename_err (spec_action refs vis l a).
  Proof.
    intros vis vis' l a H Hg. unfold spec_action. rewrite is_obj_ren_action.
    destruct (is_obj a); [|reflexivity].
    rewrite jget_ren_action_command, jget_ren_action_args, map_app.
    rewrite (ren_chk vis vis') by (try exact H; apply good_jget; exact Hg).
    rewrite (ren_chk_list vis vis') by (try exact H; apply good_jget; exact Hg). reflexivity.
  Qed.

  Lemma ren_spec_files : forall vis vis' l v, HV vis vis' -> good v ->
    spec_files refs' vis' l (ren_files v) = map rename_err (spec_files refs vis l v).
  Proof.
    intros vis vis' l v H Hg. destruct v as [| | | | |items|]; try reflexivity.
    cbn [ren_files on_arr spec_files]. apply concat_indexed_ren.
    intros i x Hx. cbn [fst snd]. rewrite is_obj_ren_file. destruct (is_obj x); [|reflexivity].
    rewrite jget_ren_file_data. apply ren_chk; [exact H|]. apply good_jget. exact (good_item items x Hg Hx).
  Qed.

  Lemma ren_spec_env_script : forall base base' l s, HV base base' -> good s ->
    spec_env_script refs' base' l (ren_env_script s) = map rename_err (spec_env_script refs base l s).
  Proof.
    intros base base' l s H Hg. unfold spec_env_script. rewrite is_obj_ren_env_script.
    destruct (is_obj s); [|reflexivity]. cbv zeta.
    rewrite jget_ren_env_script_actions, jget_ren_env_script_embeddedFiles, is_obj_ren_env_actions.
    rewrite jget_ren_env_actions_onEnter, jget_ren_env_actions_onExit, file_names_ren.
    set (vis := fun n => base n || session_const n || named "Env.File." (file_names (jget "embeddedFiles" s)) n).
    set (vis' := fun n => base' n || session_const n || named "Env.File." (map rho (file_names (jget "embeddedFiles" s))) n).
    assert (Hv : HV vis vis').
    { intros n. unfold vis, vis'. rewrite (H n), session_const_ren. rewrite named_ren by pfx. reflexivity. }
    rewrite map_app. f_equal.
    - destruct (is_obj (jget "actions" s)); [|reflexivity]. rewrite map_app.
      rewrite (ren_spec_action vis vis') by (try exact Hv; repeat apply good_jget; exact Hg).
      rewrite (ren_spec_action vis vis') by (try exact Hv; repeat apply good_jget; exact Hg). reflexivity.
    - apply ren_spec_files; [exact Hv|apply good_jget; exact Hg].
  Qed.

  Lemma ren_spec_env : forall base base' l e, HV base base' -> good e ->
    spec_env refs' base' l (ren_env e) = map rename_err (spec_env refs base l e).
  Proof.
    intros base base' l e H Hg. unfold spec_env. rewrite is_obj_ren_env.
    destruct (is_obj e); [|reflexivity].
    rewrite jget_ren_env_script, jget_ren_env_variables, map_app.
    rewrite (ren_spec_env_script base base') by (try exact H; apply good_jget; exact Hg). f_equal.
    pose proof (good_jget "variables" e Hg) as Hgv.
    destruct (jget "variables" e) as [| | | | | |members]; try reflexivity.
    cbn [ren_vars on_obj]. induction members as [|[k v] r IH]; [reflexivity|].
    cbn [map List.concat fst snd]. rewrite map_app. f_equal.
    - apply ren_chk; [exact H|]. apply (good_member _ (k, v) Hgv). left. reflexivity.
    - apply IH. intros s Hs. apply Hgv. cbn [jstrings flat_map]. apply in_or_app. right. exact Hs.
  Qed.

  Lemma ren_spec_env_list : forall base base' l v, HV base base' -> good v ->
    spec_env_list refs' base' l (ren_envs v) = map rename_err (spec_env_list refs base l v).
  Proof.
    intros base base' l v H Hg. destruct v as [| | | | |items|]; try reflexivity.
    cbn [ren_envs on_arr spec_env_list]. apply concat_indexed_ren.
    intros i x Hx. cbn [fst snd]. apply ren_spec_env; [exact H|exact (good_item items x Hg Hx)].
  Qed.

  Lemma chk_list_range : forall vis l r, chk_list refs' vis l (ren_range r) = chk_list refs' vis l (ren_fs_list r).
  Proof. intros vis l r. destruct r; reflexivity. Qed.

  Lemma ren_spec_task_param : forall vis vis' l t, HV vis vis' -> good t ->
    spec_task_param refs' vis' l (ren_tparam t) = map rename_err (spec_task_param refs vis l t).
  Proof.
    intros vis vis' l t H Hg. unfold spec_task_param. rewrite is_obj_ren_tparam.
    destruct (is_obj t); [|reflexivity]. cbv zeta.
    rewrite !type_is_ren_tparam, jget_ren_tparam_range.
    pose proof (good_jget "range" t Hg) as Hgr.
    destruct (type_is t "INT").
    - destruct (jget "range" t) as [| | | |s|items|] eqn:Er; try reflexivity.
      + apply (ren_chk vis vis' _ (JStr s) H Hgr).
      + cbn [ren_range]. clear Er. induction items as [|x r IH]; [reflexivity|].
        cbn [map flat_map]. rewrite map_app. f_equal.
        * apply ren_chk; [exact H|]. apply (good_item _ x Hgr). left. reflexivity.
        * apply IH. intros s Hs. apply Hgr. cbn [jstrings flat_map]. apply in_or_app. right. exact Hs.
    - destruct (type_is t "FLOAT" || type_is t "STRING" || type_is t "PATH"); [|reflexivity].
      rewrite chk_list_range. apply ren_chk_list; assumption.
  Qed.

  Lemma ren_spec_param_space : forall vis vis' l p, HV vis vis' -> good p ->
    spec_param_space refs' vis' l (ren_pspace p) = map rename_err (spec_param_space refs vis l p).
  Proof.
    intros vis vis' l p H Hg. unfold spec_param_space. rewrite is_obj_ren_pspace.
    destruct (is_obj p); [|reflexivity]. rewrite jget_ren_pspace_taskParameterDefinitions.
    pose proof (good_jget "taskParameterDefinitions" p Hg) as Hgt.
    destruct (jget "taskParameterDefinitions" p) as [| | | | |items|]; try reflexivity.
    cbn [ren_tparams on_arr]. apply concat_indexed_ren.
    intros i x Hx. cbn [fst snd]. apply ren_spec_task_param; [exact H|exact (good_item items x Hgt Hx)].
  Qed.

  Lemma ren_spec_host_req : forall vis vis' l h, HV vis vis' -> good h ->
    spec_host_req refs' vis' l (ren_hostreq h) = map rename_err (spec_host_req refs vis l h).
  Proof.
    intros vis vis' l h H Hg. unfold spec_host_req. rewrite is_obj_ren_hostreq.
    destruct (is_obj h); [|reflexivity].
    rewrite jget_ren_hostreq_amounts, jget_ren_hostreq_attributes, map_app.
    pose proof (good_jget "amounts" h Hg) as Hga. pose proof (good_jget "attributes" h Hg) as Hgb.
    f_equal.
    - destruct (jget "amounts" h) as [| | | | |items|]; try reflexivity.
      cbn [ren_amounts on_arr]. apply concat_indexed_ren.
      intros i x Hx. cbn [fst snd]. rewrite is_obj_ren_amount. destruct (is_obj x); [|reflexivity].
      rewrite jget_ren_amount_name. apply ren_chk; [exact H|]. apply good_jget. exact (good_item items x Hga Hx).
    - destruct (jget "attributes" h) as [| | | | |items|]; try reflexivity.
      cbn [ren_attrs on_arr]. apply concat_indexed_ren.
      intros i x Hx. cbn [fst snd]. cbv zeta. rewrite is_obj_ren_attr. destruct (is_obj x); [|reflexivity].
      pose proof (good_item items x Hgb Hx) as Hgx.
      rewrite jget_ren_attr_name, jget_ren_attr_anyOf, jget_ren_attr_allOf, !map_app.
      rewrite (ren_chk vis vis') by (try exact H; apply good_jget; exact Hgx).
      rewrite !(ren_chk_list vis vis') by (try exact H; apply good_jget; exact Hgx). reflexivity.
  Qed.

  Lemma ren_spec_step_script : forall base base' tps l s, HV base base' -> good s ->
    spec_step_script refs' base' (map rho tps) l (ren_step_script s)
    = map rename_err (spec_step_script refs base tps l s).
  Proof.
    intros base base' tps l s H Hg. unfold spec_step_script. rewrite is_obj_ren_step_script.
    destruct (is_obj s); [|reflexivity]. cbv zeta.
    rewrite jget_ren_step_script_actions, jget_ren_step_script_embeddedFiles, is_obj_ren_step_actions.
    rewrite jget_ren_step_actions_onRun, file_names_ren.
    set (vis := fun n => base n || session_const n || named "Task.Param." tps n || named "Task.RawParam." tps n
                         || named "Task.File." (file_names (jget "embeddedFiles" s)) n).
    set (vis' := fun n => base' n || session_const n || named "Task.Param." (map rho tps) n
                          || named "Task.RawParam." (map rho tps) n
                          || named "Task.File." (map rho (file_names (jget "embeddedFiles" s))) n).
    assert (Hv : HV vis vis').
    { intros n. unfold vis, vis'. rewrite (H n), session_const_ren. rewrite !named_ren by pfx. reflexivity. }
    rewrite map_app. f_equal.
    - destruct (is_obj (jget "actions" s)); [|reflexivity].
      apply ren_spec_action; [exact Hv|repeat apply good_jget; exact Hg].
    - apply ren_spec_files; [exact Hv|apply good_jget; exact Hg].
  Qed.

  Lemma ren_spec_step : forall pd l s, good s ->
    spec_step refs' (ren_defs pd) l (ren_step s) = map rename_err (spec_step refs pd l s).
  Proof.
    intros pd l s Hg. unfold spec_step. rewrite is_obj_ren_step. destruct (is_obj s); [|reflexivity].
    rewrite jget_ren_step_script, jget_ren_step_stepEnvironments, jget_ren_step_parameterSpace,
            jget_ren_step_hostRequirements, task_param_names_ren, !map_app.
    rewrite (ren_spec_step_script (vis_session pd)) by (try apply HV_session; apply good_jget; exact Hg).
    rewrite (ren_spec_env_list (vis_session pd)) by (try apply HV_session; apply good_jget; exact Hg).
    rewrite (ren_spec_param_space (vis_template pd)) by (try apply HV_template; apply good_jget; exact Hg).
    rewrite (ren_spec_host_req (vis_template pd)) by (try apply HV_template; apply good_jget; exact Hg).
    reflexivity.
  Qed.

  (* ---------------------------------------------------------------- the roots *)
  Theorem rename_job_spec : forall j, good j ->
    spec_job_template refs' (rename_job j) = map rename_err (spec_job_template refs j).
  Proof.
    intros j Hg. unfold spec_job_template. cbv zeta.
    rewrite jget_rename_job_name, jget_rename_job_parameterDefinitions, jget_rename_job_steps,
            jget_rename_job_jobEnvironments, !map_app.
    set (pd := jget "parameterDefinitions" j).
    rewrite (ren_chk (vis_template pd)) by (try apply HV_template; apply good_jget; exact Hg).
    rewrite (ren_spec_env_list (vis_session pd)) by (try apply HV_session; apply good_jget; exact Hg).
    f_equal. f_equal.
    pose proof (good_jget "steps" j Hg) as Hgs.
    destruct (jget "steps" j) as [| | | | |items|]; try reflexivity.
    cbn [ren_steps on_arr]. apply concat_indexed_ren.
    intros i x Hx. cbn [fst snd]. apply ren_spec_step. exact (good_item items x Hgs Hx).
  Qed.

  Theorem rename_env_spec : forall j, good j ->
    spec_env_template refs' (rename_env_template j) = map rename_err (spec_env_template refs j).
  Proof.
    intros j Hg. unfold spec_env_template. cbv zeta.
    rewrite jget_rename_env_template_parameterDefinitions, jget_rename_env_template_environment.
    apply ren_spec_env; [apply HV_session|apply good_jget; exact Hg].
  Qed.

  Lemma good_Forall : forall j, Forall fs_hyp (jstrings j) -> good j.
  Proof. intros j H s Hs. rewrite Forall_forall in H. exact (H s Hs). Qed.
End Rename.

(* ------------------------------------------------------------------ summary statements *)
Section Summary.
  Variables rho rs : str -> str.
  Variables refs refs' : str -> option (list str).
  Variable j : json.
  Hypothesis rho_inj : forall a b, rho a = rho b -> a = b.
  Hypothesis rho_nonempty : forall c r, rho (c :: r) <> [].
  Hypothesis Hrefs : forall s, In s (jstrings j) -> refs' (rs s) = option_map (map (rename_sym rho)) (refs s).

  Theorem rename_spec :
    spec_job_template refs' (rename_job rho rs j) = map (rename_err rho) (spec_job_template refs j) /\
    spec_env_template refs' (rename_env_template rho rs j) = map (rename_err rho) (spec_env_template refs j).
  Proof. split; [apply rename_job_spec|apply rename_env_spec]; assumption. Qed.

  Theorem rename_walker :
    prevalidate Generated.schema refs' "JobTemplate" (rename_job rho rs j)
    = map (rename_err rho) (prevalidate Generated.schema refs "JobTemplate" j) /\
    prevalidate Generated.schema refs' "EnvironmentTemplate" (rename_env_template rho rs j)
    = map (rename_err rho) (prevalidate Generated.schema refs "EnvironmentTemplate" j).
  Proof. rewrite !exact_job, !exact_env. exact rename_spec. Qed.

  Lemma map_nil_iff : forall (A B : Type) (f : A -> B) l, map f l = [] <-> l = [].
  Proof. intros A B f l. destruct l; split; intros H; try reflexivity; discriminate H. Qed.

  Theorem rename_verdict :
    (prevalidate Generated.schema refs' "JobTemplate" (rename_job rho rs j) = []
     <-> prevalidate Generated.schema refs "JobTemplate" j = []) /\
    (prevalidate Generated.schema refs' "EnvironmentTemplate" (rename_env_template rho rs j) = []
     <-> prevalidate Generated.schema refs "EnvironmentTemplate" j = []).
  Proof. destruct rename_walker as [-> ->]. split; apply map_nil_iff. Qed.
End Summary.
