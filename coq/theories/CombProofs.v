(* CombProofs.v — model (Comb.v) = specification (CombSpec.v), for all inputs. *)
From Coq Require Import List NArith ZArith Bool Lia ZifyBool Permutation Arith.
Import ListNotations.
Require Import OJD.Base OJD.Lexer OJD.Generated OJD.Comb OJD.CombSpec.

(* ------------------------------------------------------------------ *)
(* induction principle for the nested type [ctree]                     *)
(* ------------------------------------------------------------------ *)
Section CtreeInd.
  Variable P : ctree -> Prop.
  Hypothesis HId : forall s, P (Id s).
  Hypothesis HProd : forall cs, Forall P cs -> P (Prod cs).
  Hypothesis HAssoc : forall cs, Forall P cs -> P (Assoc cs).

  Fixpoint ctree_ind' (t : ctree) : P t :=
    match t with
    | Id s => HId s
    | Prod cs =>
      HProd cs ((fix go (l : list ctree) : Forall P l :=
                   match l with
                   | [] => Forall_nil P
                   | c :: r => Forall_cons c (ctree_ind' c) (go r)
                   end) cs)
    | Assoc cs =>
      HAssoc cs ((fix go (l : list ctree) : Forall P l :=
                    match l with
                    | [] => Forall_nil P
                    | c :: r => Forall_cons c (ctree_ind' c) (go r)
                    end) cs)
    end.
End CtreeInd.

(* ------------------------------------------------------------------ *)
(* unfolding equations of the parser                                    *)
(* ------------------------------------------------------------------ *)
Lemma p_expr_S f ts :
  p_expr (S f) ts =
  (do (c, r) <- p_elem f ts; do (cs, r') <- p_stars f r; Ok (mk_prod (c :: cs), r')).
Proof. reflexivity. Qed.

Lemma p_stars_S f ts :
  p_stars (S f) ts =
  match ts with
  | TStar :: r => do (c, r1) <- p_elem f r; do (cs, r2) <- p_stars f r1; Ok (c :: cs, r2)
  | _ => Ok ([], ts)
  end.
Proof. reflexivity. Qed.

Lemma p_elem_S f ts :
  p_elem (S f) ts =
  match ts with
  | [] => Raise ExpressionError
  | TName s :: r => Ok (Id s, r)
  | TLParen :: r => p_assoc f r
  | _ :: _ => Raise TokenError
  end.
Proof. reflexivity. Qed.

Lemma p_assoc_S f ts :
  p_assoc (S f) ts =
  (do (e, r) <- p_expr f ts;
   do (es, r') <- p_commas f r;
   match r' with
   | [] => Raise ExpressionError
   | TRParen :: r'' =>
     match es with
     | [] => Raise ExpressionError
     | _ :: _ => Ok (Assoc (e :: es), r'')
     end
   | _ :: _ => Raise TokenError
   end).
Proof. reflexivity. Qed.

Lemma p_commas_S f ts :
  p_commas (S f) ts =
  match ts with
  | TComma :: r => do (e, r1) <- p_expr f r; do (es, r2) <- p_commas f r1; Ok (e :: es, r2)
  | _ => Ok ([], ts)
  end.
Proof. reflexivity. Qed.

Lemma p_O ts :
  p_expr 0 ts = Raise RuntimeError /\ p_stars 0 ts = Raise RuntimeError /\
  p_elem 0 ts = Raise RuntimeError /\ p_assoc 0 ts = Raise RuntimeError /\
  p_commas 0 ts = Raise RuntimeError.
Proof. repeat split; reflexivity. Qed.

(* ------------------------------------------------------------------ *)
(* 1. soundness: what the parser returns derives from the grammar       *)
(* ------------------------------------------------------------------ *)
Lemma StarTail_nil_inv pre : StarTail pre [] -> pre = [].
Proof. intros H. inversion H. reflexivity. Qed.

Lemma CommaTail_nil_inv pre : CommaTail pre [] -> pre = [].
Proof. intros H. inversion H. reflexivity. Qed.

Definition sound_at (fuel : nat) : Prop :=
  (forall ts t r, p_expr fuel ts = Ok (t, r) -> exists pre, ts = pre ++ r /\ Expr pre t) /\
  (forall ts cs r, p_stars fuel ts = Ok (cs, r) -> exists pre, ts = pre ++ r /\ StarTail pre cs) /\
  (forall ts t r, p_elem fuel ts = Ok (t, r) -> exists pre, ts = pre ++ r /\ Elem pre t) /\
  (forall ts t r, p_assoc fuel ts = Ok (t, r) ->
                  exists pre, ts = pre ++ r /\ Elem (TLParen :: pre) t) /\
  (forall ts cs r, p_commas fuel ts = Ok (cs, r) -> exists pre, ts = pre ++ r /\ CommaTail pre cs).

Lemma parser_sound : forall fuel, sound_at fuel.
Proof.
  induction fuel as [|f IH].
  - unfold sound_at. repeat split; intros ? ? ? H; cbn in H; discriminate H.
  - destruct IH as (IHexpr & IHstars & IHelem & IHassoc & IHcommas).
    unfold sound_at. repeat split.
    + (* p_expr *)
      intros ts t r H. rewrite p_expr_S in H.
      destruct (p_elem f ts) as [[c r1]|e1] eqn:He; cbn in H; [|discriminate H].
      destruct (p_stars f r1) as [[cs r2]|e2] eqn:Hs; cbn in H; [|discriminate H].
      injection H as Ht Hr. subst r2.
      destruct (IHelem _ _ _ He) as (pre1 & E1 & D1).
      destruct (IHstars _ _ _ Hs) as (pre2 & E2 & D2).
      destruct cs as [|c' cs'].
      * cbn in Ht. subst t. apply StarTail_nil_inv in D2. subst pre2. cbn in E2. subst r1.
        exists pre1. split; [exact E1|]. apply Ex_elem. exact D1.
      * cbn in Ht. subst t. exists (pre1 ++ pre2). split.
        { rewrite <- app_assoc. rewrite <- E2. exact E1. }
        { apply Ex_prod; assumption. }
    + (* p_stars *)
      intros ts cs r H. rewrite p_stars_S in H.
      destruct ts as [|t0 ts0].
      { injection H as Hc Hr. subst. exists []. split; [reflexivity|constructor]. }
      destruct t0; try (injection H as Hc Hr; subst; exists []; split; [reflexivity|constructor]).
      destruct (p_elem f ts0) as [[c r1]|e1] eqn:He; cbn in H; [|discriminate H].
      destruct (p_stars f r1) as [[cs1 r2]|e2] eqn:Hs; cbn in H; [|discriminate H].
      injection H as Hc Hr. subst r2 cs.
      destruct (IHelem _ _ _ He) as (pre1 & E1 & D1).
      destruct (IHstars _ _ _ Hs) as (pre2 & E2 & D2).
      exists (TStar :: pre1 ++ pre2). split.
      { cbn. f_equal. rewrite <- app_assoc. rewrite <- E2. exact E1. }
      { apply St_cons; assumption. }
    + (* p_elem *)
      intros ts t r H. rewrite p_elem_S in H.
      destruct ts as [|t0 ts0]; [discriminate H|].
      destruct t0; try discriminate H.
      * injection H as Ht Hr. subst. exists [TName s]. split; [reflexivity|constructor].
      * destruct (IHassoc _ _ _ H) as (pre & E & D).
        exists (TLParen :: pre). split; [cbn; f_equal; exact E|exact D].
    + (* p_assoc *)
      intros ts t r H. rewrite p_assoc_S in H.
      destruct (p_expr f ts) as [[e0 r1]|e1] eqn:He; cbn in H; [|discriminate H].
      destruct (p_commas f r1) as [[es r2]|e2] eqn:Hs; cbn in H; [|discriminate H].
      destruct r2 as [|t2 r2']; [discriminate H|].
      destruct t2; try discriminate H.
      destruct es as [|c' es']; [discriminate H|].
      injection H as Ht Hr. subst t r2'.
      destruct (IHexpr _ _ _ He) as (pre1 & E1 & D1).
      destruct (IHcommas _ _ _ Hs) as (pre2 & E2 & D2).
      exists (pre1 ++ pre2 ++ [TRParen]). split.
      { rewrite E1, E2. rewrite <- !app_assoc. reflexivity. }
      { apply El_assoc; assumption. }
    + (* p_commas *)
      intros ts cs r H. rewrite p_commas_S in H.
      destruct ts as [|t0 ts0].
      { injection H as Hc Hr. subst. exists []. split; [reflexivity|constructor]. }
      destruct t0; try (injection H as Hc Hr; subst; exists []; split; [reflexivity|constructor]).
      destruct (p_expr f ts0) as [[c r1]|e1] eqn:He; cbn in H; [|discriminate H].
      destruct (p_commas f r1) as [[cs1 r2]|e2] eqn:Hs; cbn in H; [|discriminate H].
      injection H as Hc Hr. subst r2 cs.
      destruct (IHexpr _ _ _ He) as (pre1 & E1 & D1).
      destruct (IHcommas _ _ _ Hs) as (pre2 & E2 & D2).
      exists (TComma :: pre1 ++ pre2). split.
      { cbn. f_equal. rewrite <- app_assoc. rewrite <- E2. exact E1. }
      { apply Ct_cons; assumption. }
Qed.

(* ------------------------------------------------------------------ *)
(* 2. completeness up to fuel: on a derivable prefix the parser returns *)
(*    exactly the derived tree, unless it runs out of fuel              *)
(* ------------------------------------------------------------------ *)
Definition nsh (r : list tok) : Prop := match r with TStar :: _ => False | _ => True end.
Definition nch (r : list tok) : Prop := match r with TComma :: _ => False | _ => True end.

Lemma p_stars_stop fuel r :
  nsh r -> p_stars fuel r = Ok ([], r) \/ p_stars fuel r = Raise RuntimeError.
Proof.
  intros H. destruct fuel as [|f]; [right; reflexivity|]. left. rewrite p_stars_S.
  destruct r as [|t0 r0]; [reflexivity|]. destruct t0; try reflexivity. contradiction H.
Qed.

Lemma p_commas_stop fuel r :
  nch r -> p_commas fuel r = Ok ([], r) \/ p_commas fuel r = Raise RuntimeError.
Proof.
  intros H. destruct fuel as [|f]; [right; reflexivity|]. left. rewrite p_commas_S.
  destruct r as [|t0 r0]; [reflexivity|]. destruct t0; try reflexivity. contradiction H.
Qed.

Lemma CommaTail_head rest cs r : CommaTail rest cs -> nsh (TRParen :: r) -> nsh (rest ++ TRParen :: r).
Proof. intros H _. inversion H; cbn; exact I. Qed.

Lemma CommaTail_head' rest cs r : CommaTail rest cs -> nsh r -> nsh (rest ++ r).
Proof. intros H Hr. inversion H; cbn; [exact Hr|exact I]. Qed.

Lemma parser_complete_or_fuel :
  (forall ts t, Expr ts t -> forall fuel r, nsh r ->
     p_expr fuel (ts ++ r) = Ok (t, r) \/ p_expr fuel (ts ++ r) = Raise RuntimeError) /\
  (forall ts t, Elem ts t -> forall fuel r,
     p_elem fuel (ts ++ r) = Ok (t, r) \/ p_elem fuel (ts ++ r) = Raise RuntimeError) /\
  (forall ts cs, StarTail ts cs -> forall fuel r, nsh r ->
     p_stars fuel (ts ++ r) = Ok (cs, r) \/ p_stars fuel (ts ++ r) = Raise RuntimeError) /\
  (forall ts cs, CommaTail ts cs -> forall fuel r, nsh r -> nch r ->
     p_commas fuel (ts ++ r) = Ok (cs, r) \/ p_commas fuel (ts ++ r) = Raise RuntimeError).
Proof.
  apply grammar_mutind.
  - (* Ex_elem *)
    intros ts t _ IHe fuel r Hr.
    destruct fuel as [|f]; [right; reflexivity|]. rewrite p_expr_S.
    destruct (IHe f r) as [E|E]; rewrite E; cbn; [|right; reflexivity].
    destruct (p_stars_stop f r Hr) as [S0|S0]; rewrite S0; cbn; [left|right]; reflexivity.
  - (* Ex_prod *)
    intros ts t rest c cs _ IHe _ IHs fuel r Hr.
    destruct fuel as [|f]; [right; reflexivity|]. rewrite p_expr_S. rewrite <- app_assoc.
    destruct (IHe f (rest ++ r)) as [E|E]; rewrite E; cbn; [|right; reflexivity].
    destruct (IHs f r Hr) as [S0|S0]; rewrite S0; cbn; [left|right]; reflexivity.
  - (* El_id *)
    intros s fuel r. destruct fuel as [|f]; [right; reflexivity|]. left. reflexivity.
  - (* El_assoc *)
    intros ts t rest c cs _ IHe HC IHc fuel r.
    destruct fuel as [|f]; [right; reflexivity|]. cbn [app]. rewrite p_elem_S.
    destruct f as [|f]; [right; reflexivity|]. rewrite p_assoc_S.
    replace ((ts ++ rest ++ [TRParen]) ++ r) with (ts ++ (rest ++ TRParen :: r))
      by (rewrite <- !app_assoc; reflexivity).
    assert (Hh : nsh (rest ++ TRParen :: r)) by (apply (CommaTail_head rest (c :: cs)); [exact HC|exact I]).
    destruct (IHe f _ Hh) as [E|E]; rewrite E; cbn; [|right; reflexivity].
    destruct (IHc f (TRParen :: r) I I) as [S0|S0]; rewrite S0; cbn; [left|right]; reflexivity.
  - (* St_nil *)
    intros fuel r Hr. cbn [app]. apply p_stars_stop. exact Hr.
  - (* St_cons *)
    intros ts t rest cs _ IHe _ IHs fuel r Hr.
    destruct fuel as [|f]; [right; reflexivity|]. cbn [app]. rewrite p_stars_S. rewrite <- app_assoc.
    destruct (IHe f (rest ++ r)) as [E|E]; rewrite E; cbn; [|right; reflexivity].
    destruct (IHs f r Hr) as [S0|S0]; rewrite S0; cbn; [left|right]; reflexivity.
  - (* Ct_nil *)
    intros fuel r _ Hr. cbn [app]. apply p_commas_stop. exact Hr.
  - (* Ct_cons *)
    intros ts t rest cs _ IHe HC IHc fuel r Hs Hc.
    destruct fuel as [|f]; [right; reflexivity|]. cbn [app]. rewrite p_commas_S. rewrite <- app_assoc.
    assert (Hh : nsh (rest ++ r)) by (apply (CommaTail_head' rest cs); assumption).
    destruct (IHe f _ Hh) as [E|E]; rewrite E; cbn; [|right; reflexivity].
    destruct (IHc f r Hs Hc) as [S0|S0]; rewrite S0; cbn; [left|right]; reflexivity.
Qed.

(* ------------------------------------------------------------------ *)
(* 3. the fuel given by [parse_fuel] is never exhausted                 *)
(* ------------------------------------------------------------------ *)
Lemma Elem_nonempty ts t : Elem ts t -> 1 <= length ts.
Proof. intros H. inversion H; cbn; lia. Qed.

Lemma Expr_nonempty ts t : Expr ts t -> 1 <= length ts.
Proof.
  intros H. inversion H as [ts0 t0 He|ts0 t0 rest c cs He Hs]; subst.
  - eapply Elem_nonempty; eassumption.
  - rewrite app_length. apply Elem_nonempty in He. lia.
Qed.

Lemma p_elem_len f ts c r : p_elem f ts = Ok (c, r) -> length r + 1 <= length ts.
Proof.
  intros H. destruct (parser_sound f) as (_ & _ & Hs & _).
  destruct (Hs _ _ _ H) as (pre & E & D). subst ts. rewrite app_length.
  apply Elem_nonempty in D. lia.
Qed.

Lemma p_expr_len f ts c r : p_expr f ts = Ok (c, r) -> length r + 1 <= length ts.
Proof.
  intros H. destruct (parser_sound f) as (Hs & _).
  destruct (Hs _ _ _ H) as (pre & E & D). subst ts. rewrite app_length.
  apply Expr_nonempty in D. lia.
Qed.

Definition fuel_ok_at (fuel : nat) : Prop :=
  (forall ts, 3 * length ts + 2 <= fuel -> p_expr fuel ts <> Raise RuntimeError) /\
  (forall ts, 3 * length ts + 1 <= fuel -> p_stars fuel ts <> Raise RuntimeError) /\
  (forall ts, 3 * length ts + 1 <= fuel -> p_elem fuel ts <> Raise RuntimeError) /\
  (forall ts, 3 * length ts + 3 <= fuel -> p_assoc fuel ts <> Raise RuntimeError) /\
  (forall ts, 3 * length ts + 1 <= fuel -> p_commas fuel ts <> Raise RuntimeError).

Lemma fuel_enough : forall fuel, fuel_ok_at fuel.
Proof.
  induction fuel as [|f IH].
  - unfold fuel_ok_at. repeat split; intros ts H; lia.
  - destruct IH as (IHexpr & IHstars & IHelem & IHassoc & IHcommas).
    unfold fuel_ok_at. repeat split.
    + intros ts Hf. rewrite p_expr_S.
      destruct (p_elem f ts) as [[c r1]|e1] eqn:He; cbn.
      * pose proof (p_elem_len _ _ _ _ He) as L1.
        destruct (p_stars f r1) as [[cs r2]|e2] eqn:Hs; cbn; [discriminate|].
        intros X. injection X as X. subst e2. apply (IHstars r1); [lia|exact Hs].
      * intros X. injection X as X. subst e1. apply (IHelem ts); [lia|exact He].
    + intros ts Hf. rewrite p_stars_S.
      destruct ts as [|t0 ts0]; [discriminate|].
      destruct t0; try discriminate. cbn [length] in Hf.
      destruct (p_elem f ts0) as [[c r1]|e1] eqn:He; cbn.
      * pose proof (p_elem_len _ _ _ _ He) as L1.
        destruct (p_stars f r1) as [[cs r2]|e2] eqn:Hs; cbn; [discriminate|].
        intros X. injection X as X. subst e2. apply (IHstars r1); [lia|exact Hs].
      * intros X. injection X as X. subst e1. apply (IHelem ts0); [lia|exact He].
    + intros ts Hf. rewrite p_elem_S.
      destruct ts as [|t0 ts0]; [discriminate|].
      destruct t0; try discriminate. cbn [length] in Hf.
      apply IHassoc. lia.
    + intros ts Hf. rewrite p_assoc_S.
      destruct (p_expr f ts) as [[c r1]|e1] eqn:He; cbn.
      * pose proof (p_expr_len _ _ _ _ He) as L1.
        destruct (p_commas f r1) as [[cs r2]|e2] eqn:Hs; cbn.
        { destruct r2 as [|t2 r2']; [discriminate|]. destruct t2; try discriminate.
          destruct cs; discriminate. }
        intros X. injection X as X. subst e2. apply (IHcommas r1); [lia|exact Hs].
      * intros X. injection X as X. subst e1. apply (IHexpr ts); [lia|exact He].
    + intros ts Hf. rewrite p_commas_S.
      destruct ts as [|t0 ts0]; [discriminate|].
      destruct t0; try discriminate. cbn [length] in Hf.
      destruct (p_expr f ts0) as [[c r1]|e1] eqn:He; cbn.
      * pose proof (p_expr_len _ _ _ _ He) as L1.
        destruct (p_commas f r1) as [[cs r2]|e2] eqn:Hs; cbn; [discriminate|].
        intros X. injection X as X. subst e2. apply (IHcommas r1); [lia|exact Hs].
      * intros X. injection X as X. subst e1. apply (IHexpr ts0); [lia|exact He].
Qed.

Lemma p_expr_fuel ts : p_expr (parse_fuel ts) ts <> Raise RuntimeError.
Proof.
  destruct (fuel_enough (parse_fuel ts)) as (H & _). apply H. unfold parse_fuel. lia.
Qed.

(* ------------------------------------------------------------------ *)
(* 4. error classes                                                     *)
(* ------------------------------------------------------------------ *)
Definition err_ok (e : exn) : Prop := e = RuntimeError \/ is_expression_error e = true.

Definition errors_at (fuel : nat) : Prop :=
  (forall ts e, p_expr fuel ts = Raise e -> err_ok e) /\
  (forall ts e, p_stars fuel ts = Raise e -> err_ok e) /\
  (forall ts e, p_elem fuel ts = Raise e -> err_ok e) /\
  (forall ts e, p_assoc fuel ts = Raise e -> err_ok e) /\
  (forall ts e, p_commas fuel ts = Raise e -> err_ok e).

Lemma parser_errors : forall fuel, errors_at fuel.
Proof.
  induction fuel as [|f IH].
  - unfold errors_at. repeat split; intros ts e H; cbn in H; injection H as H; subst e; left; reflexivity.
  - destruct IH as (IHexpr & IHstars & IHelem & IHassoc & IHcommas).
    unfold errors_at. repeat split.
    + intros ts e H. rewrite p_expr_S in H.
      destruct (p_elem f ts) as [[c r1]|e1] eqn:He; cbn in H.
      * destruct (p_stars f r1) as [[cs r2]|e2] eqn:Hs; cbn in H; [discriminate H|].
        injection H as H. subst e2. eapply IHstars; eassumption.
      * injection H as H. subst e1. eapply IHelem; eassumption.
    + intros ts e H. rewrite p_stars_S in H.
      destruct ts as [|t0 ts0]; [discriminate H|].
      destruct t0; try discriminate H.
      destruct (p_elem f ts0) as [[c r1]|e1] eqn:He; cbn in H.
      * destruct (p_stars f r1) as [[cs r2]|e2] eqn:Hs; cbn in H; [discriminate H|].
        injection H as H. subst e2. eapply IHstars; eassumption.
      * injection H as H. subst e1. eapply IHelem; eassumption.
    + intros ts e H. rewrite p_elem_S in H.
      destruct ts as [|t0 ts0]; [injection H as H; subst e; right; reflexivity|].
      destruct t0; try (injection H as H; subst e; right; reflexivity); try discriminate H.
      eapply IHassoc; eassumption.
    + intros ts e H. rewrite p_assoc_S in H.
      destruct (p_expr f ts) as [[c r1]|e1] eqn:He; cbn in H.
      * destruct (p_commas f r1) as [[cs r2]|e2] eqn:Hs; cbn in H.
        { destruct r2 as [|t2 r2']; [injection H as H; subst e; right; reflexivity|].
          destruct t2; try (injection H as H; subst e; right; reflexivity).
          destruct cs; [injection H as H; subst e; right; reflexivity|discriminate H]. }
        injection H as H. subst e2. eapply IHcommas; eassumption.
      * injection H as H. subst e1. eapply IHexpr; eassumption.
    + intros ts e H. rewrite p_commas_S in H.
      destruct ts as [|t0 ts0]; [discriminate H|].
      destruct t0; try discriminate H.
      destruct (p_expr f ts0) as [[c r1]|e1] eqn:He; cbn in H.
      * destruct (p_commas f r1) as [[cs r2]|e2] eqn:Hs; cbn in H; [discriminate H|].
        injection H as H. subst e2. eapply IHcommas; eassumption.
      * injection H as H. subst e1. eapply IHexpr; eassumption.
Qed.

(* ------------------------------------------------------------------ *)
(* C14_grammar                                                          *)
(* ------------------------------------------------------------------ *)
Lemma parse_unfold t0 ts0 :
  parse (t0 :: ts0) =
  (do (t, r) <- p_expr (parse_fuel (t0 :: ts0)) (t0 :: ts0);
   match r with [] => Ok t | _ :: _ => Raise TokenError end).
Proof. reflexivity. Qed.

Theorem parse_iff_Expr : forall ts t, parse ts = Ok t <-> Expr ts t.
Proof.
  intros ts t. split.
  - intros H. destruct ts as [|t0 ts0]; [discriminate H|]. rewrite parse_unfold in H.
    destruct (p_expr (parse_fuel (t0 :: ts0)) (t0 :: ts0)) as [[t1 r]|e] eqn:Hp; cbn in H; [|discriminate H].
    destruct r as [|x r']; [|discriminate H]. injection H as H. subst t1.
    destruct (parser_sound (parse_fuel (t0 :: ts0))) as (Hs & _).
    destruct (Hs _ _ _ Hp) as (pre & E & D). rewrite app_nil_r in E. rewrite E. exact D.
  - intros H. pose proof (Expr_nonempty _ _ H) as Hn.
    destruct ts as [|t0 ts0]; [cbn in Hn; lia|]. rewrite parse_unfold.
    destruct parser_complete_or_fuel as (Hc & _).
    destruct (Hc _ _ H (parse_fuel (t0 :: ts0)) [] I) as [E|E]; rewrite app_nil_r in E.
    + rewrite E. reflexivity.
    + exfalso. exact (p_expr_fuel _ E).
Qed.

Theorem parse_error_family : forall ts e, parse ts = Raise e -> is_expression_error e = true.
Proof.
  intros ts e H. destruct ts as [|t0 ts0]; [injection H as H; subst e; reflexivity|].
  rewrite parse_unfold in H.
  destruct (p_expr (parse_fuel (t0 :: ts0)) (t0 :: ts0)) as [[t1 r]|e1] eqn:Hp; cbn in H.
  - destruct r; [discriminate H|]. injection H as H. subst e. reflexivity.
  - injection H as H. subst e1.
    destruct (parser_errors (parse_fuel (t0 :: ts0))) as (He & _).
    destruct (He _ _ Hp) as [R|R]; [|exact R]. subst e. exfalso. exact (p_expr_fuel _ Hp).
Qed.

(* the grammar is unambiguous *)
Corollary Expr_deterministic : forall ts t t', Expr ts t -> Expr ts t' -> t = t'.
Proof.
  intros ts t t' H H'. apply parse_iff_Expr in H. apply parse_iff_Expr in H'.
  rewrite H in H'. injection H' as H'. exact H'.
Qed.

(* ------------------------------------------------------------------ *)
(* C14_print_parse                                                      *)
(* ------------------------------------------------------------------ *)
Lemma grammar_canonical :
  (forall ts t, Expr ts t -> Canonical t) /\
  (forall ts t, Elem ts t -> Canonical t /\ is_elem_tree t) /\
  (forall ts cs, StarTail ts cs -> Forall Canonical cs /\ Forall is_elem_tree cs) /\
  (forall ts cs, CommaTail ts cs -> Forall Canonical cs).
Proof.
  apply grammar_mutind.
  - intros ts t _ [Hc _]. exact Hc.
  - intros ts t rest c cs _ [Hc He] _ [Fc Fe]. apply Can_prod.
    + cbn. lia.
    + constructor; assumption.
    + constructor; assumption.
  - intros s. split; [constructor|exact I].
  - intros ts t rest c cs _ Hc _ Fc. split; [|exact I]. apply Can_assoc.
    + cbn. lia.
    + constructor; assumption.
  - split; constructor.
  - intros ts t rest cs _ [Hc He] _ [Fc Fe]. split; constructor; assumption.
  - constructor.
  - intros ts t rest cs _ Hc _ Fc. constructor; assumption.
Qed.

Lemma star_tail_render l :
  Forall (fun c => Elem (to_tokens c) c) l ->
  StarTail (flat_map (fun y => TStar :: y) (map to_tokens l)) l.
Proof.
  induction 1 as [|c l Hc _ IH]; cbn; [constructor|]. apply St_cons; assumption.
Qed.

Lemma comma_tail_render l :
  Forall (fun c => Expr (to_tokens c) c) l ->
  CommaTail (flat_map (fun y => TComma :: y) (map to_tokens l)) l.
Proof.
  induction 1 as [|c l Hc _ IH]; cbn; [constructor|]. apply Ct_cons; assumption.
Qed.

Lemma canonical_renders : forall t,
  Canonical t -> Expr (to_tokens t) t /\ (is_elem_tree t -> Elem (to_tokens t) t).
Proof.
  induction t as [s|cs IH|cs IH] using ctree_ind'; intros HC.
  - split; [apply Ex_elem|intros _]; constructor.
  - inversion HC as [|cs0 Hlen Hcan Helem|]; subst cs0.
    split; [|intros F; contradiction F].
    destruct cs as [|a [|b rest]]; cbn in Hlen; try lia.
    assert (HE : Forall (fun c => Elem (to_tokens c) c) (a :: b :: rest)).
    { rewrite Forall_forall in *. intros c Hin.
      apply (IH c Hin (Hcan c Hin)). apply (Helem c Hin). }
    inversion HE as [|? ? Ha Hrest]; subst.
    cbn [to_tokens map join_toks]. apply Ex_prod; [exact Ha|].
    exact (star_tail_render (b :: rest) Hrest).
  - inversion HC as [| |cs0 Hlen Hcan]; subst cs0.
    assert (HEl : Elem (to_tokens (Assoc cs)) (Assoc cs)).
    { destruct cs as [|a [|b rest]]; cbn in Hlen; try lia.
      assert (HE : Forall (fun c => Expr (to_tokens c) c) (a :: b :: rest)).
      { rewrite Forall_forall in *. intros c Hin. apply (IH c Hin (Hcan c Hin)). }
      inversion HE as [|? ? Ha Hrest]; subst.
      cbn [to_tokens map join_toks]. rewrite <- app_assoc.
      apply El_assoc; [exact Ha|]. exact (comma_tail_render (b :: rest) Hrest). }
    split; [apply Ex_elem; exact HEl|intros _; exact HEl].
Qed.

Theorem print_parse_canonical : forall t, Canonical t -> parse (to_tokens t) = Ok t.
Proof. intros t H. apply parse_iff_Expr. apply canonical_renders. exact H. Qed.

Theorem parse_print_parse : forall ts t,
  parse ts = Ok t -> Canonical t /\ parse (to_tokens t) = Ok t.
Proof.
  intros ts t H. apply parse_iff_Expr in H.
  destruct grammar_canonical as (Hc & _). pose proof (Hc _ _ H) as HC.
  split; [exact HC|apply print_parse_canonical; exact HC].
Qed.

(* ------------------------------------------------------------------ *)
(* identifier accounting                                                *)
(* ------------------------------------------------------------------ *)
Lemma str_eqb_eq : forall a b, str_eqb a b = true <-> a = b.
Proof.
  induction a as [|x a IH]; intros [|y b]; cbn; split; intros H; try reflexivity; try discriminate H.
  - apply andb_true_iff in H. destruct H as [H1 H2]. apply N.eqb_eq in H1. apply IH in H2. subst. reflexivity.
  - injection H as H1 H2. subst. apply andb_true_iff. split; [apply N.eqb_refl|apply IH; reflexivity].
Qed.

Lemma mem_str_In : forall x l, mem_str x l = true <-> In x l.
Proof.
  intros x l. induction l as [|y l IH]; cbn.
  - split; [discriminate|contradiction].
  - rewrite orb_true_iff, str_eqb_eq, IH. split; intros [H|H]; auto.
Qed.

Lemma dedup_In : forall l x, In x (dedup l) <-> In x l.
Proof.
  induction l as [|y l IH]; intros x; cbn; [tauto|].
  destruct (mem_str y l) eqn:M.
  - rewrite IH. split; [auto|]. intros [H|H]; [subst; apply mem_str_In; exact M|exact H].
  - cbn. rewrite IH. tauto.
Qed.

Lemma dedup_NoDup : forall l, NoDup (dedup l).
Proof.
  induction l as [|y l IH]; cbn; [constructor|].
  destruct (mem_str y l) eqn:M; [exact IH|]. constructor; [|exact IH].
  rewrite dedup_In. intros H. apply mem_str_In in H. rewrite H in M. discriminate M.
Qed.

Lemma dedup_length_le : forall l, length (dedup l) <= length l.
Proof.
  induction l as [|y l IH]; cbn; [lia|]. destruct (mem_str y l); cbn; lia.
Qed.

Lemma dedup_length_NoDup : forall l, length l = length (dedup l) <-> NoDup l.
Proof.
  induction l as [|y l IH]; cbn.
  - split; [constructor|reflexivity].
  - destruct (mem_str y l) eqn:M.
    + split.
      * intros H. pose proof (dedup_length_le l). lia.
      * intros H. inversion H as [|? ? Hn _]; subst. exfalso. apply Hn. apply mem_str_In. exact M.
    + cbn. split.
      * intros H. injection H as H. constructor; [|apply IH; exact H].
        intros Hin. apply mem_str_In in Hin. rewrite Hin in M. discriminate M.
      * intros H. inversion H as [|? ? _ Hl]; subst. f_equal. apply IH. exact Hl.
Qed.

Lemma set_diff_nil : forall a b, is_nil (set_diff a b) = true <-> (forall x, In x a -> In x b).
Proof.
  intros a b. unfold set_diff. induction a as [|y a IH]; cbn.
  - split; [intros _ x F; contradiction F|reflexivity].
  - destruct (mem_str y b) eqn:M; cbn.
    + rewrite IH. split.
      * intros H x [E|Hin]; [subst; apply mem_str_In; exact M|apply H; exact Hin].
      * intros H x Hin. apply H. right. exact Hin.
    + split; [discriminate|]. intros H. exfalso.
      assert (In y b) as Hin by (apply H; left; reflexivity).
      apply mem_str_In in Hin. rewrite Hin in M. discriminate M.
Qed.

Lemma accounting_iff : forall params ids,
  accounting false params ids = true <->
  (forall x, In x params -> In x ids) /\ (forall x, In x ids -> In x params) /\ NoDup ids.
Proof.
  intros params ids. unfold accounting.
  rewrite negb_true_iff, !orb_false_iff, !negb_false_iff.
  rewrite !set_diff_nil, Nat.eqb_eq, dedup_length_NoDup.
  split.
  - intros ((H1 & H2) & H3). split; [|split; [|exact H3]]; intros x Hx.
    + apply dedup_In. apply H1. apply dedup_In. exact Hx.
    + apply dedup_In. apply H2. apply dedup_In. exact Hx.
  - intros (H1 & H2 & H3). split; [split|exact H3]; intros x Hx.
    + apply dedup_In. apply H1. apply dedup_In. exact Hx.
    + apply dedup_In. apply H2. apply dedup_In. exact Hx.
Qed.

Lemma accounting_permutation : forall params ids,
  NoDup params -> (accounting false params ids = true <-> Permutation ids params).
Proof.
  intros params ids ND. rewrite accounting_iff. split.
  - intros (H1 & H2 & H3). apply NoDup_Permutation; [exact H3|exact ND|].
    intros x. split; [apply H2|apply H1].
  - intros P. split; [|split].
    + intros x Hx. apply (Permutation_in x (Permutation_sym P)). exact Hx.
    + intros x Hx. apply (Permutation_in x P). exact Hx.
    + apply (Permutation_NoDup (Permutation_sym P)). exact ND.
Qed.

(* ------------------------------------------------------------------ *)
(* character set, length                                                *)
(* ------------------------------------------------------------------ *)
Lemma comb_char_iff : forall c, comb_char c = true <-> CombChar c.
Proof. intros c. unfold comb_char, CombChar. lia. Qed.

Lemma charsetb_iff : forall s, charsetb s = true <-> charset s.
Proof.
  intros s. unfold charsetb, charset. destruct s as [|c s].
  - split; [discriminate|]. intros [H _]. contradiction H. reflexivity.
  - rewrite forallb_forall, Forall_forall. split.
    + intros H. split; [discriminate|]. intros x Hx. apply comb_char_iff. apply H. exact Hx.
    + intros [_ H] x Hx. apply comb_char_iff. apply H. exact Hx.
Qed.

Lemma lengthb_iff : forall s, lengthb s = true <-> length s <= max_len.
Proof. intros s. unfold lengthb, comb_max_len, max_len. lia. Qed.

(* ------------------------------------------------------------------ *)
(* C14_template_accept                                                  *)
(* ------------------------------------------------------------------ *)
Theorem template_accept_iff : forall classify params s,
  NoDup params ->
  (template_check false classify params s = true <->
   length s <= max_len /\ charset s /\
   exists ts t, lex_for classify comb_kinds s = Ok ts /\ Expr ts t /\ each_once params t).
Proof.
  intros classify params s ND. unfold template_check, parse_str, each_once.
  rewrite !andb_true_iff, lengthb_iff, charsetb_iff.
  split.
  - intros ((HL & HC) & H). split; [exact HL|]. split; [exact HC|].
    destruct (lex_for classify comb_kinds s) as [ts|e] eqn:Hlex; cbn in H; [|discriminate H].
    destruct (parse ts) as [t|e] eqn:Hp; [|discriminate H].
    exists ts, t. split; [reflexivity|]. split; [apply parse_iff_Expr; exact Hp|].
    apply accounting_permutation; assumption.
  - intros (HL & HC & ts & t & Hlex & HE & HP). split; [split; assumption|].
    rewrite Hlex. cbn. apply parse_iff_Expr in HE. rewrite HE.
    apply accounting_permutation; assumption.
Qed.

(* ------------------------------------------------------------------ *)
(* C14_dims                                                             *)
(* ------------------------------------------------------------------ *)
Lemma map_o_ok_iff {A B} (f : A -> outcome B) (P : A -> Prop) (g : A -> B) l :
  Forall (fun c => forall n, f c = Ok n <-> P c /\ n = g c) l ->
  forall ls, map_o f l = Ok ls <-> Forall P l /\ ls = map g l.
Proof.
  induction 1 as [|c l Hc _ IH]; intros ls; cbn.
  - split; [intros H; injection H as H; subst; split; constructor|intros [_ H]; subst; reflexivity].
  - split.
    + intros H. destruct (f c) as [y|e] eqn:Hf; cbn in H; [|discriminate H].
      destruct (map_o f l) as [ys|e] eqn:Hm; cbn in H; [|discriminate H].
      injection H as H. subst ls. destruct (proj1 (Hc y) eq_refl) as [Pc Ey].
      destruct (proj1 (IH ys) eq_refl) as [Pl El]. subst. split; [constructor; assumption|reflexivity].
    + intros [HF Hl]. inversion HF as [|? ? Pc Pl]; subst.
      rewrite (proj2 (Hc (g c)) (conj Pc eq_refl)). cbn.
      rewrite (proj2 (IH (map g l)) (conj Pl eq_refl)). reflexivity.
Qed.

Lemma covered_children_prod lens cs : covered lens (Prod cs) -> Forall (covered lens) cs.
Proof.
  unfold covered. cbn [collect_ids]. intros H. apply Forall_forall. intros c Hc s Hs.
  apply H. apply in_flat_map. exists c. split; assumption.
Qed.

Lemma covered_children_assoc lens cs : covered lens (Assoc cs) -> Forall (covered lens) cs.
Proof.
  unfold covered. cbn [collect_ids]. intros H. apply Forall_forall. intros c Hc s Hs.
  apply H. apply in_flat_map. exists c. split; assumption.
Qed.

Lemma fold_mul_sym l : fold_left N.mul l 1%N = fold_right N.mul 1%N l.
Proof.
  apply fold_symmetric.
  - intros x y z. apply N.mul_assoc.
  - intros y. apply N.mul_comm.
Qed.

Lemma all_equal_iff x l : forallb (N.eqb x) l = true <-> Forall (fun y => y = x) l.
Proof.
  rewrite forallb_forall, Forall_forall. split; intros H y Hy.
  - symmetry. apply N.eqb_eq. apply H. exact Hy.
  - apply N.eqb_eq. symmetry. apply H. exact Hy.
Qed.

Lemma Forall_map_eq {A} (g : A -> N) x l :
  Forall (fun y => y = x) (map g l) <-> Forall (fun d => g d = x) l.
Proof. rewrite Forall_map. reflexivity. Qed.

Theorem dims_ok_iff : forall lens t,
  covered lens t ->
  forall n, dims lens t = Ok n <-> assoc_balanced lens t /\ n = tree_len lens t.
Proof.
  intros lens. induction t as [s|cs IH|cs IH] using ctree_ind'; intros Hcov n.
  - cbn. destruct (lens s) as [k|] eqn:Hl.
    + split; [intros H; injection H as H; subst; split; [constructor|reflexivity]|intros [_ H]; subst; reflexivity].
    + exfalso. apply (Hcov s); [left; reflexivity|exact Hl].
  - pose proof (covered_children_prod _ _ Hcov) as Hc.
    assert (IH' : Forall (fun c => forall n, dims lens c = Ok n <-> assoc_balanced lens c /\ n = tree_len lens c) cs).
    { rewrite Forall_forall in *. intros c Hin. apply IH; [exact Hin|apply Hc; exact Hin]. }
    pose proof (map_o_ok_iff _ _ _ _ IH') as HM.
    cbn [dims tree_len]. split.
    + intros H. destruct (map_o (dims lens) cs) as [ls|e] eqn:Hm; cbn in H; [|discriminate H].
      injection H as H. destruct (proj1 (HM ls) eq_refl) as [HB El]. subst ls n.
      split; [constructor; exact HB|apply fold_mul_sym].
    + intros [HB Hn]. inversion HB as [|cs0 HF|]; subst cs0.
      rewrite (proj2 (HM _) (conj HF eq_refl)). cbn. rewrite fold_mul_sym. subst n. reflexivity.
  - pose proof (covered_children_assoc _ _ Hcov) as Hc.
    assert (IH' : Forall (fun c => forall n, dims lens c = Ok n <-> assoc_balanced lens c /\ n = tree_len lens c) cs).
    { rewrite Forall_forall in *. intros c Hin. apply IH; [exact Hin|apply Hc; exact Hin]. }
    pose proof (map_o_ok_iff _ _ _ _ IH') as HM.
    cbn [dims]. split.
    + intros H. destruct (map_o (dims lens) cs) as [ls|e] eqn:Hm; cbn in H; [|discriminate H].
      destruct (proj1 (HM ls) eq_refl) as [HB El]. subst ls.
      destruct cs as [|c cs']; cbn in H; [discriminate H|].
      destruct (forallb (N.eqb (tree_len lens c)) (map (tree_len lens) cs')) eqn:Hall; [|discriminate H].
      injection H as H. subst n. split; [|reflexivity].
      apply AB_assoc; [exact HB|]. apply Forall_map_eq. apply all_equal_iff. exact Hall.
    + intros [HB Hn]. inversion HB as [| |c cs' HF Heq]; subst cs.
      rewrite (proj2 (HM _) (conj HF eq_refl)). cbn.
      apply Forall_map_eq in Heq. apply all_equal_iff in Heq. rewrite Heq.
      subst n. reflexivity.
Qed.

Lemma map_o_ok_or {A B} (f : A -> outcome B) (e : exn) l :
  Forall (fun c => (exists n, f c = Ok n) \/ f c = Raise e) l ->
  (exists ls, map_o f l = Ok ls /\ length ls = length l) \/ map_o f l = Raise e.
Proof.
  induction 1 as [|c l Hc _ IH]; cbn.
  - left. exists []. split; reflexivity.
  - destruct Hc as [[n Hn]|Hr]; [rewrite Hn|rewrite Hr; right; reflexivity]. cbn.
    destruct IH as [[ls [Hl Hlen]]|Hr]; [rewrite Hl|rewrite Hr; right; reflexivity]. cbn.
    left. exists (n :: ls). split; [reflexivity|cbn; rewrite Hlen; reflexivity].
Qed.

Lemma dims_ok_or_expression_error : forall lens t,
  covered lens t -> Canonical t ->
  (exists n, dims lens t = Ok n) \/ dims lens t = Raise ExpressionError.
Proof.
  intros lens. induction t as [s|cs IH|cs IH] using ctree_ind'; intros Hcov HC.
  - cbn. destruct (lens s) as [k|] eqn:Hl; [left; exists k; reflexivity|].
    exfalso. apply (Hcov s); [left; reflexivity|exact Hl].
  - pose proof (covered_children_prod _ _ Hcov) as Hc.
    inversion HC as [|cs0 _ Hcan _|]; subst cs0.
    assert (IH' : Forall (fun c => (exists n, dims lens c = Ok n) \/ dims lens c = Raise ExpressionError) cs).
    { rewrite Forall_forall in *. intros c Hin. apply IH; [exact Hin|apply Hc; exact Hin|apply Hcan; exact Hin]. }
    cbn [dims]. destruct (map_o_ok_or _ _ _ IH') as [[ls [Hl _]]|Hr]; [rewrite Hl|rewrite Hr; right; reflexivity].
    cbn. left. eexists. reflexivity.
  - pose proof (covered_children_assoc _ _ Hcov) as Hc.
    inversion HC as [| |cs0 Hlen Hcan]; subst cs0.
    assert (IH' : Forall (fun c => (exists n, dims lens c = Ok n) \/ dims lens c = Raise ExpressionError) cs).
    { rewrite Forall_forall in *. intros c Hin. apply IH; [exact Hin|apply Hc; exact Hin|apply Hcan; exact Hin]. }
    cbn [dims]. destruct (map_o_ok_or _ _ _ IH') as [[ls [Hl Hlen']]|Hr]; [rewrite Hl|rewrite Hr; right; reflexivity].
    cbn. destruct (all_equal ls); [|right; reflexivity].
    destruct ls as [|x ls']; [cbn in Hlen'; lia|]. left. exists x. reflexivity.
Qed.

Theorem dims_unbalanced : forall lens t,
  covered lens t -> Canonical t -> ~ assoc_balanced lens t ->
  dims lens t = Raise ExpressionError /\ job_dims lens t = Raise DecodeValidationError.
Proof.
  intros lens t Hcov HC HB.
  destruct (dims_ok_or_expression_error lens t Hcov HC) as [[n Hn]|Hr].
  - exfalso. apply HB. apply (dims_ok_iff lens t Hcov n). exact Hn.
  - split; [exact Hr|]. unfold job_dims. rewrite Hr. reflexivity.
Qed.

Theorem job_dims_ok_iff : forall lens t n,
  job_dims lens t = Ok n <-> dims lens t = Ok n.
Proof.
  intros lens t n. unfold job_dims. destruct (dims lens t) as [k|e]; [tauto|].
  split; intros H; discriminate H.
Qed.

(* assoc_balanced is decidable in the only way that matters here: by running [dims] *)
Corollary dims_decides : forall lens t,
  covered lens t -> Canonical t ->
  (assoc_balanced lens t /\ job_dims lens t = Ok (tree_len lens t)) \/
  (~ assoc_balanced lens t /\ job_dims lens t = Raise DecodeValidationError).
Proof.
  intros lens t Hcov HC.
  destruct (dims_ok_or_expression_error lens t Hcov HC) as [[n Hn]|Hr].
  - left. pose proof (proj1 (dims_ok_iff lens t Hcov n) Hn) as [HB E]. subst n.
    split; [exact HB|]. apply job_dims_ok_iff. exact Hn.
  - right. split.
    + intros HB. pose proof (proj2 (dims_ok_iff lens t Hcov _) (conj HB eq_refl)) as H.
      rewrite Hr in H. discriminate H.
    + unfold job_dims. rewrite Hr. reflexivity.
Qed.

(* ------------------------------------------------------------------ *)
(* the pinned (pre-5fdbd84) accounting violates the property            *)
(* ------------------------------------------------------------------ *)
Definition w_params : list str := [[65%N]; [66%N]].                    (* A, B *)
Definition w_comb : str := [65; 32; 42; 32; 67]%N.                     (* "A * C" *)

Lemma pinned_accounting_refuted :
  exists params s,
    NoDup params /\
    template_check true ascii_class params s = true /\
    ~ (length s <= max_len /\ charset s /\
       exists ts t, lex_for ascii_class comb_kinds s = Ok ts /\ Expr ts t /\ each_once params t).
Proof.
  exists w_params, w_comb. split; [|split].
  - repeat constructor; cbn; intuition discriminate.
  - vm_compute. reflexivity.
  - intros (_ & _ & ts & t & Hlex & HE & HP).
    vm_compute in Hlex. injection Hlex as Hlex. subst ts.
    apply parse_iff_Expr in HE. vm_compute in HE. injection HE as HE. subst t.
    unfold each_once in HP. cbn in HP.
    assert (Hin : In [67%N] w_params) by (apply (Permutation_in _ HP); right; left; reflexivity).
    cbn in Hin. intuition discriminate.
Qed.

(* ... and the repaired accounting rejects that input *)
Lemma fixed_accounting_rejects_witness :
  template_check false ascii_class w_params w_comb = false.
Proof. vm_compute. reflexivity. Qed.
