(* Charsets.v — the fixed-charset regexes of the model as boolean predicates on code-point lists.
   The translator maps each live compiled pattern to one of these by behavioural fingerprint
   (tools/regen_schema.py carries Python mirrors of these predicates); the C01/C02 check compares
   them with the implementation on boundary characters on every run.  Definitions only. *)
From Coq Require Import List NArith ZArith Bool.
Import ListNotations.
Require Import OJD.Base OJD.Schema.
Local Open Scope N_scope.

(* Unicode category Cc: C0, DEL, C1 *)
Definition is_cc (c : N) : bool := (c <=? 31) || ((127 <=? c) && (c <=? 159)).

Definition is_upper (c : N) : bool := (65 <=? c) && (c <=? 90).
Definition is_lower (c : N) : bool := (97 <=? c) && (c <=? 122).
Definition is_digit09 (c : N) : bool := (48 <=? c) && (c <=? 57).
Definition ident_start (c : N) : bool := is_upper c || is_lower c || (c =? 95).
Definition ident_char (c : N) : bool := ident_start c || is_digit09 c.

Definition nonempty (s : str) : bool := match s with [] => false | _ => true end.

(* characters not allowed in a file-dialog extension: Cc, backslash, slash, star, question mark,
   square brackets, hash, percent, ampersand, braces, angle brackets, dollar, bang, both quotes,
   colon, at, backquote, bar, equals *)
Definition ff_bad (c : N) : bool :=
  is_cc c || existsb (N.eqb c) [92; 47; 42; 63; 91; 93; 35; 37; 38; 123; 125; 60; 62; 36; 33; 39; 34; 58; 64; 96; 124; 61].

Definition star : N := 42.
Definition dot : N := 46.

Definition filefilter_ok (s : str) : bool :=
  match s with
  | [a] => a =? star
  | a :: b :: ext =>
    (a =? star) && (b =? dot) &&
    (match ext with
     | [] => false
     | [c] => (c =? star) || negb (ff_bad c)
     | _ => forallb (fun c => negb (ff_bad c)) ext
     end)
  | [] => false
  end.

Definition comb_char_ok (c : N) : bool :=
  is_upper c || is_lower c || is_digit09 c || (c =? 95) || (c =? 42) || (c =? 40) || (c =? 41) || (c =? 44) || (c =? 32).

Definition cs_ok (cs : charset) (s : str) : bool :=
  match cs with
  | CS_any => true
  | CS_identifier => match s with c :: r => ident_start c && forallb ident_char r | [] => false end
  | CS_standard => nonempty s && forallb (fun c => negb (is_cc c)) s
  | CS_nocc_star => forallb (fun c => negb (is_cc c)) s
  | CS_description => nonempty s && forallb (fun c => negb (is_cc c) || (c =? 13) || (c =? 10) || (c =? 9)) s
  | CS_filefilter => filefilter_ok s
  | CS_combination => nonempty s && forallb comb_char_ok s
  end.

Definition len_ok (minl maxl : option N) (s : str) : bool :=
  let n := N.of_nat (length s) in
  (match minl with Some m => m <=? n | None => true end)
  && (match maxl with Some m => n <=? m | None => true end).

(* str.lower() restricted to what can matter for capability names: ASCII, plus the one
   non-ASCII character whose lower case is an ASCII letter (KELVIN SIGN -> k) *)
Definition lower_c (c : N) : N := if is_upper c then c + 32 else if c =? 8490 then 107 else c.
Definition lower_s (s : str) : str := map lower_c s.
(* str.upper() on ASCII (CHECK_BOX values); non-ASCII left alone *)
Definition upper_c (c : N) : N := if is_lower c then c - 32 else c.
Definition upper_s (s : str) : str := map upper_c s.

Definition len_ok_n (minl maxl : option N) (len : nat) : bool :=
  let n := N.of_nat len in
  (match minl with Some m => m <=? n | None => true end)
  && (match maxl with Some m => n <=? m | None => true end).
