(* DepGraph.v — executable model of src/openjd/model/_step_dependency_graph.py (C15).
   Definitions only.

   A Job, as far as StepDependencyGraph looks at it, is the list of its steps in template
   order, each a step name and the [dependsOn] names of its [dependencies] list in declared
   order ([dependencies = None] and an empty list behave alike: the code tests truthiness).
   Step names are numbers here (the harness names its steps "s<k>"); nothing stops a
   hand-assembled Job from repeating a step name, repeating a dependency, depending on
   itself or on a name that is no step, so all of that is expressible. *)
From Coq Require Import List NArith Bool Arith.
Require Import OJD.Base.
Import ListNotations.

Definition name := N.
Definition job := list (name * list name).

(* an edge records (origin, dependent): [dependent] depends on [origin] *)
Definition edge := (name * name)%type.

(* StepDependencyGraphNode, observed through step.name and the two edge lists *)
Record node := mk_node { nname : name; nin : list edge; nout : list edge }.

(* self._nodes : dict[str, node] in insertion order *)
Definition graph := list node.

Fixpoint mem (x : name) (l : list name) : bool :=
  match l with [] => false | y :: t => N.eqb x y || mem x t end.

(* self._nodes[k] = v : an existing key keeps its position, a new key goes last *)
Fixpoint dict_set (g : graph) (nd : node) : graph :=
  match g with
  | [] => [nd]
  | x :: t => if N.eqb (nname x) (nname nd) then nd :: t else x :: dict_set t nd
  end.

(* self._nodes[k] *)
Fixpoint get_node (g : graph) (n : name) : outcome node :=
  match g with
  | [] => Raise KeyError
  | x :: t => if N.eqb (nname x) n then Ok x else get_node t n
  end.

(* Step 1 of __init__ : one node per step *)
Definition init_nodes (j : job) : graph :=
  fold_left (fun g s => dict_set g (mk_node (fst s) [] [])) j [].

(* node.in_edges.append(e) / node.out_edges.append(e) on the node stored under [n] *)
Definition append_in (g : graph) (n : name) (e : edge) : graph :=
  map (fun x => if N.eqb (nname x) n then mk_node (nname x) (nin x ++ [e]) (nout x) else x) g.
Definition append_out (g : graph) (n : name) (e : edge) : graph :=
  map (fun x => if N.eqb (nname x) n then mk_node (nname x) (nin x) (nout x ++ [e]) else x) g.

(* body of the inner loop:  origin = self._nodes[dep.dependsOn]  (KeyError when no such step) *)
Definition add_edge (g : graph) (dependent dep : name) : outcome graph :=
  do _ <- get_node g dep;
  Ok (append_out (append_in g dependent (dep, dependent)) dep (dep, dependent)).

Fixpoint add_deps (g : graph) (dependent : name) (deps : list name) : outcome graph :=
  match deps with
  | [] => Ok g
  | d :: t => do g' <- add_edge g dependent d; add_deps g' dependent t
  end.

(* Step 2 of __init__ *)
Fixpoint add_steps (g : graph) (steps : job) : outcome graph :=
  match steps with
  | [] => Ok g
  | (n, ds) :: t =>
    match ds with
    | [] => add_steps g t                              (* if step.dependencies: *)
    | _ :: _ => do _ <- get_node g n;                  (* step_node = self._nodes[step.name] *)
                do g' <- add_deps g n ds; add_steps g' t
    end
  end.

(* StepDependencyGraph(job=j) *)
Definition build (j : job) : outcome graph := add_steps (init_nodes j) j.

(* step_node(stepname=n).in_edges / .out_edges *)
Definition in_edges (g : graph) (n : name) : outcome (list edge) := do x <- get_node g n; Ok (nin x).
Definition out_edges (g : graph) (n : name) : outcome (list edge) := do x <- get_node g n; Ok (nout x).

(* max(...) over a generator: ValueError on an empty one *)
Definition py_max (l : list nat) : outcome nat :=
  match l with [] => Raise ValueError | x :: t => Ok (fold_left Nat.max t x) end.
Definition max_indegree (g : graph) : outcome nat := py_max (map (fun x => length (nin x)) g).
Definition max_outdegree (g : graph) : outcome nat := py_max (map (fun x => length (nout x)) g).

(* ---------------------------------------------------------------- topo_sorted *)

(* name_to_index[name] *)
Fixpoint index_of (n : name) (l : list name) : option nat :=
  match l with
  | [] => None
  | x :: t => if N.eqb x n then Some 0 else option_map S (index_of n t)
  end.

(* sorted(l, key=..., reverse=True): stable, descending.  Insertion from the right: the new
   element is older than everything already inserted, so it goes before the first element
   whose key is not greater than its own. *)
Fixpoint insert_desc (kx : nat * name) (l : list (nat * name)) : list (nat * name) :=
  match l with
  | [] => [kx]
  | ky :: t => if Nat.ltb (fst kx) (fst ky) then ky :: insert_desc kx t else kx :: l
  end.
Definition sorted_desc (l : list (nat * name)) : list (nat * name) := fold_right insert_desc [] l.

(* the key function is evaluated on every element first: KeyError if a name has no index *)
Definition with_keys (names l : list name) : outcome (list (nat * name)) :=
  mapM (fun d => match index_of d names with Some i => Ok (i, d) | None => Raise KeyError end) l.

Definition sort_by_index_desc (names l : list name) : outcome (list name) :=
  do kl <- with_keys names l; Ok (map snd (sorted_desc kl)).

(* the [for dep_name in dep_names] loop; the stack's top is the head of the list *)
Fixpoint push_deps (g : graph) (started completed l stk : list name) : outcome (list name) :=
  match l with
  | [] => Ok stk
  | d :: t =>
    if mem d started && negb (mem d completed) then Raise ValueError
    else do _ <- get_node g d;                          (* self._nodes[dep_name] *)
         push_deps g started completed t (d :: stk)
  end.

Record tstate := mk_tstate {
  pending : list name;      (* what the outer [for node in self._nodes.values()] has not reached *)
  stack : list name;        (* node_stack, top first; nodes are identified by their dict key *)
  started : list name;      (* started_names *)
  completed : list name;    (* completed_names *)
  result : list name        (* result, in append order *)
}.

(* one iteration of the while loop, or — on an empty stack — of the for loop *)
Definition step (g : graph) (s : tstate) : outcome (tstate + list name) :=
  match stack s with
  | [] =>
    match pending s with
    | [] => Ok (inr (result s))
    | n :: p => Ok (inl (mk_tstate p [n] (started s) (completed s) (result s)))
    end
  | top :: rest =>
    if mem top (completed s) then
      Ok (inl (mk_tstate (pending s) rest (started s) (completed s) (result s)))
    else if mem top (started s) then
      Ok (inl (mk_tstate (pending s) (stack s) (started s) (top :: completed s) (result s ++ [top])))
    else
      let started' := top :: started s in
      do es <- in_edges g top;                     (* top_node.in_edges: the stack holds dict keys here, node objects in the code *)
      let dep_names := filter (fun d => negb (mem d (completed s))) (map fst es) in
      do sorted <- sort_by_index_desc (map nname g) dep_names;
      do stk <- push_deps g started' (completed s) sorted (stack s);
      Ok (inl (mk_tstate (pending s) stk started' (completed s) (result s)))
  end.

Fixpoint run (g : graph) (fuel : nat) (s : tstate) : outcome (list name) :=
  match fuel with
  | 0 => Raise RuntimeError
  | S f =>
    match step g s with
    | Raise e => Raise e
    | Ok (inr r) => Ok r
    | Ok (inl s') => run g f s'
    end
  end.

Definition total_in_edges (g : graph) : nat := list_sum (map (fun x => length (nin x)) g).
Definition fuel_bound (g : graph) : nat := 4 * length g + total_in_edges g + 1.
Definition init_state (g : graph) : tstate := mk_tstate (map nname g) [] [] [] [].

(* topo_sorted(), as the list of step names *)
Definition topo (g : graph) : outcome (list name) := run g (fuel_bound g) (init_state g).

(* StepDependencyGraph(job=j).topo_sorted() *)
Definition topo_job (j : job) : outcome (list name) := do g <- build j; topo g.

(* ---------------------------------------------------------------- template-side checks
   (what JobTemplate/StepTemplate validation rejects; used by the harness for decoded
   templates, where names are unique so the cycle test is the model's own [topo]) *)
Fixpoint has_dup (l : list name) : bool :=
  match l with [] => false | x :: t => mem x t || has_dup t end.
Definition dup_step_names (j : job) : bool := has_dup (map fst j).
Definition dup_deps (j : job) : bool := existsb (fun s => has_dup (snd s)) j.
Definition self_dep (j : job) : bool := existsb (fun s => mem (fst s) (snd s)) j.
Definition unknown_dep (j : job) : bool :=
  existsb (fun s => existsb (fun d => negb (mem d (map fst j))) (snd s)) j.
Definition has_cycle (j : job) : bool :=
  match topo_job j with Raise ValueError => true | _ => false end.
