"""C12 — merged parameter definitions accept exactly what every source accepts.

Implementation: 0-4 environment templates (decode_environment_template) + a job template
(decode_job_template), all defining the same job parameter P;
  preprocess_job_parameters(job_template=jt, job_parameter_values={P: v} | {},
                            job_template_dir=/t, current_working_dir=/c, environment_templates=envs)
for probe values around every bound.  Observables, per case:
  (a) per probe: ("ok", result) / ("raise", class)          -- compared with the extracted model
      (`preprocess_merged` of coq/theories/Merge.v on the DECODED definitions);
  (b) the same verdicts compared with the conjunction of the INDIVIDUAL definitions, each run
      through a single-template preprocess (soundness always; completeness when the merge is
      not refused) -- a property-level oracle that does not use the model;
  (c) refusal: merge_job_parameter_definitions raises CompatibilityError exactly when the model
      refuses, preprocess then raises ValueError and create_job DecodeValidationError.
"""
import itertools
import random
import sys
from pathlib import Path

sys.path.insert(0, str(Path(__file__).resolve().parent))
import core  # noqa: E402
import jobparams_common as jc  # noqa: E402

from openjd.model import (  # noqa: E402
    CompatibilityError,
    DecodeValidationError,
    create_job,
    preprocess_job_parameters,
)
from openjd.model._merge_job_parameter import merge_job_parameter_definitions  # noqa: E402

NAME = "P"


def mkdef(ty, lo=None, hi=None, allowed=None, default=None, extra=None):
    d = {"name": NAME, "type": ty}
    numeric = ty in ("INT", "FLOAT")
    if lo is not None:
        d["minValue" if numeric else "minLength"] = lo
    if hi is not None:
        d["maxValue" if numeric else "maxLength"] = hi
    if allowed is not None:
        d["allowedValues"] = allowed
    if default is not None:
        d["default"] = default
    if extra:
        d.update(extra)
    return d


# pools (bounds of either sign and zero; boundary lengths)
INT_B = [None, -2, 0, 3]
INT_A = [None, [0], [-2, 3], [1, 0, 3], [2], [3, 4]]
INT_D = [None, 0, 3]
FLT_B = [None, -2, 0, 3, "0.0", "-2.5", "3e0", 0.5]
FLT_A = [None, [0], ["-2.5", 3], ["1.50", "3.0", "0.0"], ["0.5"], [3, "4e0"]]
FLT_D = [None, 0, "3.0", "0.50"]
LEN_B = [None, 1, 3]
STR_A = [None, ["ab"], ["a", "abc"], ["", "abcd", "ab"], ["abc", "ab"]]
STR_D = [None, "", "a", "ab", "abc"]
PTH_A = [None, ["/ab"], ["/a", "/abc", ""], ["/abcd", "/ab"]]
PTH_D = [None, "", "ab"]          # the relative default "ab" is stored as /t/ab
OBJ = [None, "FILE", "DIRECTORY"]
FLOW = [None, "NONE", "IN", "OUT", "INOUT"]


def pool(ty, small=False):
    out = []
    if ty == "INT":
        for lo, hi, al, df in itertools.product(INT_B, INT_B, INT_A[:4] if small else INT_A, INT_D[:2] if small else INT_D):
            out.append(mkdef(ty, lo, hi, al, df))
    elif ty == "FLOAT":
        for lo, hi, al, df in itertools.product(FLT_B[:5] if small else FLT_B, FLT_B[:5] if small else FLT_B, FLT_A[:4] if small else FLT_A, FLT_D[:2] if small else FLT_D):
            out.append(mkdef(ty, lo, hi, al, df))
    elif ty == "STRING":
        for lo, hi, al, df in itertools.product(LEN_B, LEN_B, STR_A[:4] if small else STR_A, STR_D[:3] if small else STR_D):
            out.append(mkdef(ty, lo, hi, al, df))
    else:
        for lo, hi, al, df, ot, fl in itertools.product(LEN_B, LEN_B, PTH_A[:3] if small else PTH_A, PTH_D[:2] if small else PTH_D, OBJ, FLOW[:3] if small else FLOW):
            ex = {}
            if ot:
                ex["objectType"] = ot
            if fl:
                ex["dataFlow"] = fl
            out.append(mkdef(ty, lo, hi, al, df, ex))
    return [d for d in out if jc.decoded("job", [d]) is not None]


_pools: dict = {}


def get_pool(ty, small=False):
    k = (ty, small)
    if k not in _pools:
        _pools[k] = pool(ty, small)
    return _pools[k]


def fmt_num(x):
    return str(x)


def probes_for(defs):
    """probe values on / inside / outside every bound and every allowed value of every definition"""
    out = []
    tys = {d["type"] for d in defs}
    if tys & {"INT", "FLOAT"}:
        from decimal import Decimal
        pts = set()
        for d in defs:
            if d["type"] not in ("INT", "FLOAT"):
                continue
            for k in ("minValue", "maxValue", "default"):
                if k in d:
                    pts.add(Decimal(str(d[k])))
            for a in d.get("allowedValues", []):
                pts.add(Decimal(str(a)))
        for p in sorted(pts):
            out += [fmt_num(p), fmt_num(p - 1), fmt_num(p + 1)]
            if "FLOAT" in tys:
                out += [fmt_num(p - Decimal("0.001")), fmt_num(p + Decimal("0.001")), fmt_num(p) + ".0" if "." not in fmt_num(p) and "E" not in fmt_num(p) else fmt_num(p) + "0"]
        out += ["0", "1", "-5", "7", "x", "", "NaN", " 3 ", "1_0", "Infinity"]
        if "FLOAT" in tys:
            out += ["0.5", "-0.0", "3e0"]
    if tys & {"STRING", "PATH"}:
        path = "PATH" in tys
        lens = {0, 1, 2, 3, 4, 5}
        for n in sorted(lens):
            out.append(("/" + "x" * (n - 1)) if path and n > 0 else ("x" * n if not path else ""))
        for d in defs:
            if d["type"] not in ("STRING", "PATH"):
                continue
            for a in d.get("allowedValues", []):
                out.append(a)
            if "default" in d and not path:
                out.append(d["default"])
        out += ["", "ab", "abc"] if not path else ["", "/ab", "/abc", "ab"]
    seen, res = set(), []
    for v in out:
        if v not in seen:
            seen.add(v)
            res.append(v)
    return res


def case(envs, job, probes=None):
    defs = [d for e in envs for d in ([e] if e else [])] + ([job] if job else [])
    return {"kind": "merge", "envs": envs, "job": job, "probes": probes if probes is not None else probes_for(defs)}


def rand_case(rng, thorough=False):
    ty = rng.choice(["INT", "FLOAT", "STRING", "PATH", "INT", "FLOAT", "STRING"])
    P = get_pool(ty)
    n_env = rng.randint(0, 4)
    envs = []
    for _ in range(n_env):
        r = rng.random()
        if r < 0.06:
            envs.append(None)                        # an environment template without the parameter
        elif r < 0.10:
            envs.append(rng.choice(get_pool(rng.choice(["INT", "FLOAT", "STRING", "PATH"]))))   # maybe another type
        else:
            envs.append(rng.choice(P))
    job = rng.choice(P)
    if rng.random() < 0.03 and any(envs):
        job = None
    if rng.random() < 0.3:
        # description and user-interface hints: what a definition says about its presentation takes no part in the merge
        envs = [decorate(rng, e) for e in envs]
        job = decorate(rng, job)
    # bias: make the definitions relate (shared allowed lists / nested bounds) half of the time
    c = case(envs, job)
    if len(envs) >= 3 and rng.random() < 0.35:
        # the SAME decoded environment template object at two positions of the list (a caller that applies one queue
        # environment twice, around another): every position counts, the last default given is the last one
        i, j = sorted(rng.sample(range(len(envs)), 2))
        if envs[i] is not None:
            c["envs"] = list(envs)
            c["envs"][j] = envs[i]
            c["same"] = [[i, j]]
            c["probes"] = probes_for([d for d in c["envs"] if d] + ([job] if job else []))
    return c


def decorate(rng, d):
    if d is None or rng.random() < 0.4:
        return d
    q = dict(d)
    if rng.random() < 0.3:
        q["description"] = "about " + q["type"]
    ui = {"INT": ["SPIN_BOX", "DROPDOWN_LIST", "HIDDEN"], "FLOAT": ["SPIN_BOX", "DROPDOWN_LIST", "HIDDEN"], "STRING": ["LINE_EDIT", "MULTILINE_EDIT", "DROPDOWN_LIST", "CHECK_BOX", "HIDDEN"],
          "PATH": ["CHOOSE_INPUT_FILE", "CHOOSE_OUTPUT_FILE", "CHOOSE_DIRECTORY", "DROPDOWN_LIST", "HIDDEN"]}[q["type"]]
    u = {"control": rng.choice(ui)}
    if rng.random() < 0.3:
        u["label"] = "L"
    if u["control"] in ("CHOOSE_INPUT_FILE", "CHOOSE_OUTPUT_FILE") and rng.random() < 0.7:
        if rng.random() < 0.7:
            u["fileFilters"] = [{"label": "Text", "patterns": ["*.txt", "*.md"]}][: rng.choice([1, 1, 0])] or [{"label": "Any", "patterns": ["*"]}]
        if rng.random() < 0.5:
            u["fileFilterDefault"] = {"label": "All", "patterns": ["*.*"]}
    if u["control"] == "SPIN_BOX" and rng.random() < 0.5:
        u["singleStepDelta"] = 1
    q["userInterface"] = u
    return q if jc.decoded("job", [q]) is not None else d


def k(envs, job):
    return case(envs, job)


CORPUS = [
    # the historical defect (fixed by 054f475): [1] & [2] & [3] merged to [3]
    k([mkdef("INT", allowed=[1]), mkdef("INT", allowed=[2])], mkdef("INT", allowed=[3])),
    k([mkdef("STRING", allowed=["a"]), mkdef("STRING", allowed=["b"])], mkdef("STRING", allowed=["c"])),
    k([mkdef("FLOAT", allowed=[1]), mkdef("FLOAT", allowed=["2.0"]), mkdef("FLOAT", allowed=[3])], mkdef("FLOAT", allowed=["3.0"])),
    # merged minValue > maxValue (f775f4a: was a DecodeValidationError out of preprocess)
    k([mkdef("INT", lo=3)], mkdef("INT", hi=0)),
    k([mkdef("FLOAT", lo="0.5")], mkdef("FLOAT", hi="0.49")),
    k([mkdef("STRING", lo=3)], mkdef("STRING", hi=1)),
    # satisfiable merges that re-validation refuses (allowed values partly outside the merged bounds)
    k([mkdef("INT", allowed=[0, 3])], mkdef("INT", lo=1)),
    k([mkdef("STRING", allowed=["a", "abc"])], mkdef("STRING", lo=2)),
    k([mkdef("FLOAT", allowed=["0.5", 3])], mkdef("FLOAT", hi=1)),
    # defaults: the last one wins; an earlier default outside the merged constraints is harmless
    k([mkdef("INT", default=5)], mkdef("INT", hi=3, default=1)),
    k([mkdef("INT", hi=3, default=1)], mkdef("INT", default=5)),
    k([mkdef("INT", default=5), mkdef("INT", hi=3)], mkdef("INT")),
    k([mkdef("STRING", default="abc")], mkdef("STRING", allowed=["a"])),
    # numeric equality of allowed values across spellings
    k([mkdef("FLOAT", allowed=["1.0", 2])], mkdef("FLOAT", allowed=[1, "3e0"])),
    # types / objectType / dataFlow
    k([mkdef("INT")], mkdef("FLOAT")), k([mkdef("STRING")], mkdef("PATH")),
    k([mkdef("PATH", extra={"objectType": "FILE"})], mkdef("PATH")),
    k([mkdef("PATH", extra={"objectType": "DIRECTORY"})], mkdef("PATH")),
    k([mkdef("PATH", extra={"objectType": "FILE"})], mkdef("PATH", extra={"objectType": "DIRECTORY"})),
    k([mkdef("PATH", extra={"dataFlow": "IN"})], mkdef("PATH")),
    k([mkdef("PATH", extra={"dataFlow": "IN"})], mkdef("PATH", extra={"dataFlow": "OUT"})),
    k([mkdef("PATH", extra={"dataFlow": "NONE"})], mkdef("PATH", extra={"dataFlow": "IN"})),
    # single sources, no environment
    k([], mkdef("INT", lo=0, hi=3)), k([None], mkdef("STRING", lo=1)), k([mkdef("INT", lo=0)], None),
]


def verdict(jt, envs, vals):
    try:
        r = preprocess_job_parameters(job_template=jt, job_parameter_values=vals, job_template_dir=Path("/t"),
                                      current_working_dir=Path("/c"), environment_templates=envs)
    except BaseException as e:  # noqa: BLE001
        return ["raise", type(e).__name__]
    return ["ok", sorted([n, pv.type.value, pv.value] for n, pv in r.items())]


class C12(core.PropBase):
    id = "C12"
    component = "jobparams"
    extract_file = "ExtractJobParams.v"
    chunk_size = 60
    theorem_for_mismatch = "C12_sound / C12_complete / C12_default / C12_refuse (model = implementation correspondence; conjunction of the individual definitions)"
    assumptions = [
        "bounds, lists and defaults of a definition enter the model as DECODED by decode_job_template / decode_environment_template, its type / objectType / dataFlow as the DOCUMENT has them (a decoder that rewrites them is seen); the default enters as the text str(default) and every default text is checked to parse back (wf_default) on every case",
        "one shared parameter name; merge order = environment templates in the order given, job template last",
        "probe strings of INT/FLOAT parameters are in the numeral domain of Numerals.v; Numerals.v is compared with Python's int()/Decimal() on every run (probe spellings + random stream; a disagreement is a harness error)",
        "PATH probes are '', absolute or plain relative names (joining is C11's)",
    ]

    def corpus_cases(self):
        return list(CORPUS) + [{"kind": "num", "s": v} for v in jc.NUMERAL_CORPUS]

    def cases(self, tier, seed):
        rng = random.Random(seed * 1000003 + 12)
        thorough = tier == "thorough"
        # 1. all ordered pairs (one environment template + job template) over the small pools
        for ty in ("INT", "FLOAT", "STRING", "PATH"):
            P = get_pool(ty, small=not thorough)
            pairs = list(itertools.product(P, P))
            quota = 40000 if thorough else 3500
            if len(pairs) > quota:
                pairs = rng.sample(pairs, quota)
            for a, b in pairs:
                yield case([a], b)
        # 1b. PATH definitions that differ in objectType / dataFlow AND in what they say about presentation (control, file
        #     filters, description): all ordered pairs, and triples with a plain third definition in every position
        uis = [None, {"control": "CHOOSE_INPUT_FILE"}, {"control": "CHOOSE_INPUT_FILE", "fileFilters": [{"label": "Text", "patterns": ["*.txt"]}]},
               {"control": "CHOOSE_OUTPUT_FILE", "fileFilterDefault": {"label": "All", "patterns": ["*.*"]}}, {"control": "CHOOSE_DIRECTORY"}, {"control": "HIDDEN"}, {"control": "DROPDOWN_LIST"}]
        pdefs = []
        for ot in OBJ:
            for fl in (None, "IN"):
                for u in uis:
                    ex = {}
                    if ot:
                        ex["objectType"] = ot
                    if fl:
                        ex["dataFlow"] = fl
                    if u:
                        ex["userInterface"] = u
                        if u["control"] == "DROPDOWN_LIST":
                            continue
                    d = mkdef("PATH", extra=ex)
                    if jc.decoded("job", [d]) is not None:
                        pdefs.append(d)
        for a in pdefs:
            for b in pdefs:
                yield case([a], b)
        for _ in range(3000 if thorough else 300):
            a, b = rng.choice(pdefs), rng.choice(pdefs)
            c = mkdef("PATH", extra={k: v for k, v in a.items() if k in ("objectType", "dataFlow")})
            trio = [a, b, c]
            rng.shuffle(trio)
            yield case(trio[:2], trio[2])
        # 2. random 0-4 environment templates
        for _ in range(120000 if thorough else 9000):
            yield rand_case(rng, thorough)
        # 4. (below) numeral model vs Python on the probe spellings and a random stream
        # 3. permutations of one random list (order independence, default aside)
        for _ in range(20000 if thorough else 1200):
            c = rand_case(rng)
            defs = [e for e in c["envs"] if e] + ([c["job"]] if c["job"] else [])
            if len(defs) >= 2:
                rng.shuffle(defs)
                yield case(defs[:-1], defs[-1], c["probes"])
        seen = set()
        for ty in ("INT", "FLOAT"):
            for d in get_pool(ty, small=True)[:40]:
                for v in probes_for([d]):
                    if v not in seen:
                        seen.add(v)
                        yield {"kind": "num", "s": v}
        for _ in range(60000 if thorough else 6000):
            v = jc.rand_numeral(rng)
            if jc.in_numeral_domain(v):
                yield {"kind": "num", "s": v}

    def rule(self, tier):
        return ("corpus (historical failing inputs first); ordered pairs (environment template, job template) over per-type pools of "
                "decodable definitions: bounds {-2,0,3} (+ Decimal spellings), lengths {1,3}, allowedValues lists, defaults, objectType, dataFlow ("
                + ("all pairs, at most 40000 sampled per type" if tier == "thorough" else "all pairs, at most 3500 sampled per type") + "); random lists of 0-4 environment templates + job template "
                "(6% templates without the parameter, 4% of another type); shuffled re-runs; each case probes every value on/inside/outside every bound, "
                "every allowed value and default of every participating definition, non-numerals, and the no-value call; numeral stream: Numerals.v vs Python int()/Decimal(). distinct = by case")

    def samples(self, tier, seed):
        rng = random.Random(seed)
        return CORPUS[:4] + [rand_case(rng) for _ in range(6)]

    # ---- shared
    def _parts(self, case):
        envs = []
        for i, e in enumerate(case["envs"]):
            t = jc.decoded("env", [e] if e else None, name=f"E{i}")
            if t is None:
                return None
            envs.append(t)
        for i, j in case.get("same") or []:
            envs[j] = envs[i]
        jt = jc.decoded("job", [case["job"]] if case["job"] else None)
        if jt is None:
            return None
        pds = [t.parameterDefinitions[0] for t in envs if t.parameterDefinitions] + ([jt.parameterDefinitions[0]] if jt.parameterDefinitions else [])
        return envs, jt, pds

    def _value_sets(self, case):
        return [{}] + [{NAME: v} for v in case["probes"]]

    # ---- implementation
    def impl(self, case):
        if case["kind"] == "num":
            return [jc.py_int(case["s"]), jc.py_dec(case["s"])]
        parts = self._parts(case)
        if parts is None or not parts[2]:
            return ["skip"]
        envs, jt, pds = parts
        try:
            merge_job_parameter_definitions(job_template=jt, environment_templates=envs)
            refused = False
        except CompatibilityError:
            refused = True
        except BaseException as e:  # noqa: BLE001
            refused = "exc:" + type(e).__name__
        verdicts = [verdict(jt, envs, vals) for vals in self._value_sets(case)]
        # (b) conjunction of the individual definitions, each through a single-template preprocess
        raw = [e for e in case["envs"] if e] + ([case["job"]] if case["job"] else [])
        singles = [jc.decoded("job", [d]) for d in raw]
        conj_problems = []
        for vals, vd in zip(self._value_sets(case)[1:], verdicts[1:]):
            each = [verdict(s, None, vals)[0] == "ok" for s in singles]
            if vd[0] == "ok" and not all(each):
                conj_problems.append(["unsound", vals[NAME]])
            if vd[0] != "ok" and all(each) and refused is False:
                conj_problems.append(["incomplete", vals[NAME]])
        # (c) create_job on a refused merge
        cj = None
        if refused is True:
            try:
                create_job(job_template=jt, job_parameter_values={}, environment_templates=envs)
                cj = "ok"
            except BaseException as e:  # noqa: BLE001
                cj = type(e).__name__
        return ["merge", refused, verdicts, conj_problems, cj]

    # ---- model
    def requests(self, case):
        if case["kind"] == "num":
            return [["int", core.cps(case["s"])], ["dec", core.cps(case["s"])]]
        parts = self._parts(case)
        if parts is None or not parts[2]:
            return []
        envs, jt, pds = parts
        raws = [e for e in case["envs"] if e] + ([case["job"]] if case["job"] else [])
        ds = [jc.def_sx(p, r) for p, r in zip(pds, raws)] if len(raws) == len(pds) else [jc.def_sx(p) for p in pds]
        for vals in self._value_sets(case):
            for v in vals.values():
                if any(p.type.value in ("INT", "FLOAT") for p in pds) and not jc.small_exponent(v):
                    raise AssertionError(f"probe outside the numeral domain: {v!r}")
                if any(p.type.value == "PATH" for p in pds):
                    jc.check_path_claim(v, False)
        for p in pds:
            if p.type.value == "PATH" and p.default is not None:
                jc.check_path_claim(str(p.default), True)
        reqs = [["merge", False, ds]] + [["wfdefault", d] for d in ds]
        for vals in self._value_sets(case):
            reqs.append(["prem", True, ds, [[core.cps(a), core.cps(b)] for a, b in vals.items()]])
        return reqs

    def model_obs(self, case, replies):
        if case["kind"] == "num":
            return [jc.model_int(replies[0]), jc.model_dec(replies[1])]
        if not replies:
            return ["skip"]
        parts = self._parts(case)
        n = len(parts[2])
        m = replies[0]
        for r in replies[1:1 + n]:
            if r != "true":
                raise AssertionError("HARNESS: a decoded default text does not parse back (wf_default fails): %r" % (case,))
        if m[0] == "ok":
            refused = False
        elif m == ["raise", "CompatibilityError"]:
            refused = True
        else:
            refused = "exc:" + str(m[1])
        verdicts = []
        for r in replies[1 + n:]:
            if r[0] == "raise":
                verdicts.append(["raise", r[1]])
            else:
                verdicts.append(["ok", sorted([core.uncps(a), t, core.uncps(v)] for a, t, v in r[1])])
        return ["merge", refused, verdicts, [], "DecodeValidationError" if refused is True else None]

    def nontrivial(self, case):
        return case["kind"] == "num" or self._parts(case) is not None

    def run_chunk(self, chunk):
        res = super().run_chunk(chunk)
        bad = [m for m in res.get("mismatches", []) if m["case"].get("kind") == "num"]
        if bad:
            return {"error": "HARNESS: Numerals.v disagrees with Python int()/Decimal() (numeral model wrong, not a property violation): %r" % (bad[0],),
                    "n": 0, "mismatches": [], "stats": {}, "hashes": []}
        return res

    def classify_case(self, case, obs):
        if case["kind"] == "num":
            return ["num"]
        if obs[0] == "skip":
            return ["skip"]
        ks = ["merge", "refused" if obs[1] is True else ("merged" if obs[1] is False else str(obs[1]))]
        ks.append("sources=%d" % (len([e for e in case["envs"] if e]) + (1 if case["job"] else 0)))
        ks.append("envs=%d" % len(case["envs"]))
        tys = sorted({d["type"] for d in [e for e in case["envs"] if e] + ([case["job"]] if case["job"] else [])})
        ks.append("types=" + "+".join(tys))
        n_ok = sum(1 for v in obs[2] if v[0] == "ok")
        ks.append("probes-accepted=%s" % ("0" if n_ok == 0 else "1-3" if n_ok <= 3 else "4+"))
        return ks

    def spec_obs(self, case):
        if case["kind"] == "num":
            return None
        reqs = self.requests(case)
        if not reqs:
            return None
        drv = core.Driver(self.component)
        pinned = [["merge", True, reqs[0][2]]]
        replies, _ = drv.ask(reqs[:1] + pinned)
        return {"model merge (= spec by C12_sound/complete)": replies[0], "model merge with pinned_merge_allowed (finding fixed by 054f475)": replies[1]}

    def shrink_candidates(self, case):
        if case["kind"] == "num":
            return
        envs, job = case["envs"], case["job"]
        for i in range(len(envs)):
            yield case | {"envs": envs[:i] + envs[i + 1:]}
        if len(case["probes"]) > 1:
            for i in range(len(case["probes"])):
                yield case | {"probes": case["probes"][:i] + case["probes"][i + 1:]}
        alld = list(enumerate(envs)) + [("job", job)]
        for idx, d in alld:
            if not d:
                continue
            for key in list(d):
                if key in ("name", "type"):
                    continue
                d2 = {a: b for a, b in d.items() if a != key}
                if idx == "job":
                    yield case | {"job": d2}
                else:
                    yield case | {"envs": envs[:idx] + [d2] + envs[idx + 1:]}


PROP = C12()

if __name__ == "__main__":
    sys.exit(core.main(PROP, sys.argv[1:]))
