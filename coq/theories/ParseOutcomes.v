(* ParseOutcomes.v — lemmas behind props/C04.v: the acceptance model (Parse.v / Accept.v) only ever
   accepts, rejects (ValueError) or declares the input outside its domain (RuntimeError); for ANY
   schema, hooks, fuel, class / kind and json value.  Version dispatch of decode_*; the C03 walker
   reports reference errors only. *)
From Coq Require Import List NArith ZArith Bool String Lia.
Import ListNotations.
Require Import OJD.Base OJD.Lexer OJD.Json OJD.Schema OJD.Generated OJD.Charsets OJD.Numerals OJD.NumPrint
               OJD.FormatStr OJD.FsRefs OJD.CreateJob OJD.Parse OJD.Validators OJD.Accept OJD.AcceptMono
               OJD.ScopeWalk OJD.ScopeSpec OJD.ScopeProofs OJD.Export OJD.GlueLib.
Local Open Scope string_scope.
Local Open Scope list_scope.

(* "rejected, or not judged" *)
Definition vr (e : exn) : Prop := e = ValueError \/ e = RuntimeError.

Lemma vr_reject : vr ValueError. Proof. left. reflexivity. Qed.
Lemma vr_unsupported : vr RuntimeError. Proof. right. reflexivity. Qed.

Lemma mapM_raise : forall (A B : Type) (f : A -> outcome B) l e,
  mapM f l = Raise e -> exists x, In x l /\ f x = Raise e.
Proof.
  induction l as [|a r IH]; intros e H; [discriminate H|].
  cbn [mapM] in H. destruct (f a) as [y|e'] eqn:Ea; cbn [bind] in H.
  - destruct (mapM f r) as [ys|e''] eqn:Er; cbn [bind] in H; [discriminate H|].
    injection H as <-. destruct (IH e'' eq_refl) as [x [Hx Hf]]. exists x. split; [right; exact Hx|exact Hf].
  - injection H as <-. exists a. split; [left; reflexivity|exact Ea].
Qed.

Lemma check_str_outcomes : forall lo hi cs s e, check_str lo hi cs s = Raise e -> vr e.
Proof.
  intros lo hi cs s e H. unfold check_str in H.
  destruct (len_ok lo hi s && cs_ok cs s); [discriminate H|]. injection H as <-. apply vr_reject.
Qed.

Lemma parse_scalar_outcomes : forall classify k v e, parse_scalar classify k v = Raise e -> vr e.
Proof.
  intros classify k v e H.
  assert (R : forall A (x : outcome A), x = reject -> x = Raise e -> vr e).
  { intros A x -> E. injection E as <-. apply vr_reject. }
  assert (U : forall A (x : outcome A), x = unsupported -> x = Raise e -> vr e).
  { intros A x -> E. injection E as <-. apply vr_unsupported. }
  destruct k as [lit|enum|strict lo hi cs|c lo hi cs|strict|strict ge le gt|gt| |c|key mp|alts];
    cbn [parse_scalar] in H.
  - destruct v as [|b|z|dm de|s|l|members]; try (eapply R; [reflexivity|exact H]).
    destruct (str_eqb s (str_of_string lit)); [discriminate H|]. eapply R; [reflexivity|exact H].
  - destruct v as [|b|z|dm de|s|l|members]; try (eapply R; [reflexivity|exact H]).
    destruct (existsb _ enum); [discriminate H|]. eapply R; [reflexivity|exact H].
  - destruct v as [|b|z|dm de|s|l|members]; try (eapply R; [reflexivity|exact H]).
    + destruct strict; [eapply R; [reflexivity|exact H]|]. eapply check_str_outcomes. exact H.
    + destruct strict; [eapply R; [reflexivity|exact H]|]. eapply check_str_outcomes. exact H.
    + destruct strict; [eapply R; [reflexivity|exact H]|]. eapply U; [reflexivity|exact H].
    + eapply check_str_outcomes. exact H.
  - destruct v as [|b|z|dm de|s|l|members]; try (eapply R; [reflexivity|exact H]).
    destruct (len_ok lo hi s && cs_ok cs s && fs_ok classify s); [discriminate H|].
    eapply R; [reflexivity|exact H].
  - destruct v as [|b|z|dm de|s|l|members]; try discriminate H;
      (destruct strict; [eapply R; [reflexivity|exact H]|eapply U; [reflexivity|exact H]]).
  - assert (F : forall z, (if zopt_ok ge le gt z then Ok (MInt z) else reject) = Raise e -> vr e).
    { intros z Hz. destruct (zopt_ok ge le gt z); [discriminate Hz|]. eapply R; [reflexivity|exact Hz]. }
    destruct v as [|b|z|dm de|s|l|members]; try (eapply R; [reflexivity|exact H]).
    + destruct strict; [eapply R; [reflexivity|exact H]|]. eapply F. exact H.
    + eapply F. exact H.
    + destruct strict; [eapply R; [reflexivity|exact H]|].
      destruct (dec_integral dm de); [eapply F; exact H|eapply R; [reflexivity|exact H]].
    + destruct strict; [eapply R; [reflexivity|exact H]|].
      destruct (parse_int s); [eapply F; exact H|eapply R; [reflexivity|exact H]].
  - assert (F : forall m x, match gt with
                            | Some b => if num_ltb (num_of_Z b) (mkNum m x) then Ok (MFloat m x) else reject
                            | None => Ok (MFloat m x)
                            end = Raise e -> vr e).
    { intros m x Hz. destruct gt as [b|]; [|discriminate Hz].
      destruct (num_ltb (num_of_Z b) (mkNum m x)); [discriminate Hz|]. eapply R; [reflexivity|exact Hz]. }
    destruct v as [|b|z|dm de|s|l|members]; try (eapply R; [reflexivity|exact H]); try (eapply F; exact H).
    eapply U; [reflexivity|exact H].
  - destruct v as [|b|z|dm de|s|l|members]; try (eapply R; [reflexivity|exact H]); try discriminate H.
    destruct (parse_dec s) as [[m x|b|]|]; try (eapply R; [reflexivity|exact H]). discriminate H.
  - eapply U; [reflexivity|exact H].
  - eapply U; [reflexivity|exact H].
  - eapply U; [reflexivity|exact H].
Qed.

Section Outcomes.
  Variable SC : schema_t.
  Variable classify : N -> cclass.
  Variable pre : string -> json -> bool.
  Variable post : string -> json -> list (string * mval) -> bool.
  Notation pk := (parse_kind SC classify pre post).
  Notation pc := (parse_cls SC classify pre post).

  Lemma try_alts_outcomes : forall f v alts e, try_alts (pk f) v alts = Raise e -> vr e.
  Proof.
    intros f v alts. induction alts as [|a r IH]; intros e H.
    - rewrite try_alts_nil in H. injection H as <-. apply vr_reject.
    - rewrite try_alts_cons in H. destruct (alt_res (pk f) a v) as [x|e']; [discriminate H|].
      destruct e'; try (apply IH; exact H). injection H as <-. apply vr_unsupported.
  Qed.

  Lemma list_items_outcomes : forall f lo hi k v e,
    (forall k v e, pk f k v = Raise e -> vr e) -> list_items (pk f) lo hi k v = Raise e -> vr e.
  Proof.
    intros f lo hi k v e IH H. unfold list_items in H.
    destruct v as [|b|z|dm de|s|l|members]; try (injection H as <-; apply vr_reject).
    destruct (len_ok_n lo hi (List.length l)); [|injection H as <-; apply vr_reject].
    destruct (mapM (pk f k) l) as [ys|e'] eqn:Em; cbn [bind] in H; [discriminate H|].
    injection H as <-. apply mapM_raise in Em. destruct Em as [x [_ Hx]]. eapply IH. exact Hx.
  Qed.

  Lemma parse_value_outcomes : forall f fl raw e,
    (forall k v e, pk f k v = Raise e -> vr e) -> parse_value (pk f) fl raw = Raise e -> vr e.
  Proof.
    intros f fl raw e IH H. unfold parse_value in H.
    assert (K : match f_shape fl with
                | Single => pk f (f_kind fl) raw
                | ListOf minl maxl => list_items (pk f) minl maxl (f_kind fl) raw
                | DictOf kk =>
                  match raw with
                  | JObj members => do l' <- mapM (dict_entry (pk f) kk (f_kind fl)) members; Ok (MDict l')
                  | _ => reject
                  end
                end = Raise e -> vr e).
    { clear H. intros H. destruct (f_shape fl) as [|lo hi|kk].
      - eapply IH. exact H.
      - eapply list_items_outcomes; eassumption.
      - destruct raw as [|b|z|m x|s|l|ms]; try (injection H as <-; apply vr_reject).
        destruct (mapM (dict_entry (pk f) kk (f_kind fl)) ms) as [ys|e'] eqn:Em; cbn [bind] in H; [discriminate H|].
          injection H as <-. apply mapM_raise in Em. destruct Em as [kv [_ Hx]].
          unfold dict_entry in Hx.
          destruct (pk f kk (JStr (fst kv))) as [y1|e1] eqn:E1; cbn [bind] in Hx.
          * destruct (pk f (f_kind fl) (snd kv)) as [y2|e2] eqn:E2; cbn [bind] in Hx; [discriminate Hx|].
            injection Hx as <-. eapply IH. exact E2.
          * injection Hx as <-. eapply IH. exact E1. }
    destruct raw; try (apply K; exact H).
    destruct (f_required fl); [injection H as <-; apply vr_reject|discriminate H].
  Qed.

  Theorem parse_outcomes : forall fuel,
    (forall k v e, pk fuel k v = Raise e -> vr e) /\ (forall c v e, pc fuel c v = Raise e -> vr e).
  Proof.
    induction fuel as [|f [IHk IHc]].
    - split; intros x v e H; [rewrite parse_kind_O in H|rewrite parse_cls_O in H];
        injection H as <-; apply vr_unsupported.
    - split.
      + intros k v e H. rewrite parse_kind_S in H.
        destruct k as [lit|members|strict lo hi cs|c lo hi cs|strict|strict ge le gt|gt| |c|key mp|alts];
          try (eapply parse_scalar_outcomes; exact H).
        * eapply IHc. exact H.
        * unfold disc_res in H. destruct v as [|b|z|dm de|s|l|members]; try (injection H as <-; apply vr_reject).
          destruct (assoc (str_of_string key) members) as [[| | | |s| |]|]; try (injection H as <-; apply vr_reject).
          destruct (List.find _ mp) as [[k' c']|]; [eapply IHc; exact H|injection H as <-; apply vr_reject].
        * eapply try_alts_outcomes. exact H.
      + intros c v e H. rewrite parse_cls_S in H.
        destruct (lookup_cls SC c) as [c0|]; [|injection H as <-; apply vr_unsupported].
        destruct v as [|b|z|m x|s|l|ms]; try (injection H as <-; apply vr_reject).
        destruct (negb (pre c (JObj ms))); [injection H as <-; apply vr_reject|].
        destruct (extra_bad c0 ms); [injection H as <-; apply vr_reject|].
        destruct (mapM (parse_field (pk f) ms) (c_fields c0)) as [fields|e'] eqn:Em; cbn [bind] in H.
        * destruct (post c (JObj ms) fields); [discriminate H|injection H as <-; apply vr_reject].
        * injection H as <-. apply mapM_raise in Em. destruct Em as [fl [_ Hx]].
          unfold parse_field in Hx.
          destruct (parse_value (pk f) fl (field_raw ms fl)) as [y|e1] eqn:E1; cbn [bind] in Hx; [discriminate Hx|].
          injection Hx as <-. eapply parse_value_outcomes; eassumption.
  Qed.
End Outcomes.

Theorem parse_kind_outcomes : forall SC classify pre post fuel k v e,
  parse_kind SC classify pre post fuel k v = Raise e -> e = ValueError \/ e = RuntimeError.
Proof. intros SC classify pre post fuel. exact (proj1 (parse_outcomes SC classify pre post fuel)). Qed.

Theorem parse_cls_outcomes : forall SC classify pre post fuel c v e,
  parse_cls SC classify pre post fuel c v = Raise e -> e = ValueError \/ e = RuntimeError.
Proof. intros SC classify pre post fuel. exact (proj2 (parse_outcomes SC classify pre post fuel)). Qed.

Theorem decode_job_outcomes : forall classify j e,
  decode_job classify j = Raise e -> e = ValueError \/ e = RuntimeError.
Proof.
  intros classify j e H. unfold decode_job in H.
  destruct j as [|b|z|dm de|s|l|members]; try (injection H as <-; right; reflexivity).
  destruct (version_ok Generated.job_template_versions (JObj members)); [|injection H as <-; left; reflexivity].
  unfold parse_template, parse_root in H. eapply parse_cls_outcomes. exact H.
Qed.

Theorem decode_env_outcomes : forall classify j e,
  decode_env classify j = Raise e -> e = ValueError \/ e = RuntimeError.
Proof.
  intros classify j e H. unfold decode_env in H.
  destruct j as [|b|z|dm de|s|l|members]; try (injection H as <-; right; reflexivity).
  destruct (version_ok Generated.env_template_versions (JObj members)); [|injection H as <-; left; reflexivity].
  unfold parse_template, parse_root in H. eapply parse_cls_outcomes. exact H.
Qed.

(* the job-side re-validation (parse_model on a target class, with the concrete-model pre hooks) *)
Theorem parse_any_outcomes : forall classify root j e,
  parse_any classify root j = Raise e -> e = ValueError \/ e = RuntimeError.
Proof. intros classify root j e H. unfold parse_any in H. eapply parse_cls_outcomes. exact H. Qed.

(* ------------------------------------------------------------------ version dispatch *)

Definition version_in (versions : list string) (j : json) : Prop :=
  exists s, jget "specificationVersion" j = JStr s /\ exists v, In v versions /\ s = str_of_string v.

Lemma version_ok_iff : forall versions j, version_ok versions j = true <-> version_in versions j.
Proof.
  intros versions j. unfold version_ok, version_in. split.
  - intros H. destruct (jget "specificationVersion" j); try discriminate H.
    exists s. split; [reflexivity|]. apply existsb_exists in H. destruct H as [v [Hv He]].
    exists v. split; [exact Hv|]. apply gl_str_eqb_eq. exact He.
  - intros [s [-> [v [Hv ->]]]]. apply existsb_exists. exists v. split; [exact Hv|apply gl_str_eqb_refl].
Qed.

Theorem decode_job_dispatch : forall classify ms,
  (~ version_in Generated.job_template_versions (JObj ms) -> decode_job classify (JObj ms) = Raise ValueError) /\
  (version_in Generated.job_template_versions (JObj ms) ->
   decode_job classify (JObj ms) = parse_template classify "JobTemplate" (JObj ms)).
Proof.
  intros classify ms. unfold decode_job. split; intros H.
  - destruct (version_ok Generated.job_template_versions (JObj ms)) eqn:E; [|reflexivity].
    apply version_ok_iff in E. contradiction.
  - apply version_ok_iff in H. rewrite H. reflexivity.
Qed.

Theorem decode_env_dispatch : forall classify ms,
  (~ version_in Generated.env_template_versions (JObj ms) -> decode_env classify (JObj ms) = Raise ValueError) /\
  (version_in Generated.env_template_versions (JObj ms) ->
   decode_env classify (JObj ms) = parse_template classify "EnvironmentTemplate" (JObj ms)).
Proof.
  intros classify ms. unfold decode_env. split; intros H.
  - destruct (version_ok Generated.env_template_versions (JObj ms)) eqn:E; [|reflexivity].
    apply version_ok_iff in E. contradiction.
  - apply version_ok_iff in H. rewrite H. reflexivity.
Qed.

Lemma versions_now :
  Generated.job_template_versions = ["jobtemplate-2023-09"] /\
  Generated.env_template_versions = ["environment-2023-09"].
Proof. split; reflexivity. Qed.

(* ------------------------------------------------------------------ the walker is total *)

Theorem walk_total : forall refs j,
  (forall w, In w (prevalidate Generated.schema refs "JobTemplate" j) -> exists l n, w = ERef l n) /\
  (forall w, In w (prevalidate Generated.schema refs "EnvironmentTemplate" j) -> exists l n, w = ERef l n).
Proof.
  intros refs j. destruct (no_fuel refs j) as [H1 H2]. split; intros w Hw.
  - destruct w as [l n|]; [exists l, n; reflexivity|contradiction].
  - destruct w as [l n|]; [exists l, n; reflexivity|contradiction].
Qed.

(* an accepted job template passed the reference check (the post validator of the root runs the
   walker on the raw document) *)
Theorem decode_job_prevalidated : forall classify j t,
  decode_job classify j = Ok t ->
  prevalidate Generated.schema (fs_refs classify) "JobTemplate" j = [].
Proof.
  intros classify j t H. unfold decode_job in H.
  destruct j as [| | | | | |ms]; try discriminate H.
  destruct (version_ok Generated.job_template_versions (JObj ms)); [|discriminate H].
  unfold parse_template, parse_root in H.
  destruct (parse_fuel (JObj ms)) as [|f]; [discriminate H|].
  rewrite parse_cls_S in H.
  destruct (lookup_cls Generated.schema "JobTemplate") as [c0|]; [|discriminate H].
  destruct (negb (pre_hook "JobTemplate" (JObj ms))); [discriminate H|].
  destruct (extra_bad c0 ms); [discriminate H|].
  destruct (mapM _ (c_fields c0)) as [fields|e']; cbn [bind] in H; [|discriminate H].
  destruct (post_hook classify "JobTemplate" (JObj ms) fields) eqn:Ep; [|discriminate H].
  change (post_hook classify "JobTemplate" (JObj ms) fields) with (job_template_ok classify (JObj ms) fields) in Ep.
  unfold job_template_ok in Ep.
  repeat (apply andb_true_iff in Ep; destruct Ep as [Ep ?]).
  destruct (prevalidate Generated.schema (fs_refs classify) "JobTemplate" (JObj ms)); [reflexivity|discriminate].
Qed.
