(* props/C17.v — placeholder while the round-trip lemmas are being closed. *)
From Coq Require Import List NArith ZArith String.
Import ListNotations.
Require Import OJD.Base OJD.Json OJD.Schema OJD.Generated.
Local Open Scope string_scope.
Example C17_schema_has_job : match lookup_cls Generated.schema "Job" with Some _ => True | None => False end.
Proof. vm_compute. exact I. Qed.
