(* ConformPrep.v — the job-parameter half of C09x: what [CreateJobFull.prep_full] hands to the symbol table.

   For every job parameter definition [item] of the job template (read by [pdef_of_mval] into [d]):
   the text bound to RawParam.<name> in the symbol table built from prep_full's result — the text
   instantiate_model stores as JobParameter.value — conforms to the type DECLARED IN THE TEMPLATE
   ([ptyp d], whose text is the definition's own "type" field).

   Chain: the definition is in the group of its name; the group merges into ONE definition of the same
   name and type (Merge.merge refuses mixed types); preprocessing checks the value stored under that name
   against the merged definition (_check_constraints, JobParams.check_loop); C09_job_params. *)
From Coq Require Import List NArith ZArith Bool String Lia.
Import ListNotations.
Require Import OJD.Base OJD.Lexer OJD.Json OJD.Schema OJD.Generated OJD.Numerals OJD.FormatStr
               OJD.CreateJob OJD.CreateJobProofs OJD.Parse OJD.Validators OJD.Accept OJD.Export
               OJD.JobParams OJD.JobParamsProofs OJD.Merge OJD.MergeSpec OJD.MergeProofs OJD.Paths
               OJD.Glue OJD.GlueProofs OJD.CreateJobFull OJD.CreateJobFullProofs OJD.ConformLib.
Local Open Scope string_scope.
Local Open Scope list_scope.

(* ------------------------------------------------------------------ reading a definition *)
Lemma ptype_of_str_inv : forall ts t, ptype_of_str ts = Some t -> ts = ptype_str t.
Proof.
  intros ts t H. unfold ptype_of_str in H.
  destruct (str_eqb ts $"STRING") eqn:E1; [injection H as <-; apply cf_str_eqb_eq; exact E1|].
  destruct (str_eqb ts $"PATH") eqn:E2; [injection H as <-; apply cf_str_eqb_eq; exact E2|].
  destruct (str_eqb ts $"INT") eqn:E3; [injection H as <-; apply cf_str_eqb_eq; exact E3|].
  destruct (str_eqb ts $"FLOAT") eqn:E4; [injection H as <-; apply cf_str_eqb_eq; exact E4|].
  discriminate H.
Qed.

Lemma ptype_text_str : forall t, ptype_text t = ptype_str t.
Proof. intros t. destruct t; reflexivity. Qed.

(* the record carries the instance's own name and type *)
Lemma pdef_of_fields_inv : forall fs d, pdef_of_fields fs = Ok d ->
  mfield "name" fs = MStr (pname d) /\ mfield "type" fs = MStr (ptype_str (ptyp d)).
Proof.
  intros fs d H. unfold pdef_of_fields in H.
  destruct (mfield "name" fs) as [ | | | | |n| | | | ]; try discriminate H.
  destruct (mfield "type" fs) as [ | | | | |ts| | | | ]; try discriminate H.
  destruct (ptype_of_str ts) as [t|] eqn:Et; [|discriminate H].
  apply ptype_of_str_inv in Et. subst ts.
  assert (E : pname d = n /\ ptyp d = t).
  { destruct (is_numeric t);
      repeat match type of H with
             | bind ?x _ = Ok _ => destruct x; cbn [bind] in H; [|discriminate H]
             end;
      injection H as <-; split; reflexivity. }
  destruct E as [-> ->]. split; reflexivity.
Qed.

(* ------------------------------------------------------------------ merging keeps name and type *)
Lemma merge_ok_name_type : forall g m, merge false g = Ok m ->
  forall d, In d g -> pname d = pname m /\ ptyp d = ptyp m.
Proof.
  intros g m H d Hd. apply merge_ok_inv in H.
  destruct H as [dl [_ [Hn [Ht [_ [-> _]]]]]]. cbn [candidate pname ptyp].
  split; [apply Hn; exact Hd|apply Ht; exact Hd].
Qed.

Lemma merge_definitions_covers : forall eds jd defs, merge_definitions eds jd = Ok defs ->
  forall d, In d (List.concat eds ++ jd) -> exists m, In m defs /\ pname m = pname d /\ ptyp m = ptyp d.
Proof.
  intros eds jd defs H d Hd. unfold merge_definitions in H.
  destruct (merge_groups (collect_groups (List.concat eds ++ jd))) as [[ms b]|e] eqn:Em; cbn [bind fst snd] in H; [|discriminate H].
  destruct b; [discriminate H|]. injection H as <-.
  destruct (collect_covers (List.concat eds ++ jd) [] d (or_introl Hd)) as [k [g [Hg Hdg]]].
  destruct (merge_groups_clean _ _ Em k g Hg) as [m [Hm Hok]].
  destruct (merge_ok_name_type g m Hok d Hdg) as [E1 E2].
  exists m. split; [exact Hm|]. split; symmetry; assumption.
Qed.

(* ------------------------------------------------------------------ preprocessing checks what it stores *)
Lemma check_loop_zero : forall defs rv, check_loop false defs rv = Ok O ->
  forall m, In m defs -> forall t v, JobParams.lookup (pname m) rv = Some (t, v) ->
  check_constraints false m v = Ok tt.
Proof.
  induction defs as [|d ds IH]; intros rv H m Hm t v Hl; [destruct Hm|].
  cbn [check_loop] in H.
  destruct (JobParams.lookup (pname d) rv) as [[t0 v0]|] eqn:El.
  - destruct (check_constraints false d v0) as [[]|e] eqn:Ec.
    + destruct Hm as [<-|Hm].
      * rewrite El in Hl. injection Hl as _ <-. exact Ec.
      * eapply IH; eassumption.
    + destruct e; try discriminate H.
      destruct (check_loop false ds rv); cbn [bind] in H; discriminate H.
  - destruct Hm as [<-|Hm]; [rewrite El in Hl; discriminate Hl|]. eapply IH; eassumption.
Qed.

Lemma preprocess_checked : forall dir_ok path_in path_default defs vals r,
  preprocess false dir_ok path_in path_default defs vals = Ok r ->
  forall m, In m defs -> forall t v, JobParams.lookup (pname m) r = Some (t, v) ->
  check_constraints false m v = Ok tt.
Proof.
  intros dir_ok path_in path_default defs vals r H m Hm t v Hl. unfold preprocess in H.
  destruct defs as [|d0 ds] eqn:Edefs; [destruct Hm|]. rewrite <- Edefs in *. clear Edefs.
  destruct (JobParams.collect_defaults dir_ok path_in path_default defs vals) as [rv|x].
  - destruct (check_all false defs rv) as [u|x] eqn:Ec.
    + apply finish_ok in H. destruct H as [_ ->].
      unfold check_all in Ec. destruct (check_loop false defs rv) as [n|e] eqn:El; cbn [bind] in Ec; [|discriminate Ec].
      destruct n; [|discriminate Ec]. eapply check_loop_zero; eassumption.
    + destruct x; try discriminate H. apply finish_ok in H. destruct H as [Hz _]. lia.
  - destruct x; try discriminate H. apply finish_ok in H. destruct H as [Hz _]. lia.
Qed.

(* RawParam.<n> in the symbol table of the preprocessed values = the value stored under n *)
Lemma raw_lookup : forall r n,
  st_lookup (symtab_of (pvals_of r)) ($"RawParam." ++ n) = option_map snd (JobParams.lookup n r).
Proof.
  intros r n. change ($"RawParam.") with p_raw. rewrite symtab_raw.
  induction r as [|[k [t v]] r IH]; [reflexivity|].
  unfold pvals_of, first_named. cbn [map List.find fst snd JobParams.lookup]. unfold v_name at 1. cbn [fst].
  destruct (str_eqb n k); [reflexivity|]. exact IH.
Qed.

(* ------------------------------------------------------------------ the chain *)
Theorem prep_full_conforms : forall envs c fs l item d vals pvals v,
  prep_full envs (MModel c fs) vals = Ok pvals ->
  mfield "parameterDefinitions" fs = MList l -> In item l -> pdef_of_mval item = Ok d ->
  st_lookup (symtab_of pvals) ($"RawParam." ++ pname d) = Some v ->
  conforms_job (ptype_str (ptyp d)) v = true.
Proof.
  intros envs c fs l item d vals pvals v H Hf Hin Hd Hv. unfold prep_full in H.
  destruct (mapM defs_of_template envs) as [eds|e0]; cbn [bind] in H; [|discriminate H].
  destruct (defs_of_template (MModel c fs)) as [jd|e1] eqn:Ej; cbn [bind] in H; [|discriminate H].
  destruct (merge_definitions eds jd) as [defs|e2] eqn:Em; [|destruct e2; discriminate H].
  destruct (preprocess_server defs vals) as [r|e3] eqn:Ep; [|destruct e3; discriminate H].
  injection H as <-.
  (* the definition is among the template's *)
  assert (Hjd : In d jd).
  { cbn [defs_of_template] in Ej. rewrite Hf in Ej. cbn [defs_of_value] in Ej.
    destruct (cf_mapM_in_fwd _ _ _ _ _ Ej item Hin) as [d' [Hd' E]]. rewrite Hd in E. injection E as <-. exact Hd'. }
  destruct (merge_definitions_covers eds jd defs Em d) as [m [Hm [En Et]]]; [apply in_or_app; right; exact Hjd|].
  rewrite raw_lookup in Hv.
  destruct (JobParams.lookup (pname d) r) as [[t' v']|] eqn:El; [|discriminate Hv]. cbn [option_map snd] in Hv.
  injection Hv as ->.
  rewrite <- En in El. unfold preprocess_server in Ep.
  pose proof (preprocess_checked _ _ _ _ _ _ Ep m Hm t' v El) as Hc.
  apply check_conforms_job in Hc. rewrite ptype_text_str, Et in Hc. exact Hc.
Qed.

(* the same in terms of the definition's own fields: [k] its name, [T] the text of its "type" field *)
Theorem prep_full_conforms_fields : forall envs c fs l ic ifs k T vals pvals v,
  prep_full envs (MModel c fs) vals = Ok pvals ->
  mfield "parameterDefinitions" fs = MList l -> In (MModel ic ifs) l ->
  mfield "name" ifs = MStr k -> mfield "type" ifs = MStr T ->
  st_lookup (symtab_of pvals) ($"RawParam." ++ k) = Some v ->
  conforms_job T v = true.
Proof.
  intros envs c fs l ic ifs k T vals pvals v H Hf Hin Hn Ht Hv.
  assert (Hd : exists d, pdef_of_mval (MModel ic ifs) = Ok d).
  { unfold prep_full in H.
    destruct (mapM defs_of_template envs) as [eds|e0]; cbn [bind] in H; [|discriminate H].
    destruct (defs_of_template (MModel c fs)) as [jd|e1] eqn:Ej; cbn [bind] in H; [|discriminate H].
    cbn [defs_of_template] in Ej. rewrite Hf in Ej. cbn [defs_of_value] in Ej.
    destruct (cf_mapM_in_fwd _ _ _ _ _ Ej _ Hin) as [d [_ E]]. exists d. exact E. }
  destruct Hd as [d Hd]. pose proof Hd as Hd'. cbn [pdef_of_mval] in Hd'.
  apply pdef_of_fields_inv in Hd'. destruct Hd' as [E1 E2].
  rewrite Hn in E1. injection E1 as ->. rewrite Ht in E2. injection E2 as ->.
  eapply prep_full_conforms; eassumption.
Qed.
