(* JobParamsSpec.v — specification of C10, written from the property text:

     "preprocess_job_parameters succeeds if and only if no undefined parameter is supplied,
      every parameter without a default is supplied, and every final value satisfies its
      definition: it parses as the declared type, minValue <= v <= maxValue (bounds equal to
      zero included), it is a member of allowedValues when given, and its length is within
      minLength..maxLength.  On success the result has exactly one entry per defined
      parameter, typed as declared; supplied values win over defaults and are returned as
      given (PATH joining aside)."

   Numbers are compared as rationals (NumeralsSpec.v); "parses as INT" is Python's int(),
   "parses as FLOAT" is a FINITE Decimal (C09: FLOAT values are finite decimal numerals). *)
From Coq Require Import List NArith ZArith Bool.
Import ListNotations.
Require Import OJD.Base OJD.Numerals OJD.NumeralsSpec OJD.JobParams.
Local Open Scope Z_scope.

Definition opt_all {A} (o : option A) (P : A -> Prop) : Prop :=
  match o with None => True | Some a => P a end.

(* minValue <= x <= maxValue, member of allowedValues (as a number) when given *)
Definition number_ok (d : pdef) (x : num) : Prop :=
  opt_all (pminv d) (fun b => num_le b x) /\
  opt_all (pmaxv d) (fun b => num_le x b) /\
  opt_all (pallowed_n d) (fun l => exists y, In y l /\ num_eq x y).

(* member of allowedValues when given, minLength <= len v <= maxLength *)
Definition string_ok (d : pdef) (v : str) : Prop :=
  opt_all (pallowed_s d) (fun l => In v l) /\
  opt_all (pminlen d) (fun n => n <= slen v) /\
  opt_all (pmaxlen d) (fun n => slen v <= n).

(* "the value satisfies its definition" *)
Definition sat (d : pdef) (v : str) : Prop :=
  match ptyp d with
  | STRING | PATH => string_ok d v
  | INT => exists z, parse_int v = Some z /\ number_ok d (num_of_Z z)
  | FLOAT => exists m e, parse_dec v = Some (Fin m e) /\ number_ok d (mkNum m e)
  end.

(* What the decoder guarantees about every definition it returns and the model relies on
   (conlist(min_items=1) for allowedValues; the validator `0 < maxLength`).  Needed because
   the STRING/PATH checks, and the allowedValues check of every class, are truthiness tests. *)
Definition wf_def (d : pdef) : Prop :=
  pallowed_n d <> Some [] /\ pallowed_s d <> Some [] /\ pmaxlen d <> Some 0.

Section Spec.
  (* the two PATH joins (C11); see JobParams.v *)
  Variable path_in : str -> str.
  Variable path_default : str -> outcome str.

  (* the final value of a parameter: the supplied one if any, else the default
     (a PATH value is joined unless it is empty) *)
  Inductive final (vals : list (str * str)) (d : pdef) : str -> Prop :=
  | final_supplied : forall v,
      lookup (pname d) vals = Some v ->
      final vals d (if is_path d && negb (is_nil v) then path_in v else v)
  | final_default_plain : forall t,
      lookup (pname d) vals = None -> pdefault d = Some t ->
      is_path d && negb (is_nil t) = false ->
      final vals d t
  | final_default_path : forall t v,
      lookup (pname d) vals = None -> pdefault d = Some t ->
      is_path d && negb (is_nil t) = true -> path_default t = Ok v ->
      final vals d v.

  (* no undefined parameter is supplied *)
  Definition no_extra (defs : list pdef) (vals : list (str * str)) : Prop :=
    forall k, In k (map fst vals) -> In k (map pname defs).

  (* every parameter without a default is supplied *)
  Definition no_missing (defs : list pdef) (vals : list (str * str)) : Prop :=
    forall d, In d defs -> pdefault d = None -> exists v, lookup (pname d) vals = Some v.

  (* PATH joining aside: every non-empty PATH default that is used can be joined (C11) *)
  Definition path_defaults_ok (defs : list pdef) (vals : list (str * str)) : Prop :=
    forall d t, In d defs -> lookup (pname d) vals = None -> pdefault d = Some t ->
      is_path d && negb (is_nil t) = true -> exists v, path_default t = Ok v.

  (* every final value satisfies its definition *)
  Definition all_sat (defs : list pdef) (vals : list (str * str)) : Prop :=
    forall d v, In d defs -> final vals d v -> sat d v.
End Spec.
