(* CreateJobExactKeysSpec.v — the SPECIFICATION's Job ([expected_job], CreateJobSpec.v) of an accepted document
   with distinct keys is [good]: every object has pairwise distinct keys and no null member.

   What is used of acceptance (the same inversions as CreateJobExact*.v, without the instantiation side):
     * required members are present (job / step / parameter / amount / attribute names, script, type, range);
     * the names of the job parameter definitions, and of a step's task parameter definitions, are pairwise
       distinct (validators _unique_parameter_names, StepParameterSpaceDefinition._validate) -- they become
       the keys of "parameters" / "taskParameterDefinitions";
     * range items, amount bounds, attribute values, descriptions, combination are scalars.
   Scripts, environments and dependencies are [same] of the document: distinct keys are inherited from the
   document, null members are stripped. *)
From Coq Require Import List NArith ZArith Bool String Lia.
Import ListNotations.
Require Import OJD.Base OJD.Lexer OJD.Json OJD.Schema OJD.Generated OJD.Charsets OJD.Numerals OJD.NumPrint
               OJD.FormatStr OJD.CreateJob OJD.CreateJobProofs OJD.CreateJobSpec OJD.Parse OJD.Validators OJD.Accept
               OJD.ExportProofs OJD.AcceptMono OJD.DecodeInv OJD.JsonEquiv OJD.CreateJobExactLib OJD.CreateJobExactCarried
               OJD.CreateJobExactParams OJD.CreateJobExactSteps OJD.CreateJobExactSpace OJD.CreateJobExactKeysLib.
Local Open Scope string_scope.
Local Open Scope list_scope.

(* ------------------------------------------------------------------ objects without null members *)
Lemma good_obj : forall ms, NoDup (map fst ms) -> (forall kv, In kv ms -> good (snd kv) /\ snd kv <> JNull) -> good (JObj ms).
Proof.
  intros ms Hnd Hv. split.
  - cbn [distinct_keys]. apply andb_true_iff. split; [apply NoDup_str_nodupb; exact Hnd|].
    rewrite forallb_forall. intros kv Hkv. exact (proj1 (proj1 (Hv kv Hkv))).
  - cbn [no_null_members]. rewrite forallb_forall. intros kv Hkv. destruct (Hv kv Hkv) as [[_ Hg] Hn].
    rewrite Hg. destruct (snd kv); try reflexivity. contradiction.
Qed.

Ltac dn_tac :=
  repeat first [ apply dn_opt_last
               | apply dn_opt
               | apply dn_cons; [solve [discriminate | assumption | apply same_nn; assumption]|]
               | apply dn_nil ].

Ltac keys_tac := cbn [map fst]; apply str_nodupb_NoDup; vm_compute; reflexivity.

Lemma field_raw_jget : forall ms fl, field_raw ms fl = jget (f_alias fl) (JObj ms).
Proof. reflexivity. Qed.

Lemma leaf_tobj_scalarj : forall SC x, leaf x = true -> scalarj (tobj SC x) = true.
Proof. intros SC x H. destruct x; try discriminate H; reflexivity. Qed.

(* ------------------------------------------------------------------ kinds that accept scalars only *)
Lemma parse_scalar_scalarj : forall classify k v x, parse_scalar classify k v = Ok x -> scalarj v = true.
Proof.
  intros classify k v x H.
  destruct k as [lit|members|strict lo hi cs|c lo hi cs|strict|strict ge le gt|gt| |c|key mp|alts];
    cbn [parse_scalar] in H; cbv zeta in H; try discriminate H;
    destruct v as [| | | | |l|ms]; try reflexivity; try discriminate H; destruct strict; discriminate H.
Qed.

Definition flat_alt (a : ualt) : bool := match a with UScalar k => is_scalar k | UList _ _ _ => false end.

Definition flat_kind (k : kind) : bool :=
  match k with
  | KUnion alts => forallb flat_alt alts
  | KModel _ | KDisc _ _ => false
  | _ => true
  end.

Section Flat.
  Variable classify : N -> cclass.
  Notation pk := (parse_kind G classify pre_hook (post_hook classify)).

  Lemma pk_scalar_scalarj : forall f k v x, is_scalar k = true -> pk f k v = Ok x -> scalarj v = true.
  Proof.
    intros f k v x Hk H. destruct f as [|f]; [discriminate H|]. rewrite parse_kind_S in H.
    destruct k; try discriminate Hk; exact (parse_scalar_scalarj _ _ _ _ H).
  Qed.

  Lemma pk_flat_scalarj : forall f k v x, pk f k v = Ok x -> flat_kind k = true -> scalarj v = true.
  Proof.
    intros f k v x H Hk. destruct k as [lit|members|strict lo hi cs|c lo hi cs|strict|strict ge le gt|gt| |c|key mp|alts];
      try discriminate Hk; try (eapply pk_scalar_scalarj; [|exact H]; reflexivity).
    destruct f as [|f]; [discriminate H|]. rewrite parse_kind_S in H.
    apply (try_alts_ok G classify pre_hook (post_hook classify)) in H. destruct H as [a [Ha Hr]].
    cbn [flat_kind] in Hk. rewrite forallb_forall in Hk. specialize (Hk a Ha).
    destruct a as [k'|lo hi k']; [|discriminate Hk]. cbn [alt_res flat_alt] in *. exact (pk_scalar_scalarj f k' v x Hk Hr).
  Qed.

  Lemma Forall2_flat : forall f k its l,
    Forall2 (fun it m => pk f k it = Ok m) its l -> flat_kind k = true -> forallb scalarj its = true.
  Proof.
    intros f k its l HF Hk. induction HF as [|it m r r' Hp _ IH]; [reflexivity|].
    cbn [forallb]. rewrite (pk_flat_scalarj f k it m Hp Hk), IH. reflexivity.
  Qed.

  Lemma mapM_flat : forall f k its l, mapM (pk f k) its = Ok l -> flat_kind k = true -> forallb scalarj its = true.
  Proof. intros f k its l H Hk. apply mapM_Forall2 in H. exact (Forall2_flat f k its l H Hk). Qed.

  (* an optional single field of a flat kind *)
  Lemma single_flat : forall f k raw x,
    (raw = JNull /\ x = MNone /\ false = false \/ raw <> JNull /\ pk f k raw = Ok x) -> flat_kind k = true -> scalarj raw = true.
  Proof. intros f k raw x [[-> _]|[_ H]] Hk; [reflexivity|exact (pk_flat_scalarj f k raw x H Hk)]. Qed.

  (* an optional list field of a flat kind *)
  Definition scalar_list (raw : json) : bool := match raw with JNull => true | JArr l => forallb scalarj l | _ => false end.

  Lemma list_flat : forall f k raw x (b : bool),
    (raw = JNull /\ x = MNone /\ b = false \/
     exists items l, raw = JArr items /\ x = MList l /\ Forall2 (fun it m => pk f k it = Ok m) items l) ->
    flat_kind k = true -> scalar_list raw = true.
  Proof.
    intros f k raw x b [[-> _]|[its [l [-> [_ HF]]]]] Hk; [reflexivity|]. cbn [scalar_list]. exact (Forall2_flat f k its l HF Hk).
  Qed.
End Flat.

(* ------------------------------------------------------------------ substitution keeps scalars *)
Section Subst.
  Variable resolve : symtab -> str -> outcome str.
  Variable sigma : symtab.

  Lemma subst_scalar : forall v r, scalarj v = true -> CreateJobSpec.subst resolve sigma v = Ok r ->
    scalarj r = true /\ (v <> JNull -> r <> JNull).
  Proof.
    intros v r Hv H. destruct v; try discriminate Hv; cbn [CreateJobSpec.subst] in H;
      try (injection H as <-; split; [reflexivity|intros Hn; exact Hn]).
    destruct (resolve sigma s); cbn [bind] in H; [|discriminate H]. injection H as <-. split; [reflexivity|discriminate].
  Qed.

  Lemma as_text_scalar : forall v r, scalarj v = true -> as_text resolve sigma v = Ok r ->
    scalarj r = true /\ (v <> JNull -> r <> JNull).
  Proof.
    intros v r Hv H. destruct v; try discriminate Hv; cbn [as_text] in H;
      try exact (subst_scalar _ r Hv H); injection H as <-; (split; [reflexivity|discriminate]).
  Qed.

  Lemma mapM_scalars : forall (g : json -> outcome json) its l,
    (forall v r, scalarj v = true -> g v = Ok r -> scalarj r = true /\ (v <> JNull -> r <> JNull)) ->
    forallb scalarj its = true -> mapM g its = Ok l -> good (JArr l).
  Proof.
    intros g its l Hg Hs H. apply good_arr. intros x Hx. destruct (mapM_in_ok _ _ _ _ _ H x Hx) as [v [Hv Hf]].
    rewrite forallb_forall in Hs. apply good_scalar. exact (proj1 (Hg v x (Hs v Hv) Hf)).
  Qed.

  Lemma map_arr_scalars : forall (g : json -> outcome json) raw r,
    (forall v r, scalarj v = true -> g v = Ok r -> scalarj r = true /\ (v <> JNull -> r <> JNull)) ->
    scalar_list raw = true -> map_arr g raw = Ok r -> good r.
  Proof.
    intros g raw r Hg Hs H. destruct raw as [| | | | |its|]; try discriminate Hs; cbn [map_arr] in H.
    - injection H as <-. apply good_scalar. reflexivity.
    - destruct (mapM g its) as [l|e] eqn:Em; cbn [bind] in H; [|discriminate H]. injection H as <-.
      exact (mapM_scalars g its l Hg Hs Em).
  Qed.
End Subst.

(* ------------------------------------------------------------------ task parameter definitions *)
Definition range_ok (r : json) : bool :=
  match r with
  | JArr l => forallb scalarj l
  | JNull | JObj _ => false
  | _ => true
  end.

Definition name_of (m : mval) : str := mstr (fget "name" (model_fields m)).

Definition task_view (it : json) (m : mval) : Prop :=
  exists n ts, jget "name" it = JStr n /\ name_of m = n /\ jget "type" it = JStr ts /\ range_ok (jget "range" it) = true.

Section TaskView.
  Variable classify : N -> cclass.
  Notation pk := (parse_kind G classify pre_hook (post_hook classify)).
  Notation pc := (parse_cls G classify pre_hook (post_hook classify)).

  Lemma field_list_inv2 : forall f ms fl y, parse_field (pk f) ms fl = Ok y -> (exists lo hi, f_shape fl = ListOf lo hi) ->
    exists x, y = (f_name fl, x) /\
              ((field_raw ms fl = JNull /\ x = MNone /\ f_required fl = false) \/
               (exists items l, field_raw ms fl = JArr items /\ x = MList l /\
                                Forall2 (fun it m => pk f (f_kind fl) it = Ok m) items l)).
  Proof. intros f ms fl y H [lo [hi Hs]]. exact (field_list_inv classify f ms fl lo hi y H Hs). Qed.

  Ltac list_shape := eexists; eexists; reflexivity.

  Lemma task_view_of : forall f it m, pk f kdisc_task it = Ok m -> task_view it m.
  Proof.
    intros f it m H. destruct f as [|f]; [discriminate H|]. unfold kdisc_task in H.
    rewrite parse_kind_S in H. unfold disc_res in H.
    destruct it as [| | | | | |ims]; try discriminate H.
    destruct (assoc (str_of_string "type") ims) as [[| | | |ts| |]|] eqn:Ea; try discriminate H.
    destruct (List.find _ _) as [[k' c']|] eqn:Ef; [|discriminate H].
    apply find_some in Ef. destruct Ef as [Hin _].
    assert (Ht : jget "type" (JObj ims) = JStr ts) by (cbn [jget]; rewrite Ea; reflexivity).
    destruct Hin as [E|[E|[E|[E|[]]]]]; injection E as <- <-.
    - (* INT: a list or a range expression *)
      cls_open H. injection Ev as <-. subst m.
      next_field Hm y1 r1 H1. next_field Hm y2 r2 H2. next_field Hm y3 r3 H3. injection Hm as <-.
      apply name_field_inv in H1. destruct H1 as [c [r [-> Hn]]].
      apply field_single_inv in H3; [|reflexivity]. destruct H3 as [rg [-> Hrg]].
      cbn [f_name f_kind f_required] in *.
      destruct Hrg as [[_ [_ Hreq]]|[Hrn Hrp]]; [discriminate Hreq|].
      rewrite field_raw_jget in Hrn, Hrp. cbn [f_alias] in Hrn, Hrp.
      exists (c :: r), ts. split; [exact Hn|]. split; [reflexivity|]. split; [exact Ht|].
      destruct f' as [|f2]; [discriminate Hrp|]. rewrite parse_kind_S in Hrp.
      apply (try_alts_ok G classify pre_hook (post_hook classify)) in Hrp. destruct Hrp as [a [Ha Hrp]].
      destruct Ha as [<-|[<-|[]]]; cbn [alt_res] in Hrp.
      + unfold list_items in Hrp. destruct (jget "range" (JObj ims)) as [| | | | |its|] eqn:Er; try discriminate Hrp.
        destruct (len_ok_n _ _ _); [|discriminate Hrp].
        destruct (mapM _ its) as [l|e] eqn:Em; cbn [bind] in Hrp; [|discriminate Hrp].
        cbn [range_ok]. exact (mapM_flat classify f2 _ its l Em eq_refl).
      + pose proof (pk_flat_scalarj classify f2 _ _ _ Hrp eq_refl) as Hsc.
        destruct (jget "range" (JObj ims)); try discriminate Hsc; try reflexivity. contradiction.
    - cls_open H. injection Ev as <-. subst m.
      next_field Hm y1 r1 H1. next_field Hm y2 r2 H2. next_field Hm y3 r3 H3. injection Hm as <-.
      apply name_field_inv in H1. destruct H1 as [c [r [-> Hn]]].
      apply field_list_inv2 in H3; [|list_shape]. destruct H3 as [rg [-> Hrg]].
      cbn [f_name f_kind f_required] in *.
      destruct Hrg as [[_ [_ Hreq]]|[its [l [Er [-> Em]]]]]; [discriminate Hreq|].
      rewrite field_raw_jget in Er. cbn [f_alias] in Er.
      exists (c :: r), ts. split; [exact Hn|]. split; [reflexivity|]. split; [exact Ht|].
      rewrite Er. cbn [range_ok]. exact (Forall2_flat classify f' _ its l Em eq_refl).
    - cls_open H. injection Ev as <-. subst m.
      next_field Hm y1 r1 H1. next_field Hm y2 r2 H2. next_field Hm y3 r3 H3. injection Hm as <-.
      apply name_field_inv in H1. destruct H1 as [c [r [-> Hn]]].
      apply field_list_inv2 in H3; [|list_shape]. destruct H3 as [rg [-> Hrg]].
      cbn [f_name f_kind f_required] in *.
      destruct Hrg as [[_ [_ Hreq]]|[its [l [Er [-> Em]]]]]; [discriminate Hreq|].
      rewrite field_raw_jget in Er. cbn [f_alias] in Er.
      exists (c :: r), ts. split; [exact Hn|]. split; [reflexivity|]. split; [exact Ht|].
      rewrite Er. cbn [range_ok]. exact (Forall2_flat classify f' _ its l Em eq_refl).
    - cls_open H. injection Ev as <-. subst m.
      next_field Hm y1 r1 H1. next_field Hm y2 r2 H2. next_field Hm y3 r3 H3. injection Hm as <-.
      apply name_field_inv in H1. destruct H1 as [c [r [-> Hn]]].
      apply field_list_inv2 in H3; [|list_shape]. destruct H3 as [rg [-> Hrg]].
      cbn [f_name f_kind f_required] in *.
      destruct Hrg as [[_ [_ Hreq]]|[its [l [Er [-> Em]]]]]; [discriminate Hreq|].
      rewrite field_raw_jget in Er. cbn [f_alias] in Er.
      exists (c :: r), ts. split; [exact Hn|]. split; [reflexivity|]. split; [exact Ht|].
      rewrite Er. cbn [range_ok]. exact (Forall2_flat classify f' _ its l Em eq_refl).
  Qed.
End TaskView.

(* ------------------------------------------------------------------ the specification, piece by piece *)
Section SpecGood.
  Variable classify : N -> cclass.
  Variable resolve : symtab -> str -> outcome str.
  Variable sigma : symtab.
  Notation pk := (parse_kind G classify pre_hook (post_hook classify)).
  Notation pc := (parse_cls G classify pre_hook (post_hook classify)).

  Ltac list_shape := eexists; eexists; reflexivity.

  (* ---- one task parameter ---- *)
  Lemma task_param_good : forall it m k s, task_view it m -> task_param resolve sigma it = Ok (k, s) ->
    k = name_of m /\ good s /\ s <> JNull.
  Proof.
    intros it m k s [n [ts [Hn [Hm [Ht Hr]]]]] H. unfold task_param in H. rewrite Hn, Ht in H.
    assert (K : forall r, good r -> r <> JNull -> good (JObj [($"type", JStr ts); ($"range", r)])).
    { intros r Hg Hnn. apply good_obj; [keys_tac|]. intros kv [<-|[<-|[]]]; cbn [snd]; split; try discriminate; try assumption.
      apply good_scalar. reflexivity. }
    destruct (jget "range" it) as [|b|z|a e|rs|its|ms] eqn:Er; try discriminate Hr; cbn [CreateJobSpec.subst bind] in H.
    - injection H as <- <-. split; [symmetry; exact Hm|]. split; [|discriminate]. apply K; [apply good_scalar; reflexivity|discriminate].
    - injection H as <- <-. split; [symmetry; exact Hm|]. split; [|discriminate]. apply K; [apply good_scalar; reflexivity|discriminate].
    - injection H as <- <-. split; [symmetry; exact Hm|]. split; [|discriminate]. apply K; [apply good_scalar; reflexivity|discriminate].
    - destruct (resolve sigma rs) as [r|e]; cbn [bind] in H; [|discriminate H]. injection H as <- <-.
      split; [symmetry; exact Hm|]. split; [|discriminate]. apply K; [apply good_scalar; reflexivity|discriminate].
    - destruct (mapM (as_text resolve sigma) its) as [l|e] eqn:Em; cbn [bind] in H; [|discriminate H]. injection H as <- <-.
      split; [symmetry; exact Hm|]. split; [|discriminate]. apply K; [|discriminate].
      cbn [range_ok] in Hr. exact (mapM_scalars (as_text resolve sigma) its l (as_text_scalar resolve sigma) Hr Em).
  Qed.

  Lemma task_params_good : forall f its l tps,
    Forall2 (fun it m => pk f kdisc_task it = Ok m) its l -> mapM (task_param resolve sigma) its = Ok tps ->
    map fst tps = map name_of l /\ forall kv, In kv tps -> good (snd kv) /\ snd kv <> JNull.
  Proof.
    intros f its l tps HF. revert tps. induction HF as [|it m r r' Hp _ IH]; intros tps H.
    - injection H as <-. split; [reflexivity|intros kv []].
    - apply mapM_cons_ok in H. destruct H as [[k s] [ys [Hy [Hr ->]]]]. destruct (IH ys Hr) as [IH1 IH2].
      destruct (task_param_good it m k s (task_view_of classify f it m Hp) Hy) as [-> [Hg Hnn]].
      cbn [map fst]. rewrite IH1. split; [reflexivity|]. intros kv [<-|Hkv]; [split; assumption|exact (IH2 kv Hkv)].
  Qed.

  (* ---- the parameter space ---- *)
  Theorem param_space_good : forall f raw x s,
    pk f (KModel "StepParameterSpaceDefinition") raw = Ok x -> param_space resolve sigma raw = Ok s -> good s /\ s <> JNull.
  Proof.
    intros f raw x s H Hs. destruct f as [|f]; [discriminate H|]. rewrite parse_kind_S in H.
    cls_open H. subst raw x.
    next_field Hm y1 r1 H1. next_field Hm y2 r2 H2. injection Hm as <-.
    apply field_list_inv2 in H1; [|list_shape]. destruct H1 as [tpd [-> Htpd]].
    apply field_single_inv in H2; [|reflexivity]. destruct H2 as [cb [-> Hcb]].
    cbn [f_name f_kind f_required] in *.
    destruct Htpd as [[_ [_ Hreq]]|[its [l [Er [-> HFl]]]]]; [discriminate Hreq|].
    rewrite field_raw_jget in Er, Hcb. cbn [f_alias] in Er, Hcb.
    assert (Hnd : NoDup (map name_of l)).
    { change (post_hook classify "StepParameterSpaceDefinition" (JObj ms)
                        [("taskParameterDefinitions", MList l); ("combination", cb)])
        with (nodupb (names_of (MList l))
              && match cb with
                 | MStr s0 => match Comb.parse_str classify s0 with
                              | Ok t0 => Comb.accounting false (names_of (MList l)) (Comb.collect_ids t0)
                              | Raise _ => false
                              end
                 | _ => true
                 end) in Hpost.
      apply andb_true_iff in Hpost. apply nodupb_NoDup. exact (proj1 Hpost). }
    assert (Hcs : scalarj (jget "combination" (JObj ms)) = true) by (exact (single_flat classify f' _ _ cb Hcb eq_refl)).
    unfold param_space in Hs. rewrite Er in Hs. cbn [CreateJobSpec.items] in Hs.
    destruct (mapM (task_param resolve sigma) its) as [tps|e] eqn:Et; cbn [bind] in Hs; [|discriminate Hs].
    injection Hs as <-. split; [|discriminate].
    destruct (task_params_good f' its l tps HFl Et) as [Hk Hv].
    cbn [app]. eapply good_dn; [dn_tac|keys_tac|].
    intros k v Hin _. destruct Hin as [E|[E|[]]]; injection E as <- <-.
    - apply good_obj; [rewrite Hk; exact Hnd|exact Hv].
    - apply good_scalar. exact Hcs.
  Qed.

  (* ---- host requirements ---- *)
  Lemma amount_good : forall f a x s,
    pk f (KModel "AmountRequirementTemplate") a = Ok x -> amount resolve sigma a = Ok s -> good s.
  Proof.
    intros f a x s H Hs. destruct f as [|f]; [discriminate H|]. rewrite parse_kind_S in H.
    cls_open H. subst a x.
    next_field Hm y1 r1 H1. next_field Hm y2 r2 H2. next_field Hm y3 r3 H3. injection Hm as <-.
    apply format_field_inv in H1. destruct H1 as [s0 [-> [Hs0 _]]].
    apply field_single_inv in H2; [|reflexivity]. destruct H2 as [mn [-> Hmn]].
    apply field_single_inv in H3; [|reflexivity]. destruct H3 as [mx [-> Hmx]].
    cbn [f_name f_kind f_required] in *.
    rewrite field_raw_jget in Hmn, Hmx. cbn [f_alias] in Hmn, Hmx.
    assert (Hname : jget "name" (JObj ms) = JStr s0) by (cbn [jget]; rewrite Hs0; reflexivity).
    pose proof (single_flat classify f' _ _ mn Hmn eq_refl) as Smn.
    pose proof (single_flat classify f' _ _ mx Hmx eq_refl) as Smx.
    unfold amount in Hs. rewrite Hname in Hs. cbn [CreateJobSpec.subst] in Hs.
    destruct (resolve sigma s0) as [n|e]; cbn [bind] in Hs; [|discriminate Hs].
    destruct (as_text resolve sigma (jget "min" (JObj ms))) as [mn'|e] eqn:Emn; cbn [bind] in Hs; [|discriminate Hs].
    destruct (as_text resolve sigma (jget "max" (JObj ms))) as [mx'|e] eqn:Emx; cbn [bind] in Hs; [|discriminate Hs].
    injection Hs as <-. cbn [app]. eapply good_dn; [dn_tac|keys_tac|].
    intros k v Hin _. destruct Hin as [E|[E|[E|[]]]]; injection E as <- <-; apply good_scalar.
    - reflexivity.
    - exact (proj1 (as_text_scalar resolve sigma _ _ Smn Emn)).
    - exact (proj1 (as_text_scalar resolve sigma _ _ Smx Emx)).
  Qed.

  Lemma attribute_good : forall f a x s,
    pk f (KModel "AttributeRequirementTemplate") a = Ok x -> attribute resolve sigma a = Ok s -> good s.
  Proof.
    intros f a x s H Hs. destruct f as [|f]; [discriminate H|]. rewrite parse_kind_S in H.
    cls_open H. subst a x.
    next_field Hm y1 r1 H1. next_field Hm y2 r2 H2. next_field Hm y3 r3 H3. injection Hm as <-.
    apply format_field_inv in H1. destruct H1 as [s0 [-> [Hs0 _]]].
    apply field_list_inv2 in H2; [|list_shape]. destruct H2 as [any [-> Hany]].
    apply field_list_inv2 in H3; [|list_shape]. destruct H3 as [all [-> Hall]].
    cbn [f_name f_kind f_required] in *.
    rewrite field_raw_jget in Hany, Hall. cbn [f_alias] in Hany, Hall.
    assert (Hname : jget "name" (JObj ms) = JStr s0) by (cbn [jget]; rewrite Hs0; reflexivity).
    pose proof (list_flat classify f' _ _ any _ Hany eq_refl) as Sany.
    pose proof (list_flat classify f' _ _ all _ Hall eq_refl) as Sall.
    unfold attribute in Hs. rewrite Hname in Hs. cbn [CreateJobSpec.subst] in Hs.
    destruct (resolve sigma s0) as [n|e]; cbn [bind] in Hs; [|discriminate Hs].
    destruct (map_arr (CreateJobSpec.subst resolve sigma) (jget "anyOf" (JObj ms))) as [any'|e] eqn:Eany; cbn [bind] in Hs; [|discriminate Hs].
    destruct (map_arr (CreateJobSpec.subst resolve sigma) (jget "allOf" (JObj ms))) as [all'|e] eqn:Eall; cbn [bind] in Hs; [|discriminate Hs].
    injection Hs as <-. cbn [app]. eapply good_dn; [dn_tac|keys_tac|].
    intros k v Hin _. destruct Hin as [E|[E|[E|[]]]]; injection E as <- <-.
    - apply good_scalar. reflexivity.
    - exact (map_arr_scalars _ _ _ (subst_scalar resolve sigma) Sany Eany).
    - exact (map_arr_scalars _ _ _ (subst_scalar resolve sigma) Sall Eall).
  Qed.

  (* an optional list of models, each rewritten by [spec] *)
  Lemma map_arr_models_good : forall f c (spec : json -> outcome json) raw v (b : bool) r,
    (forall a x s, pk f (KModel c) a = Ok x -> spec a = Ok s -> good s) ->
    (raw = JNull /\ v = MNone /\ b = false \/
     exists its l, raw = JArr its /\ v = MList l /\ Forall2 (fun it m => pk f (KModel c) it = Ok m) its l) ->
    map_arr spec raw = Ok r -> good r.
  Proof.
    intros f c spec raw v b r Hitem [[-> _]|[its [l [-> [_ HF]]]]] H; cbn [map_arr] in H.
    - injection H as <-. apply good_scalar. reflexivity.
    - destruct (mapM spec its) as [ss|e] eqn:Em; cbn [bind] in H; [|discriminate H]. injection H as <-.
      apply good_arr. intros s Hs. destruct (mapM_in_ok _ _ _ _ _ Em s Hs) as [a [Ha Hsa]].
      clear - HF Ha Hsa Hitem. induction HF as [|it m r0 r' Hp _ IH]; [destruct Ha|].
      destruct Ha as [->|Ha]; [exact (Hitem a m s Hp Hsa)|exact (IH Ha)].
  Qed.

  Theorem host_req_good : forall f raw x s,
    pk f (KModel "HostRequirementsTemplate") raw = Ok x -> host_req resolve sigma raw = Ok s -> good s.
  Proof.
    intros f raw x s H Hs. destruct f as [|f]; [discriminate H|]. rewrite parse_kind_S in H.
    cls_open H. subst raw x.
    next_field Hm y1 r1 H1. next_field Hm y2 r2 H2. injection Hm as <-.
    apply field_list_inv2 in H1; [|list_shape]. destruct H1 as [am [-> Ham]].
    apply field_list_inv2 in H2; [|list_shape]. destruct H2 as [at_ [-> Hat]].
    cbn [f_name f_kind f_required] in *.
    rewrite field_raw_jget in Ham, Hat. cbn [f_alias] in Ham, Hat.
    unfold host_req in Hs.
    destruct (map_arr (amount resolve sigma) (jget "amounts" (JObj ms))) as [ams|e] eqn:Eam; cbn [bind] in Hs; [|discriminate Hs].
    destruct (map_arr (attribute resolve sigma) (jget "attributes" (JObj ms))) as [ats|e] eqn:Eat; cbn [bind] in Hs; [|discriminate Hs].
    injection Hs as <-. eapply good_dn; [dn_tac|keys_tac|].
    intros k v Hin _. destruct Hin as [E|[E|[]]]; injection E as <- <-.
    - exact (map_arr_models_good f' _ (amount resolve sigma) _ am _ ams (amount_good f') Ham Eam).
    - exact (map_arr_models_good f' _ (attribute resolve sigma) _ at_ _ ats (attribute_good f') Hat Eat).
  Qed.
End SpecGood.

(* ------------------------------------------------------------------ job parameters, steps, the root *)
Section SpecGoodRoot.
  Variable classify : N -> cclass.
  Variable resolve : symtab -> str -> outcome str.
  Variable sigma : symtab.
  Notation pk := (parse_kind G classify pre_hook (post_hook classify)).
  Notation pc := (parse_cls G classify pre_hook (post_hook classify)).

  Ltac list_shape := eexists; eexists; reflexivity.

  (* ---- one job parameter definition ---- *)
  Lemma param_view_of : forall f it m, pk f kdisc_params it = Ok m ->
    param_view resolve sigma it m /\ exists ts, jget "type" it = JStr ts.
  Proof.
    intros f it m H. destruct f as [|f]; [discriminate H|]. unfold kdisc_params in H.
    rewrite parse_kind_S in H. unfold disc_res in H.
    destruct it as [| | | | | |ims]; try discriminate H.
    destruct (assoc (str_of_string "type") ims) as [[| | | |ts| |]|] eqn:Ea; try discriminate H.
    destruct (List.find _ _) as [[k' c']|] eqn:Ef; [|discriminate H].
    apply find_some in Ef. destruct Ef as [Hin _]. split.
    - destruct Hin as [E|[E|[E|[E|[]]]]]; injection E as <- <-.
      + exact (param_view_Int classify resolve sigma _ _ _ H).
      + exact (param_view_Float classify resolve sigma _ _ _ H).
      + exact (param_view_String classify resolve sigma _ _ _ H).
      + exact (param_view_Path classify resolve sigma _ _ _ H).
    - exists ts. cbn [jget]. rewrite Ea. reflexivity.
  Qed.

  Lemma job_param_good : forall f it m k s, pk f kdisc_params it = Ok m -> job_param sigma it = Ok (k, s) ->
    k = name_of m /\ good s /\ s <> JNull.
  Proof.
    intros f it m k s Hp H. destruct (param_view_of f it m Hp) as [[n [t [d [Hkn [Hn [Hlt [Ht [Hld [Hd _]]]]]]]]] [ts Hty]].
    assert (Hname : name_of m = n).
    { unfold name_of. unfold key_of in Hkn. destruct m as [ | | | | | | | | |c fs]; try discriminate Hkn.
      cbn [model_fields]. unfold fget. destruct (mfield "name" fs); try discriminate Hkn; injection Hkn as <-; reflexivity. }
    unfold job_param in H. rewrite Hn in H. destruct (st_lookup sigma ($"RawParam." ++ n)) as [v|]; [|discriminate H].
    injection H as <- <-. split; [symmetry; exact Hname|]. split; [|discriminate].
    rewrite Hty. cbn [app]. eapply good_dn; [dn_tac|keys_tac|].
    intros k v0 Hin _. destruct Hin as [E|[E|[E|[]]]]; injection E as <- <-; apply good_scalar; try reflexivity.
    rewrite <- Hd. exact (leaf_tobj_scalarj G d Hld).
  Qed.

  Lemma job_params_good : forall f its l ps,
    Forall2 (fun it m => pk f kdisc_params it = Ok m) its l -> mapM (job_param sigma) its = Ok ps ->
    map fst ps = map name_of l /\ forall kv, In kv ps -> good (snd kv) /\ snd kv <> JNull.
  Proof.
    intros f its l ps HF. revert ps. induction HF as [|it m r r' Hp _ IH]; intros ps H.
    - injection H as <-. split; [reflexivity|intros kv []].
    - apply mapM_cons_ok in H. destruct H as [[k s] [ys [Hy [Hr ->]]]]. destruct (IH ys Hr) as [IH1 IH2].
      destruct (job_param_good f it m k s Hp Hy) as [-> [Hg Hnn]].
      cbn [map fst]. rewrite IH1. split; [reflexivity|]. intros kv [<-|Hkv]; [split; assumption|exact (IH2 kv Hkv)].
  Qed.

  (* ---- one step ---- *)
  Theorem step_good : forall f it x s,
    pk f (KModel "StepTemplate") it = Ok x -> distinct_keys it = true -> step resolve sigma it = Ok s -> good s.
  Proof.
    intros f it x s H Hdk Hs. destruct f as [|f]; [discriminate H|]. rewrite parse_kind_S in H.
    cls_open H. subst it x. subst f. rename f' into f.
    next_field Hm y1 r1 H1. next_field Hm y2 r2 H2. next_field Hm y3 r3 H3. next_field Hm y4 r4 H4.
    next_field Hm y5 r5 H5. next_field Hm y6 r6 H6. next_field Hm y7 r7 H7. injection Hm as <-.
    apply field_single_inv in H1; [|reflexivity]. destruct H1 as [n [-> Hn]].
    apply field_single_inv in H2; [|reflexivity]. destruct H2 as [d [-> Hd]].
    apply field_single_inv in H3; [|reflexivity]. destruct H3 as [sc [-> Hsc]].
    apply field_single_inv in H5; [|reflexivity]. destruct H5 as [ps [-> Hpsf]].
    apply field_single_inv in H6; [|reflexivity]. destruct H6 as [hr [-> Hhrf]].
    cbn [f_name f_kind f_required] in *.
    rewrite field_raw_jget in Hn, Hd, Hsc, Hpsf, Hhrf. cbn [f_alias] in Hn, Hd, Hsc, Hpsf, Hhrf.
    set (st := JObj ms) in *.
    destruct Hn as [[_ [_ Hreq]]|[Hnn Hnp]]; [discriminate Hreq|].
    destruct Hsc as [[_ [_ Hreq]]|[Hscn _]]; [discriminate Hreq|].
    pose proof (pk_flat_scalarj classify f _ _ _ Hnp eq_refl) as Sn.
    pose proof (single_flat classify f _ _ d Hd eq_refl) as Sd.
    unfold step in Hs.
    destruct (param_space resolve sigma (jget "parameterSpace" st)) as [ps'|e] eqn:Eps; cbn [bind] in Hs; [|discriminate Hs].
    destruct (host_req resolve sigma (jget "hostRequirements" st)) as [hr'|e] eqn:Ehr; cbn [bind] in Hs; [|discriminate Hs].
    injection Hs as <-. cbn [app]. eapply good_dn; [dn_tac|keys_tac|].
    intros k v Hin _. destruct Hin as [E|[E|[E|[E|[E|[E|[E|[]]]]]]]]; injection E as <- <-.
    - apply good_scalar. exact Sn.
    - exact (good_same _ (dk_jget "script" st Hdk)).
    - apply good_scalar. exact Sd.
    - exact (good_same _ (dk_jget "stepEnvironments" st Hdk)).
    - destruct Hpsf as [[E _]|[_ Hp]].
      + rewrite E in Eps. cbn [param_space] in Eps. injection Eps as <-. apply good_scalar. reflexivity.
      + exact (proj1 (param_space_good classify resolve sigma f _ ps ps' Hp Eps)).
    - destruct Hhrf as [[E _]|[_ Hp]].
      + rewrite E in Ehr. cbn [host_req] in Ehr. injection Ehr as <-. apply good_scalar. reflexivity.
      + exact (host_req_good classify resolve sigma f _ hr hr' Hp Ehr).
    - exact (good_same _ (dk_jget "dependencies" st Hdk)).
  Qed.

  Lemma steps_good : forall f its l ss,
    Forall2 (fun it m => pk f (KModel "StepTemplate") it = Ok m) its l -> distinct_keys (JArr its) = true ->
    mapM (step resolve sigma) its = Ok ss -> good (JArr ss).
  Proof.
    intros f its l ss HF Hdk Hm. apply good_arr. intros s Hs. destruct (mapM_in_ok _ _ _ _ _ Hm s Hs) as [it [Hit Hst]].
    pose proof (dk_item its it Hdk Hit) as Hd. clear - HF Hit Hst Hd.
    induction HF as [|it' m r r' Hp _ IH]; [destruct Hit|].
    destruct Hit as [->|Hit]; [exact (step_good f it m s Hp Hd Hst)|exact (IH Hit)].
  Qed.

  (* ---- the template root ---- *)
  Theorem expected_job_good : forall j t s,
    decode_job classify j = Ok t -> distinct_keys j = true -> expected_job resolve sigma j = Ok s -> good s.
  Proof.
    intros j t s H Hdk Hs. unfold decode_job in H.
    destruct j as [| | | | | |ms]; try discriminate H.
    destruct (version_ok Generated.job_template_versions (JObj ms)); [|discriminate H].
    unfold parse_template, parse_root in H.
    cls_open H. injection Ev as <-. subst t.
    next_field Hm y1 r1 H1. next_field Hm y2 r2 H2. next_field Hm y3 r3 H3. next_field Hm y4 r4 H4.
    next_field Hm y5 r5 H5. next_field Hm y6 r6 H6. next_field Hm y7 r7 H7. injection Hm as <-.
    apply field_any_inv in H1. destruct H1 as [sv ->].
    apply format_field_inv in H2. destruct H2 as [s0 [-> [Hs0 _]]].
    apply field_list_inv2 in H3; [|list_shape]. destruct H3 as [st [-> Hst]].
    apply field_single_inv in H4; [|reflexivity]. destruct H4 as [d [-> Hd]].
    apply field_list_inv2 in H5; [|list_shape]. destruct H5 as [pd [-> Hpd]].
    apply field_any_inv in H6. destruct H6 as [je ->].
    apply field_any_inv in H7. destruct H7 as [ss ->].
    cbn [f_name f_kind f_required] in *.
    rewrite field_raw_jget in Hst, Hd, Hpd. cbn [f_alias] in Hst, Hd, Hpd.
    set (j := JObj ms) in *.
    assert (Hname : jget "name" j = JStr s0) by (cbn [jget j]; rewrite Hs0; reflexivity).
    destruct Hst as [[_ [_ Hreq]]|[sitems [l [Esteps [-> HFst]]]]]; [discriminate Hreq|].
    pose proof (single_flat classify f' _ _ d Hd eq_refl) as Sd.
    (* the parameters object *)
    assert (Hparams : forall ps, match jget "parameterDefinitions" j with
                                 | JNull => Ok JNull
                                 | pdj => do ps <- mapM (CreateJobSpec.job_param sigma) (CreateJobSpec.items pdj); Ok (JObj ps)
                                 end = Ok ps -> good ps).
    { intros ps Hps. destruct Hpd as [[E _]|[pitems [pl [Er [-> HFp]]]]].
      - rewrite E in Hps. injection Hps as <-. apply good_scalar. reflexivity.
      - rewrite Er in Hps. cbn [CreateJobSpec.items] in Hps.
        destruct (mapM (job_param sigma) pitems) as [pps|e] eqn:Ep; cbn [bind] in Hps; [|discriminate Hps].
        injection Hps as <-.
        assert (Hnd : nodupb (map name_of pl) = true).
        { change (post_hook classify "JobTemplate" j _) with
            (job_template_ok classify j
               [("specificationVersion", sv); ("name", MFmt s0); ("steps", MList l); ("description", d);
                ("parameterDefinitions", MList pl); ("jobEnvironments", je); ("schemaStr", ss)]) in Hpost.
          unfold job_template_ok in Hpost. repeat (apply andb_true_iff in Hpost; destruct Hpost as [Hpost ?]).
          match goal with HU : unique_names (fget "parameterDefinitions" _) = true |- _ => exact HU end. }
        destruct (job_params_good f' pitems pl pps HFp Ep) as [Hk Hv].
        apply good_obj; [rewrite Hk; apply nodupb_NoDup; exact Hnd|exact Hv]. }
    unfold expected_job in Hs. rewrite Hname in Hs. cbn [CreateJobSpec.subst] in Hs.
    destruct (resolve sigma s0) as [n|e]; cbn [bind] in Hs; [|discriminate Hs].
    rewrite Esteps in Hs. cbn [CreateJobSpec.items] in Hs.
    destruct (mapM (step resolve sigma) sitems) as [sts|e] eqn:Est; cbn [bind] in Hs; [|discriminate Hs].
    match type of Hs with (do params <- ?P; _) = _ => destruct P as [params|e] eqn:Epar; cbn [bind] in Hs; [|discriminate Hs] end.
    injection Hs as <-. cbn [app]. eapply good_dn; [dn_tac|keys_tac|].
    intros k v Hin _. destruct Hin as [E|[E|[E|[E|[E|[]]]]]]; injection E as <- <-.
    - apply good_scalar. reflexivity.
    - apply (steps_good f' sitems l sts HFst); [|exact Est]. rewrite <- Esteps. exact (dk_jget "steps" j Hdk).
    - apply good_scalar. exact Sd.
    - exact (Hparams params Epar).
    - exact (good_same _ (dk_jget "jobEnvironments" j Hdk)).
  Qed.
End SpecGoodRoot.
