(* Extraction of the composed create_job model (C06, CreateJobFull.v).  ExtrOcamlBasic only. *)
From Coq Require Import Extraction ExtrOcamlBasic List NArith ZArith String.
Require Import OJD.Base OJD.Lexer OJD.Json OJD.Schema OJD.Generated OJD.Numerals OJD.CreateJob OJD.Parse OJD.Validators
               OJD.Accept OJD.Export OJD.JobParams OJD.Merge OJD.Paths OJD.CreateJobFull.
Extraction Language OCaml.
Local Open Scope string_scope.
(* the definitions of a document, as create_job's model reads them out of the decoded template *)
Definition defs_of_job_doc (classify : N -> cclass) (j : json) : outcome (list pdef) :=
  do t <- decode_job classify j; defs_of_template t.
Definition defs_of_env_doc (classify : N -> cclass) (j : json) : outcome (list pdef) :=
  do t <- decode_env classify j; defs_of_template t.
Extraction "Model.ml" exn_eqb ascii_ok ascii_class Z.add Z.mul Z.opp
  create_job_docs create_job_full defs_of_job_doc defs_of_env_doc decode_job decode_env sumZ.
