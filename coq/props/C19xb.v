(* props/C19xb.v — C19, "changing blanks inside '{{ }}' leaves the verdict unchanged and changes the
   Job only by ...": ONE theorem for a whole format string and for everything that is done with it
   (props/C19.v has the token-level facts and the decomposition; this file closes the gap).

   Models: FormatStr.v ([mk] = FormatString(value), [expressions], [resolve], [validate_refs]),
   FsRefs.v ([fs_refs]), Lexer.v ([lex] = TokenStream), ScopeWalk.v ([prevalidate]).
   Relation: Reblank.v ([reblank], [blank_step], [blank_edits], [canon]).
   Proofs: ReblankProofs.v, ReblankCanon.v, ReblankWalk.v (on top of FormatStrProofs.v, LexerProofs.v,
   RenameProofs.v).

   [reblank classify s s']: s and s' are read span by span — a literal segment l, the FIRST "{{"
   after it ([lit_seg l]), an expression text up to the NEXT "}}" ([span_text e], [span_text e']) —
   with identical literal segments and, for each span, [lex classify e = lex classify e'] (the two
   texts are blank-separated spellings of the same token list); after the last changed span the
   two strings are equal.  Accepted and rejected strings alike.

   What is NOT true of the model (and of the code), and why the side conditions are there:
     - [lex e = lex e'] alone, for an arbitrary split l ++ "{{" ++ e ++ "}}" ++ r, is not enough:
       see [C19_reblank_span_text_needed] ("{{a}}}" is accepted: reference a, literal "}");
     - deleting a blank is not always harmless when the text contains '}': "{{x} }}" is rejected,
       "{{x}}}" is accepted — the deletion moves the END of the span
       ([C19_reblank_edit_needs_no_rbrace]).  Hence [~ In rbrace e] in [C19_reblank_edit]. *)
From Coq Require Import List NArith ZArith Bool String.
Import ListNotations.
Require Import OJD.Base OJD.Lexer OJD.LexerProofs OJD.Json OJD.Schema OJD.Generated OJD.FormatStr
               OJD.FormatStrSpec OJD.FormatStrProofs OJD.FsRefs OJD.ScopeWalk OJD.RenameProofs
               OJD.Reblank OJD.ReblankProofs OJD.ReblankCanon OJD.ReblankWalk.
Local Open Scope string_scope.
Local Open Scope list_scope.

(* ------------------------------------------------------------------ the format string *)

Theorem C19_reblank_fs : forall classify, ascii_ok classify = true -> forall s s', reblank classify s s' ->
  (* accepted together *)            is_ok (mk classify s) = is_ok (mk classify s') /\
  (* the same referenced names *)    fs_refs classify s = fs_refs classify s' /\
  (* the same check verdict *)       (forall f f' symbols, mk classify s = Ok f -> mk classify s' = Ok f' ->
                                         validate_refs symbols f = validate_refs symbols f') /\
  (* the same resolved text *)       (forall f f' sigma, mk classify s = Ok f -> mk classify s' = Ok f' ->
                                         resolve sigma f = resolve sigma f').
Proof. exact reblank_fs. Qed.
Print Assumptions C19_reblank_fs.

(* rejected together with the same exception *)
Theorem C19_reblank_raise : forall classify, ascii_ok classify = true -> forall s s' e,
  reblank classify s s' -> mk classify s = Raise e -> mk classify s' = Raise e.
Proof. exact reblank_raise. Qed.
Print Assumptions C19_reblank_raise.

(* the FormatString value changes only by the spans and the texts of its references: piece by
   piece the same literals and the same reference names *)
Theorem C19_reblank_value : forall classify, ascii_ok classify = true -> forall s s', reblank classify s s' ->
  forall f f', mk classify s = Ok f -> mk classify s' = Ok f' -> Forall2 item_sim (items f) (items f').
Proof. exact reblank_items. Qed.
Print Assumptions C19_reblank_value.

Theorem C19_reblank_sym : forall classify s s', reblank classify s s' -> reblank classify s' s.
Proof. exact reblank_sym. Qed.
Print Assumptions C19_reblank_sym.

Theorem C19_reblank_trans : forall classify s1 s2 s3,
  reblank classify s1 s2 -> reblank classify s2 s3 -> reblank classify s1 s3.
Proof. intros classify s1 s2 s3 R1 R2. exact (reblank_trans classify s1 s2 R1 s3 R2). Qed.
Print Assumptions C19_reblank_trans.

(* ------------------------------------------------------------------ elementary changes of blanks *)

(* [blank_step] (Reblank.v): delete a blank at either end of the text, before or after a dot, or
   next to another blank; replace a blank by another blank.  [blank_edits]: any sequence of such
   steps, each taken forwards (deletion) or backwards (insertion).  They keep the token list
   (C19_blanks, C19_blanks_around_punct) and cannot create or remove a '}' *)
Theorem C19_blank_edits : forall classify, ascii_ok classify = true -> forall e e',
  ~ In rbrace e -> blank_edits classify e e' ->
  span_text e /\ span_text e' /\ lex classify e = lex classify e'.
Proof. exact blank_edits_span. Qed.
Print Assumptions C19_blank_edits.

(* so: re-spelling the blanks of one expression text (that contains no '}') is a re-blanking *)
Theorem C19_reblank_edit : forall classify, ascii_ok classify = true -> forall l e e' r r',
  lit_seg l -> ~ In rbrace e -> blank_edits classify e e' -> reblank classify r r' ->
  reblank classify (l ++ open2 ++ e ++ close2 ++ r) (l ++ open2 ++ e' ++ close2 ++ r').
Proof. exact reblank_edit. Qed.
Print Assumptions C19_reblank_edit.

(* ------------------------------------------------------------------ a canonical spelling *)

(* [canon classify s]: every reference of an accepted s rewritten "{{name}}" without any blank
   (a rejected s is left alone).  It is a re-blanking of s for EVERY s ... *)
Theorem C19_reblank_canon : forall classify, ascii_ok classify = true ->
  forall s, reblank classify s (canon classify s).
Proof. exact reblank_canon. Qed.
Print Assumptions C19_reblank_canon.

(* ... and re-blanked accepted strings have one and the same canonical spelling *)
Theorem C19_reblank_canon_eq : forall classify, ascii_ok classify = true -> forall s s',
  reblank classify s s' -> is_ok (mk classify s) = true -> canon classify s = canon classify s'.
Proof. exact reblank_canon_eq. Qed.
Print Assumptions C19_reblank_canon_eq.

(* ... so that, for accepted strings, [reblank] is exactly "same canonical spelling" (a decidable
   test: both sides are computable) *)
Theorem C19_reblank_iff_canon : forall classify, ascii_ok classify = true -> forall s s',
  is_ok (mk classify s) = true -> is_ok (mk classify s') = true ->
  (reblank classify s s' <-> canon classify s = canon classify s').
Proof. exact reblank_iff_canon. Qed.
Print Assumptions C19_reblank_iff_canon.

(* ------------------------------------------------------------------ the reference walker *)

(* [reblank_job rs j] / [reblank_env_template rs j]: the document with the string at every
   format-string site mapped through rs, everything else (declared names included) unchanged.
   The walk reads those strings only through the front end: *)
Theorem C19_walker_front_end : forall (rs : str -> str) (refs refs' : str -> option (list str)) (j : json),
  (forall s, In s (jstrings j) -> refs' (rs s) = refs s) ->
  prevalidate Generated.schema refs' "JobTemplate" (reblank_job rs j)
  = prevalidate Generated.schema refs "JobTemplate" j /\
  prevalidate Generated.schema refs' "EnvironmentTemplate" (reblank_env_template rs j)
  = prevalidate Generated.schema refs "EnvironmentTemplate" j.
Proof. exact walker_front_end. Qed.
Print Assumptions C19_walker_front_end.

(* hence a document whose format strings are re-blanked gets the SAME list of reference errors
   (same locations, same names, same order) *)
Theorem C19_reblank_walker : forall classify, ascii_ok classify = true ->
  forall (rs : str -> str) (j : json),
  (forall s, In s (jstrings j) -> reblank classify s (rs s)) ->
  prevalidate Generated.schema (fs_refs classify) "JobTemplate" (reblank_job rs j)
  = prevalidate Generated.schema (fs_refs classify) "JobTemplate" j /\
  prevalidate Generated.schema (fs_refs classify) "EnvironmentTemplate" (reblank_env_template rs j)
  = prevalidate Generated.schema (fs_refs classify) "EnvironmentTemplate" j.
Proof. exact reblank_walker. Qed.
Print Assumptions C19_reblank_walker.

(* no hypothesis on the document: strip every blank inside every '{{ }}' *)
Theorem C19_reblank_walker_canon : forall classify, ascii_ok classify = true -> forall j : json,
  prevalidate Generated.schema (fs_refs classify) "JobTemplate" (reblank_job (canon classify) j)
  = prevalidate Generated.schema (fs_refs classify) "JobTemplate" j /\
  prevalidate Generated.schema (fs_refs classify) "EnvironmentTemplate" (reblank_env_template (canon classify) j)
  = prevalidate Generated.schema (fs_refs classify) "EnvironmentTemplate" j.
Proof. exact reblank_walker_canon. Qed.
Print Assumptions C19_reblank_walker_canon.

(* ------------------------------------------------------------------ non-vacuity *)
Local Open Scope N_scope.

Definition ex_s1 : str := $"a {{Param.X}} b {{  Task . Param .  Y}}".
Definition ex_s2 : str := $"a {{ Param . X }} b {{Task.Param.Y}}".
Definition ex_sigma : symtab := [($"Param.X", $"1"); ($"Task.Param.Y", $"two")].

Lemma ascii_ok_ascii : ascii_ok ascii_class = true.
Proof. vm_compute. reflexivity. Qed.

(* "Param.X" -> " Param . X " by four insertions: at the front, at the end, before and after the dot *)
Example C19_blank_edits_nonvacuous : blank_edits ascii_class $"Param.X" $" Param . X ".
Proof.
  apply (BE_ins ascii_class _ $" Param.X" _ (BS_lead ascii_class 32 $"Param.X" eq_refl)).
  apply (BE_ins ascii_class _ $" Param.X " _ (BS_trail ascii_class 32 $" Param.X" eq_refl)).
  apply (BE_ins ascii_class _ $" Param .X " _ (BS_before_dot ascii_class 32 46 $" Param" $"X " eq_refl eq_refl)).
  apply (BE_ins ascii_class _ $" Param . X " _ (BS_after_dot ascii_class 32 46 $" Param " $"X " eq_refl eq_refl)).
  apply BE_refl.
Qed.

(* the first span through C19_reblank_edit, the second directly from the token lists *)
Example C19_reblank_nonvacuous : reblank ascii_class ex_s1 ex_s2.
Proof.
  change ex_s1 with ($"a " ++ open2 ++ $"Param.X" ++ close2 ++
                     ($" b " ++ open2 ++ $"  Task . Param .  Y" ++ close2 ++ [])).
  change ex_s2 with ($"a " ++ open2 ++ $" Param . X " ++ close2 ++
                     ($" b " ++ open2 ++ $"Task.Param.Y" ++ close2 ++ [])).
  apply (C19_reblank_edit ascii_class ascii_ok_ascii).
  - apply lit_seg_check. vm_compute. reflexivity.
  - vm_compute. intros H. repeat (destruct H as [H|H]; [discriminate H|]). exact H.
  - exact C19_blank_edits_nonvacuous.
  - apply RB_span.
    + apply lit_seg_check. vm_compute. reflexivity.
    + apply span_text_check. vm_compute. reflexivity.
    + apply span_text_check. vm_compute. reflexivity.
    + vm_compute. reflexivity.
    + apply RB_same.
Qed.

Example C19_reblank_fs_nonvacuous :
  reblank ascii_class ex_s1 ex_s2 /\ ex_s1 <> ex_s2 /\
  is_ok (mk ascii_class ex_s1) = true /\ is_ok (mk ascii_class ex_s2) = true /\
  fs_refs ascii_class ex_s1 = Some [$"Param.X"; $"Task.Param.Y"] /\
  fs_refs ascii_class ex_s2 = Some [$"Param.X"; $"Task.Param.Y"] /\
  (* the spans differ ... *)
  option_map expressions (match mk ascii_class ex_s1 with Ok f => Some f | Raise _ => None end)
    = Some [($"Param.X", 2%nat, 13%nat); ($"Task.Param.Y", 16%nat, 39%nat)] /\
  option_map expressions (match mk ascii_class ex_s2 with Ok f => Some f | Raise _ => None end)
    = Some [($"Param.X", 2%nat, 17%nat); ($"Task.Param.Y", 20%nat, 36%nat)] /\
  (* ... the resolved text does not *)
  (do f <- mk ascii_class ex_s1; resolve ex_sigma f) = Ok $"a 1 b two" /\
  (do f <- mk ascii_class ex_s2; resolve ex_sigma f) = Ok $"a 1 b two" /\
  (* the check against a symbol set that lacks Task.Param.Y *)
  (do f <- mk ascii_class ex_s1; Ok (validate_refs [$"Param.X"] f)) = Ok [$"Task.Param.Y"] /\
  (do f <- mk ascii_class ex_s2; Ok (validate_refs [$"Param.X"] f)) = Ok [$"Task.Param.Y"] /\
  canon ascii_class ex_s1 = $"a {{Param.X}} b {{Task.Param.Y}}" /\
  canon ascii_class ex_s2 = $"a {{Param.X}} b {{Task.Param.Y}}".
Proof.
  split; [exact C19_reblank_nonvacuous|]. split; [vm_compute; discriminate|].
  repeat split; vm_compute; reflexivity.
Qed.

(* the conclusions for this pair, obtained FROM the theorem *)
Example C19_reblank_fs_instance :
  fs_refs ascii_class ex_s1 = fs_refs ascii_class ex_s2 /\
  canon ascii_class ex_s1 = canon ascii_class ex_s2.
Proof.
  split.
  - exact (proj1 (proj2 (C19_reblank_fs ascii_class ascii_ok_ascii _ _ C19_reblank_nonvacuous))).
  - apply (C19_reblank_canon_eq ascii_class ascii_ok_ascii _ _ C19_reblank_nonvacuous).
    vm_compute. reflexivity.
Qed.

(* rejected strings are related too (the tail "{{" is unbalanced in both), and rejected together *)
Example C19_reblank_rejected_nonvacuous :
  reblank ascii_class $"{{ A }} {{" $"{{A}} {{" /\
  mk ascii_class $"{{ A }} {{" = Raise FormatStringError /\ mk ascii_class $"{{A}} {{" = Raise FormatStringError.
Proof.
  split; [|split; vm_compute; reflexivity].
  change ($"{{ A }} {{") with ([] ++ open2 ++ $" A " ++ close2 ++ $" {{").
  change ($"{{A}} {{") with ([] ++ open2 ++ $"A" ++ close2 ++ $" {{").
  apply RB_span.
  - apply lit_seg_check. vm_compute. reflexivity.
  - apply span_text_check. vm_compute. reflexivity.
  - apply span_text_check. vm_compute. reflexivity.
  - vm_compute. reflexivity.
  - apply RB_same.
Qed.

(* a blank INSIDE a name is NOT a re-blanking: "{{Pa ram.X}}" and "{{Param.X}}" are not related
   (different token lists; the first is rejected, the second accepted) *)
Example C19_reblank_inside_name_unrelated :
  ~ reblank ascii_class $"{{Pa ram.X}}" $"{{Param.X}}" /\
  lex ascii_class $"Pa ram.X" <> lex ascii_class $"Param.X" /\
  is_ok (mk ascii_class $"{{Pa ram.X}}") = false /\ is_ok (mk ascii_class $"{{Param.X}}") = true.
Proof.
  split.
  - intros R. pose proof (proj1 (C19_reblank_fs ascii_class ascii_ok_ascii _ _ R)) as H.
    vm_compute in H. discriminate H.
  - split; [vm_compute; discriminate|]. split; vm_compute; reflexivity.
Qed.

(* [span_text] cannot be dropped from RB_span: equal lexer results for SOME split of the two
   strings do not make them agree.  l = r = "", e = "a}", e' = "@": both texts fail to lex, but the
   span of "{{a}}}" is "a" (then the literal "}"), and it is accepted; "{{@}}" is not. *)
Example C19_reblank_span_text_needed :
  exists l e e' r, lit_seg l /\ lex ascii_class e = lex ascii_class e' /\
    is_ok (mk ascii_class (l ++ open2 ++ e ++ close2 ++ r)) = true /\
    is_ok (mk ascii_class (l ++ open2 ++ e' ++ close2 ++ r)) = false /\
    ~ span_text e.
Proof.
  exists [], $"a}", $"@", []. split; [apply lit_seg_check; vm_compute; reflexivity|].
  split; [vm_compute; reflexivity|]. split; [vm_compute; reflexivity|]. split; [vm_compute; reflexivity|].
  intros H. apply (H $"a" []). vm_compute. reflexivity.
Qed.

(* [~ In rbrace e] cannot be dropped from C19_reblank_edit: deleting the blank of "{{x} }}" moves
   the end of the span — rejected before, accepted after (reference x, literal "}") *)
Example C19_reblank_edit_needs_no_rbrace :
  blank_step ascii_class $"x} " $"x}" /\
  is_ok (mk ascii_class ([] ++ open2 ++ $"x} " ++ close2 ++ [])) = false /\
  is_ok (mk ascii_class ([] ++ open2 ++ $"x}" ++ close2 ++ [])) = true.
Proof.
  split; [exact (BS_trail ascii_class 32 $"x}" eq_refl)|]. split; vm_compute; reflexivity.
Qed.

(* ---- the walker: a template with re-blanked format strings *)
Definition jsb (x : string) : json := JStr (str_of_string x).
Definition job (l : list (string * json)) : json := JObj (map (fun kv => (str_of_string (fst kv), snd kv)) l).

Definition ex_doc (name arg1 arg2 : string) : json :=
  job [("specificationVersion", jsb "jobtemplate-2023-09");
       ("name", jsb name);
       ("parameterDefinitions", JArr [job [("name", jsb "Frames"); ("type", jsb "INT")]]);
       ("steps",
        JArr [job [("name", jsb "A");
                   ("script",
                    job [("actions",
                          job [("onRun", job [("command", jsb "run");
                                              ("args", JArr [jsb arg1; jsb arg2])])])])]])].

Definition ex_j  : json := ex_doc "Job {{  Param . Frames }}" "{{ Task.Param.Y }}" "{{Param .Nope}}".
Definition ex_j' : json := ex_doc "Job {{Param.Frames}}" "{{Task.Param.Y}}" "{{Param.Nope}}".

Example C19_reblank_walker_nonvacuous :
  (* stripping the blanks changes the document ... *)
  reblank_job (canon ascii_class) ex_j = ex_j' /\ ex_j <> ex_j' /\
  (* ... and the walker reports the same two sites with the same names *)
  prevalidate Generated.schema (fs_refs ascii_class) "JobTemplate" ex_j
  = [ERef [LKey $"steps"; LIdx 0; LKey $"script"; LKey $"actions"; LKey $"onRun"; LKey $"args"; LIdx 0] $"Task.Param.Y";
     ERef [LKey $"steps"; LIdx 0; LKey $"script"; LKey $"actions"; LKey $"onRun"; LKey $"args"; LIdx 1] $"Param.Nope"] /\
  prevalidate Generated.schema (fs_refs ascii_class) "JobTemplate" ex_j'
  = prevalidate Generated.schema (fs_refs ascii_class) "JobTemplate" ex_j.
Proof.
  split; [vm_compute; reflexivity|]. split; [vm_compute; discriminate|]. split; [vm_compute; reflexivity|].
  assert (E : reblank_job (canon ascii_class) ex_j = ex_j') by (vm_compute; reflexivity).
  rewrite <- E. exact (proj1 (C19_reblank_walker_canon ascii_class ascii_ok_ascii ex_j)).
Qed.
