(* props/C14.v — Combination expressions: exact grammar, and size rules enforced on Jobs.
   Statements only; every proof is [exact <lemma of CombProofs.v>]. *)
From Coq Require Import List NArith ZArith Bool Permutation.
Import ListNotations.
Require Import OJD.Base OJD.Lexer OJD.Generated OJD.Comb OJD.CombSpec OJD.CombProofs.

(* 1. The LL(1) parser of the code accepts exactly the token lists that derive from
        expr := elem ('*' elem)* ;  elem := identifier | '(' expr (',' expr)+ ')'
      and returns the tree of the derivation; every failure is in the ExpressionError family
      (TokenError is a subclass) — in particular the model's fuel is never exhausted
      (is_expression_error RuntimeError = false).  All token lists, any length. *)
Theorem C14_grammar : forall ts : list tok,
  (forall t, parse ts = Ok t <-> Expr ts t) /\
  (forall e, parse ts = Raise e -> is_expression_error e = true).
Proof.
  exact (fun ts => conj (parse_iff_Expr ts) (parse_error_family ts)).
Qed.
Print Assumptions C14_grammar.

(* the grammar is unambiguous: a token list has at most one tree *)
Theorem C14_grammar_unambiguous : forall ts t t', Expr ts t -> Expr ts t' -> t = t'.
Proof. exact Expr_deterministic. Qed.
Print Assumptions C14_grammar_unambiguous.

(* 2. Printing a parsed tree (__str__, at token level) and parsing it again gives the same
      tree; parsed trees are canonical, and every canonical tree is a fixed point. *)
Theorem C14_print_parse :
  (forall ts t, parse ts = Ok t -> Canonical t /\ parse (to_tokens t) = Ok t) /\
  (forall t, Canonical t -> parse (to_tokens t) = Ok t).
Proof. exact (conj parse_print_parse print_parse_canonical). Qed.
Print Assumptions C14_print_parse.

(* 3. Template validation (as coded now: [pinned_comb_accounting = false]) accepts the
      combination string s of a step with (distinct) task parameters [params] exactly when s is
      at most 1280 characters, consists of the field's characters, lexes to a token list that
      derives from the grammar, and the tree names each declared parameter exactly once.
      Any character classification [classify] (the lexer is parametrised by it). *)
Theorem C14_template_accept : forall classify params s,
  NoDup params ->
  (template_check false classify params s = true <->
   length s <= max_len /\ charset s /\
   exists ts t, lex_for classify comb_kinds s = Ok ts /\ Expr ts t /\ each_once params t).
Proof. exact template_accept_iff. Qed.
Print Assumptions C14_template_accept.

(* 4. _validate_expr_tree returns n exactly when every association of the tree has operands
      of equal size and n is the size of the space; on a parsed (canonical) tree that is not
      balanced it raises ExpressionError, which create_job turns into DecodeValidationError. *)
Theorem C14_dims : forall lens t,
  covered lens t ->
  (forall n, dims lens t = Ok n <-> assoc_balanced lens t /\ n = tree_len lens t) /\
  (Canonical t -> ~ assoc_balanced lens t ->
   dims lens t = Raise ExpressionError /\ job_dims lens t = Raise DecodeValidationError).
Proof.
  exact (fun lens t H => conj (dims_ok_iff lens t H) (dims_unbalanced lens t H)).
Qed.
Print Assumptions C14_dims.

(* "A Job is created only if ... otherwise create_job raises DecodeValidationError":
   the two cases are exhaustive for every parsed tree whose identifiers all have a range. *)
Theorem C14_create_job : forall lens t,
  covered lens t -> Canonical t ->
  (assoc_balanced lens t /\ job_dims lens t = Ok (tree_len lens t)) \/
  (~ assoc_balanced lens t /\ job_dims lens t = Raise DecodeValidationError).
Proof. exact dims_decides. Qed.
Print Assumptions C14_create_job.

(* Regression documentation: the accounting of the code before commit 5fdbd84 (comparison of
   the NUMBER of distinct names) accepts "A * C" over the parameters {A, B}. *)
Theorem C14_pinned_accounting_refuted :
  exists params s,
    NoDup params /\
    template_check true ascii_class params s = true /\
    ~ (length s <= max_len /\ charset s /\
       exists ts t, lex_for ascii_class comb_kinds s = Ok ts /\ Expr ts t /\ each_once params t).
Proof. exact pinned_accounting_refuted. Qed.
Print Assumptions C14_pinned_accounting_refuted.

(* ---------- non-vacuity ---------- *)
Local Open Scope N_scope.
Definition nA : str := [65].
Definition nB : str := [66; 98].          (* "Bb" *)
Definition nC : str := [67; 95; 49].      (* "C_1" *)

(* "(A, Bb * C_1) * A": tokens, tree *)
Definition ex_ts : list tok :=
  [TLParen; TName nA; TComma; TName nB; TStar; TName nC; TRParen; TStar; TName nA].
Definition ex_t : ctree := Prod [Assoc [Id nA; Prod [Id nB; Id nC]]; Id nA].

Example C14_grammar_nonvacuous :
  parse ex_ts = Ok ex_t /\ parse [TLParen; TName nA; TRParen] = Raise ExpressionError /\
  parse [TName nA; TName nB] = Raise TokenError.
Proof. vm_compute. repeat split. Qed.

Example C14_print_parse_nonvacuous : to_tokens ex_t = ex_ts /\ parse (to_tokens ex_t) = Ok ex_t.
Proof. vm_compute. split; reflexivity. Qed.

(* "(A, Bb) * C_1" over {C_1, A, Bb} is accepted; "A * A * Bb" over {A, Bb} is not *)
Example C14_template_accept_nonvacuous :
  NoDup [nC; nA; nB] /\
  template_check false ascii_class [nC; nA; nB]
    [40; 65; 44; 32; 66; 98; 41; 32; 42; 32; 67; 95; 49] = true /\
  template_check false ascii_class [nA; nB] [65; 32; 42; 32; 65; 32; 42; 32; 66; 98] = false.
Proof.
  split; [|vm_compute; split; reflexivity].
  repeat constructor; cbn; intuition discriminate.
Qed.

Definition ex_lens (s : str) : option N :=
  lookup_len [(nA, 6); (nB, 2); (nC, 3)] s.

(* (A, Bb * C_1) with |A| = 6, |Bb| = 2, |C_1| = 3 is balanced: 6 tasks *)
Example C14_dims_nonvacuous :
  covered ex_lens (Assoc [Id nA; Prod [Id nB; Id nC]]) /\
  dims ex_lens (Assoc [Id nA; Prod [Id nB; Id nC]]) = Ok 6 /\
  dims ex_lens (Assoc [Id nA; Id nB]) = Raise ExpressionError.
Proof.
  split; [|vm_compute; split; reflexivity].
  intros s Hin. cbn in Hin.
  destruct Hin as [E|[E|[E|F]]]; try contradiction F; subst s; vm_compute; discriminate.
Qed.
