(* export_driver.ml — serves the export / round-trip model (C17). *)
open Sx
open Model
open Conv
open Convjson

let table : (int, cclass) Hashtbl.t = Hashtbl.create 64
let class_of_name = function
  | "space" -> CSpace | "namestart" -> CNameStart | "digit" -> CDigit | "udigit" -> CUDigit
  | "dot" -> CDot | "star" -> CStar | "lparen" -> CLParen | "rparen" -> CRParen
  | "comma" -> CComma | "hyphen" -> CHyphen | "colon" -> CColon | "other" -> COther
  | s -> failwith ("class " ^ s)
let classify (c : n) : cclass =
  let i = match c with N0 -> 0 | Npos p -> (match int_of_pos p with Some v -> v | None -> -1) in
  match Hashtbl.find_opt table i with
  | Some cl -> cl
  | None -> if i >= 0 && i < 128 then ascii_class c else COther

let rec mval_of_sx (x : Sx.t) : mval =
  match x with
  | A "none" -> MNone
  | L [A "b"; b] -> MBool (bool_of_sx b)
  | L [A "i"; z] -> MInt (z_of_sx z)
  | L [A "d"; m; e] -> MDec (z_of_sx m, z_of_sx e)
  | L [A "fl"; m; e] -> MFloat (z_of_sx m, z_of_sx e)
  | L (A "s" :: cps) -> MStr (List.map n_of_sx cps)
  | L (A "f" :: cps) -> MFmt (List.map n_of_sx cps)
  | L (A "l" :: items) -> MList (List.map mval_of_sx items)
  | L (A "m" :: members) -> MDict (List.map (function L [k; v] -> (str_of_sx k, mval_of_sx v) | _ -> failwith "dict member") members)
  | L (A "M" :: A cls :: fields) ->
    MModel (coqstr cls, List.map (function L [A f; v] -> (coqstr f, mval_of_sx v) | _ -> failwith "model field") fields)
  | _ -> failwith "mval_of_sx"

let sx_of_rt (o, ok) = L [sx_of_json o; sx_of_bool ok]

let handle (req : Sx.t) : Sx.t =
  match req with
  | L (A "table" :: entries) ->
    Hashtbl.reset table;
    List.iter (function L [A cp; A cl] -> Hashtbl.replace table (int_of_string cp) (class_of_name cl) | _ -> failwith "table") entries;
    L [A "table-ok"; sx_of_bool (ascii_ok classify)]
  | L [A "rt_job_template"; j] -> sx_of_outcome sx_of_rt (rt_job_template classify (json_of_sx j))
  | L [A "rt_env_template"; j] -> sx_of_outcome sx_of_rt (rt_env_template classify (json_of_sx j))
  | L [A "rtf_job_template"; j] -> sx_of_outcome (fun ((o, ok), f) -> L [sx_of_json o; sx_of_bool ok; sx_of_bool f]) (rtf_job_template classify (json_of_sx j))
  | L [A "rtf_env_template"; j] -> sx_of_outcome (fun ((o, ok), f) -> L [sx_of_json o; sx_of_bool ok; sx_of_bool f]) (rtf_env_template classify (json_of_sx j))
  | L [A "jequiv"; a; b] -> sx_of_bool (jequivb (json_of_sx a) (json_of_sx b))
  | L [A "rt_job"; v] -> sx_of_rt (rt_job classify (mval_of_sx v))
  | L [A "create_verdict"; vals; t] ->
    let vs = list_of_sx (function L [n; ty; v] -> ((str_of_sx n, str_of_sx ty), str_of_sx v) | _ -> failwith "vals") vals in
    sx_of_outcome sx_of_bool (create_job_verdict classify vs (mval_of_sx t))
  | L [A "parse_job_ok"; j] -> sx_of_outcome sx_of_bool (parse_job_ok classify (json_of_sx j))
  | _ -> failwith "unknown-request"

let () = serve handle
