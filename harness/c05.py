"""C05 — a created Job is the template with creation-time substitutions, nothing else."""
import random
import sys
from decimal import Decimal
from enum import Enum
from pathlib import Path

sys.path.insert(0, str(Path(__file__).resolve().parent))
import core  # noqa: E402
import gen_template as G  # noqa: E402

from openjd.model import (  # noqa: E402
    DecodeValidationError, ParameterValue, ParameterValueType, create_job, decode_environment_template,
    decode_job_template, model_to_object, preprocess_job_parameters,
)
from openjd.model._format_strings import FormatString  # noqa: E402
from openjd.model._types import OpenJDModel  # noqa: E402

_SRC_CHARS = "".join(sorted({c for c in Path(G.__file__).read_text() if ord(c) > 127}))


mval_sx = core.mval_sx
from_wire = core.from_wire


def values_with_refs_text(rng, doc):
    """accepted values, some containing brace / reference-looking text (must not be re-expanded)"""
    vals = G.gen_values(rng, doc)
    # a value that is EXACTLY the source text of a LATER reference of the same string (a resolver that
    # substitutes by textual search instead of by position would expand it again)
    import re as _re
    free = {p["name"] for p in doc.get("parameterDefinitions") or []
            if p["type"] == "STRING" and not any(k in p for k in ("allowedValues", "minLength", "maxLength"))}

    def strings(x, key=None):
        if isinstance(x, dict):
            for k, v in x.items():
                yield from strings(v, k)
        elif isinstance(x, list):
            for v in x:
                yield from strings(v, key)
        elif isinstance(x, str) and key in ("name", "range", "anyOf", "allOf"):
            yield x
    if free and rng.random() < 0.5:
        for s in strings({"name": doc.get("name"), "steps": [{"r": st.get("parameterSpace"), "h": st.get("hostRequirements")} for st in doc.get("steps", [])]}):
            exprs = _re.findall(r"\{\{.*?\}\}", s)
            for i, e in enumerate(exprs[:-1]):
                m = _re.fullmatch(r"\{\{\s*(?:Raw)?Param\s*\.\s*(\w+)\s*\}\}", e)
                if m and m.group(1) in free and exprs[i + 1] != e:
                    vals[m.group(1)] = exprs[i + 1]
                    break
    for p in doc.get("parameterDefinitions") or []:
        if p["type"] == "STRING" and p["name"] in vals and not any(k in p for k in ("allowedValues", "minLength", "maxLength")) and rng.random() < 0.4:
            vals[p["name"]] = rng.choice(["{{Param.Other}}", "{{ RawParam." + p["name"] + " }}", "}}{{", "a{{b", "x y", ""])
    # PATH values in a spelling pathlib would rewrite (absolute ones pass through create_job as given)
    for p in doc.get("parameterDefinitions") or []:
        if p["type"] == "PATH" and not any(k in p for k in ("allowedValues", "minLength", "maxLength")) and rng.random() < 0.4:
            vals[p["name"]] = rng.choice(["/mnt/render/out/", "/mnt//render/out", "/mnt/./render", "/a/b/../c", "//net/share", "/", "/trailing/."])
    # numbers in another spelling of the same value (int() / Decimal() read them all): the Job must carry the text
    # that was given, wherever it is substituted
    for p in doc.get("parameterDefinitions") or []:
        v = vals.get(p["name"])
        if p["type"] in ("INT", "FLOAT") and isinstance(v, str) and rng.random() < 0.35:
            m = _re.fullmatch(r"(-?)(\d+)", v.strip())
            if m:
                sign, digits = m.groups()
                forms = [sign + "00" + digits, " " + v + " ", sign + digits + ("" if len(digits) < 2 else ""), ("+" + digits) if not sign else v]
                if len(digits) >= 2:
                    forms.append(sign + digits[0] + "_" + digits[1:])
                if p["type"] == "FLOAT":
                    forms += [v + ".0", v + ".00", v + "e0", sign + digits + "E+0"]
                if digits.strip("0") == "":
                    forms.append("-0" if p["type"] == "INT" else "-0.0")
                vals[p["name"]] = rng.choice(forms)
    return vals


class C05(core.PropBase):
    id = "C05"
    component = "createjob"
    extract_file = "ExtractCreateJob.v"
    chars = _SRC_CHARS
    uses_table = True
    chunk_size = 40
    theorem_for_mismatch = "C05_meta_table / C05_trivial_closure (creation metadata) and model = implementation = document-level expected_job correspondence"
    assumptions = [
        "numbers in generated documents are ints or decimals with <= 6 significant digits written canonically (the property allows numeric formatting to differ)",
        "FormatString.resolve is the FormatStr.v model (validated by the C16 check)",
        "the decoded template is handed to the model as the implementation holds it (class names + attribute values)",
    ]

    def cases(self, tier, seed):
        rng = random.Random(seed * 7919 + 5)
        n = 12000 if tier == "thorough" else 2000
        for i in range(n):
            doc = G.gen_job_template(rng, full=(i % 6 == 0))
            envs = []
            if i % 5 == 4:
                envs = [G.gen_env_template(rng) for _ in range(rng.choice([1, 2]))]
                # environment templates must not clash with the job template's parameter definitions
                jn = {p["name"] for p in doc.get("parameterDefinitions") or []}
                for e in envs:
                    e["parameterDefinitions"] = [p for p in (e.get("parameterDefinitions") or []) if p["name"] not in jn] or None
                    if e["parameterDefinitions"] is None:
                        del e["parameterDefinitions"]
                    jn |= {p["name"] for p in e.get("parameterDefinitions") or []}
            vals = values_with_refs_text(rng, doc)
            for e in envs:
                vals.update(G.gen_values(rng, e))
            case = {"doc": doc, "envs": envs, "vals": vals}
            if i % 3 == 1:
                # the same decoded template object serves earlier create_job calls with OTHER values first: the
                # Job for `vals` must not remember them (one template, many Jobs is the normal way to use it)
                case["earlier"] = []
                for _ in range(rng.choice([1, 1, 2])):
                    ev = values_with_refs_text(rng, doc)
                    for e in envs:
                        ev.update(G.gen_values(rng, e))
                    case["earlier"].append(ev)
                # ... and with OTHER lists of environment templates: a prefix of this call's list, or this call's list and
                # one more template that gives a parameter another default.  What was merged for them is not this call's.
                case["earlier_envs"] = []
                for _ in case["earlier"]:
                    how = rng.choice(["same", "prefix", "extra", "extra", "only-extra"])
                    xt = None
                    if how in ("extra", "only-extra"):
                        cands = [q for q in (doc.get("parameterDefinitions") or []) if "default" in q]
                        alt = G.gen_values(rng, doc)
                        cands = [q for q in cands if q["name"] in alt and str(alt[q["name"]]) != str(q["default"])] if not any(h in ("extra", "only-extra") for h, _ in case["earlier_envs"]) else []
                        if cands:
                            q = rng.choice(cands)
                            # the job template's own default would win over any environment template's: the default moves
                            # to an environment template of THIS call, and the extra template of the earlier call has another
                            d1 = q.pop("default")
                            envs.append({"specificationVersion": "environment-2023-09", "parameterDefinitions": [{"name": q["name"], "type": q["type"], "default": d1}],
                                         "environment": {"name": "Dflt%d" % rng.randint(0, 99), "variables": {"A": "b"}}})
                            xt = {"specificationVersion": "environment-2023-09", "parameterDefinitions": [{"name": q["name"], "type": q["type"], "default": alt[q["name"]]}],
                                  "environment": {"name": "Xtra%d" % rng.randint(0, 99), "variables": {"A": "b"}}}
                            if rng.random() < 0.8:
                                vals.pop(q["name"], None)          # this call takes the parameter's default
                        else:
                            how = "prefix"
                    case["earlier_envs"].append([how, xt])
            yield case

    def rule(self, tier):
        return ("generated job templates (every 6th with every optional field populated; every 5th with 1-2 environment templates) x accepted value "
                "assignments incl. brace / reference-looking text; every third case after 1-2 earlier create_job calls with other values on the SAME decoded template object; compared only when create_job returns a Job (failures belong to C06). "
                "distinct = by (document, values); non-trivial = template with at least one creation-time reference or a parameter space / host requirement")

    def samples(self, tier, seed):
        rng = random.Random(seed)
        doc = G.gen_job_template(rng)
        return [{"name": doc["name"], "parameters": [p["name"] + ":" + p["type"] for p in doc.get("parameterDefinitions") or []],
                 "values": values_with_refs_text(rng, doc)}]

    def nontrivial(self, case):
        d = case["doc"]
        return "{{" in d["name"] or any("parameterSpace" in s or "hostRequirements" in s for s in d["steps"])

    # ---------------- implementation (also prepares what the model needs)
    def prepare(self, case):
        if "_prep" in case:
            return case["_prep"]
        prep = {"skip": None}
        try:
            jt = decode_job_template(template=G.deep(case["doc"]))
            ets = [decode_environment_template(template=G.deep(e)) for e in case["envs"]]
        except DecodeValidationError as e:
            prep["skip"] = "template-rejected"
            case["_prep"] = prep
            return prep
        try:
            # on objects of its own: nothing this question leaves behind is there for the calls under test
            jt0 = decode_job_template(template=G.deep(case["doc"]))
            ets0 = [decode_environment_template(template=G.deep(e)) for e in case["envs"]]
            final = preprocess_job_parameters(job_template=jt0, job_parameter_values=dict(case["vals"]), job_template_dir=Path(),
                                              current_working_dir=Path(), allow_job_template_dir_walk_up=True,
                                              environment_templates=ets0 or None)
        except ValueError:
            prep["skip"] = "values-rejected"
            case["_prep"] = prep
            return prep
        types = {}
        for p in (case["doc"].get("parameterDefinitions") or []):
            types[p["name"]] = p["type"]
        for e in case["envs"]:
            for p in e.get("parameterDefinitions") or []:
                types[p["name"]] = p["type"]
        prep["jt"], prep["ets"] = jt, ets
        prep["earlier"] = [{k: ParameterValue(type=ParameterValueType(types[k]), value=v) for k, v in ev.items() if k in types} for ev in case.get("earlier", [])]
        # what the model is told the final values are: the implementation's preprocessing result, EXCEPT where the text of
        # C10 / C11 fixes it outright — a supplied value of a non-PATH parameter, and a supplied PATH value that is
        # absolute or empty, are final as given (server mode).  (Relative PATH values are joined by pathlib: C11's.)
        def final_value(k, v):
            if k in case["vals"]:
                given = case["vals"][k]
                if v.type.value != "PATH" or given == "" or given.startswith("/"):
                    return given
            return v.value
        prep["final"] = [[core.cps(k), core.cps(v.type.value), core.cps(final_value(k, v))] for k, v in final.items()]
        prep["earlier_envs"] = []
        for how, xt in case.get("earlier_envs", []):
            try:
                x = [decode_environment_template(template=G.deep(xt))] if xt else []
            except DecodeValidationError:
                x = []
            prep["earlier_envs"].append(ets if how == "same" else ets[:-1] if how == "prefix" else ets + x if how == "extra" else x)
        prep["pv"] = {k: ParameterValue(type=ParameterValueType(types[k]), value=v) for k, v in case["vals"].items()}
        case["_prep"] = prep
        return prep

    def impl(self, case):
        prep = self.prepare(case)
        if prep["skip"]:
            return ["skip", prep["skip"]]
        for i, ev in enumerate(prep.get("earlier", [])):
            ee = prep["earlier_envs"][i] if i < len(prep.get("earlier_envs", [])) else prep["ets"]
            try:
                create_job(job_template=prep["jt"], job_parameter_values=ev, environment_templates=ee or None)
            except Exception:  # noqa: BLE001
                pass
        try:
            job = create_job(job_template=prep["jt"], job_parameter_values=prep["pv"], environment_templates=prep["ets"] or None)
        except DecodeValidationError:
            return ["skip", "create-failed"]
        except BaseException as e:  # noqa: BLE001
            return ["skip", "create-raised-" + type(e).__name__]
        return ["ok", model_to_object(model=job)]

    def requests(self, case):
        prep = self.prepare(case)
        if prep["skip"]:
            return []
        missing = (core.doc_chars(case["doc"]) | core.doc_chars(case["vals"])) - set(self.chars)
        if missing:
            raise RuntimeError(f"characters not in the class table: {missing!r}")
        return [["create", prep["final"], mval_sx(prep["jt"])], ["spec", prep["final"], core.json_sx(case["doc"])]]

    def run_chunk(self, chunk):
        res = super().run_chunk(chunk)
        for c in chunk:
            c.pop("_prep", None)
        for m in res.get("mismatches", []):
            m["case"].pop("_prep", None)
        return res

    def model_obs(self, case, replies):
        if not replies:
            return ["skip", case["_prep"]["skip"]]
        m, s = replies
        io = self.impl(case)
        if io[0] == "skip":
            return io      # C05 speaks about returned Jobs only
        if m[0] != "ok":
            return ["model-raise", m]
        if s[0] != "ok":
            return ["spec-raise", s]
        mo, so = from_wire(m[1]), from_wire(s[1])
        if mo != so:
            return ["model-spec-disagree", mo, so]
        return ["ok", mo]

    def classify_case(self, case, obs):
        return [obs[0] if obs[0] != "skip" else "skip:" + obs[1]]

    def still_fails(self, case):
        case = dict(case)
        case.pop("_prep", None)
        drv = core.Driver(self.component)
        replies, _ = drv.ask(self.requests(case), self.prelude())
        i, m = self.impl(case), self.model_obs(case, replies)
        case.pop("_prep", None)
        return i[0] == "ok" and i != m

    def shrink_candidates(self, case):
        doc = case["doc"]
        for si in range(len(doc["steps"])):
            if len(doc["steps"]) > 1:
                d = G.deep(doc)
                gone = d["steps"][si]["name"]
                del d["steps"][si]
                for st in d["steps"]:
                    if "dependencies" in st:
                        st["dependencies"] = [x for x in st["dependencies"] if x["dependsOn"] != gone]
                        if not st["dependencies"]:
                            del st["dependencies"]
                yield dict(case, doc=d)
        for si, st in enumerate(doc["steps"]):
            for k in ("stepEnvironments", "hostRequirements", "parameterSpace", "description", "dependencies"):
                if k in st:
                    d = G.deep(doc)
                    del d["steps"][si][k]
                    yield dict(case, doc=d)
        for k in ("jobEnvironments", "description", "$schema"):
            if k in doc:
                d = G.deep(doc)
                del d[k]
                yield dict(case, doc=d)
        if case["envs"]:
            yield dict(case, envs=[])


PROP = C05()

if __name__ == "__main__":
    sys.exit(core.main(PROP, sys.argv[1:]))
