#!/bin/bash
# regress_seeded.sh — every kept seed against the check of its own property (development target).
# Writes seeded/REGRESSION.txt: one line per seed, "caught" or "MISSED".  Serial (the Coq build directory is shared).
cd "$(dirname "$0")/.."
export RUN_SEEDED_NO_SETUP=1 RUN_SEEDED_NO_DEMO=1
out=seeded/REGRESSION.txt; : > $out.tmp
for d in seeded/C*/; do
  id=$(basename $d); p=${id%%-*}
  r=$(tools/run_seeded.py $d --checks $p 2>&1 | tail -1)
  if echo "$r" | grep -q "\"caught_by\": \[\"$p\"\]"; then echo "$id caught by $p" >> $out.tmp; else echo "$id MISSED by $p: $r" >> $out.tmp; fi
done
unset RUN_SEEDED_NO_SETUP RUN_SEEDED_NO_DEMO
./setup.sh >/dev/null 2>&1
mv $out.tmp $out
grep -c caught $out; grep MISSED $out
