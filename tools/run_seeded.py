#!/usr/bin/env python3
"""run_seeded.py — run checks against a seeded change (development target, not a manifest entry).

usage: tools/run_seeded.py <dir with patch.diff [demo.py]> [--checks C01,C05 | --all] [--tier quick]

The patch is applied to a scratch copy of /repo (outside /repo and /verif), the demonstration is
run with and without it, the checks run with VERIF_REPO pointing at the copy, and the copy is
removed.  /repo itself is never touched, so background work is not disturbed.  Prints one line per
check: which raise an alarm, and a JSON summary."""
import json
import os
import shutil
import subprocess
import sys
from pathlib import Path

VERIF = Path(__file__).resolve().parent.parent
PY = "/venv/bin/python"


def sh(cmd, **kw):
    return subprocess.run(cmd, shell=True, capture_output=True, text=True, **kw)


def main():
    d = Path(sys.argv[1]).resolve()
    args = sys.argv[2:]
    tier = "quick"
    checks = None
    if "--tier" in args:
        tier = args[args.index("--tier") + 1]
    if "--checks" in args:
        checks = args[args.index("--checks") + 1].split(",")
    man = json.loads((VERIF / "MANIFEST.json").read_text())
    claimed = [c["property_id"] for c in man["checks"]]
    meta = {}
    if (d / "meta.json").exists():
        meta = json.loads((d / "meta.json").read_text())
    prop = meta.get("property") or d.name.split("-")[0]
    if checks is None:
        checks = claimed if "--all" in args else [prop]
    scratch = Path(f"/tmp/mut/seedrun-{os.getpid()}")
    shutil.rmtree(scratch, ignore_errors=True)
    scratch.parent.mkdir(parents=True, exist_ok=True)
    sh(f"git -C /repo worktree prune")
    r = sh(f"cp -r /repo {scratch} && rm -rf {scratch}/.git && cd {scratch} && git init -q && git add -A >/dev/null 2>&1 && git -c user.email=a@b -c user.name=x commit -qm base")
    out = {"seeded": str(d), "property": prop, "tier": tier}
    # evidence files describe runs on /repo itself: keep them out of reach of the seeded run
    saved = {f: f.read_bytes() for f in (VERIF / "evidence").glob("*.json")}
    try:
        a = sh(f"cd {scratch} && git apply {d}/patch.diff")
        if a.returncode != 0:
            print("patch does not apply:", a.stderr[:500])
            return 2
        if (d / "demo.py").exists() and not os.environ.get("RUN_SEEDED_NO_DEMO"):
            w = sh(f"PYTHONPATH={scratch}/src PYTHONHASHSEED=0 timeout 600 {PY} -W ignore {d}/demo.py")
            wo = sh(f"PYTHONPATH=/repo/src PYTHONHASHSEED=0 timeout 600 {PY} -W ignore {d}/demo.py")
            out["demo_with_change"] = {"rc": w.returncode, "tail": (w.stdout + w.stderr)[-300:]}
            out["demo_without_change"] = {"rc": wo.returncode, "tail": (wo.stdout + wo.stderr)[-200:]}
            print(f"demo: with change rc={w.returncode}  without rc={wo.returncode}")
        res = {}
        for c in checks:
            env = dict(os.environ, VERIF_REPO=str(scratch), VERIF_JOBS=os.environ.get("VERIF_JOBS", "8"))
            p = subprocess.run([str(VERIF / "check"), c, tier], capture_output=True, text=True, env=env, cwd=str(VERIF))
            viol = [l for l in p.stdout.splitlines() if l.startswith("VIOLATION")]
            res[c] = {"rc": p.returncode, "violations": len(viol), "first": viol[0] if viol else "", "summary": p.stdout.strip().splitlines()[-1] if p.stdout.strip() else "", "stderr_tail": p.stderr[-600:]}
            print(f"{c}: rc={p.returncode} violations={len(viol)} {viol[0] if viol else ''}")
        out["checks"] = res
        out["caught_by"] = [c for c, v in res.items() if v["rc"] != 0]
    finally:
        shutil.rmtree(scratch, ignore_errors=True)
        for f, b in saved.items():
            f.write_bytes(b)
        # leave Generated.v / build state consistent with /repo again (a batch run does it once at the end)
        if not os.environ.get("RUN_SEEDED_NO_SETUP"):
            subprocess.run([str(VERIF / "setup.sh")], capture_output=True, text=True, cwd=str(VERIF))
    print(json.dumps({k: out[k] for k in ("property", "caught_by")}))
    (d / "last_run.json").write_text(json.dumps(out, indent=1) + "\n")
    return 0


if __name__ == "__main__":
    sys.exit(main())
