(* EditDistSpec.v — specification for C20, written from the property text:
   "the distance used is the Levenshtein distance"; "[the suggested names] are all the visible
   names at minimum edit distance from the misspelt one"; "suggestions are made only when that
   distance is below 5".  Definitions only. *)
From Coq Require Import List NArith Arith Bool.
Import ListNotations.
Require Import OJD.Base.

(* Levenshtein distance: the standard three-way recursion on lists of code points.
      lev [] b = |b|       lev a [] = |a|
      lev (x::a) (y::b) = min (lev a (y::b) + 1, lev (x::a) b + 1, lev a b + [x <> y])       *)
Fixpoint lev (a b : str) : nat :=
  match a with
  | [] => length b
  | x :: a' =>
    (fix lev_b (b : str) : nat :=
       match b with
       | [] => length a
       | y :: b' =>
         Nat.min (lev a' b + 1)
                 (Nat.min (lev_b b' + 1) (lev a' b' + (if N.eqb x y then 0 else 1)))
       end) b
  end.

(* The same notion stated without any recursion scheme: [script a b n] = "a can be turned into b
   by a left-to-right edit script of cost n" (delete a character, insert a character, keep an
   equal character for free or substitute a different one for 1).  [lev a b] is proved to be the
   least such n (EditDistProofs.lev_script / lev_least). *)
Inductive script : str -> str -> nat -> Prop :=
| sc_nil : script [] [] 0
| sc_del : forall x a b n, script a b n -> script (x :: a) b (S n)
| sc_ins : forall y a b n, script a b n -> script a (y :: b) (S n)
| sc_sub : forall x y a b n, script a b n ->
                             script (x :: a) (y :: b) (n + (if N.eqb x y then 0 else 1)).

(* distance of a candidate symbol [s] to the misspelt name [m]: the code calls
   _edit_distance(sym, match) in this argument order (lev is symmetric: EditDistProofs.lev_sym) *)
Definition dist (m s : str) : nat := lev s m.

(* t is a nearest name: it is in S and no member of S is strictly nearer to m *)
Definition argmin (S : list str) (m t : str) : Prop :=
  In t S /\ forall s, In s S -> dist m t <= dist m s.

(* d is the minimum distance over a (then necessarily non-empty) S *)
Definition is_min (S : list str) (m : str) (d : nat) : Prop :=
  (exists t, In t S /\ dist m t = d) /\ forall s, In s S -> d <= dist m s.

(* minimum of the distances, capped by [bound] (and [bound] for the empty set) *)
Definition min_cost (bound : nat) (S : list str) (m : str) : nat :=
  fold_right Nat.min bound (map (dist m) S).

(* lists as sets *)
Definition same_set (A B : list str) : Prop := forall x, In x A <-> In x B.

(* executable spec oracle for the harness: (capped minimum, members of S at that distance) *)
Definition nearest_oracle (S : list str) (m : str) : nat * list str :=
  let d := min_cost (length m + 1) S m in
  (d, filter (fun s => dist m s =? d) S).
