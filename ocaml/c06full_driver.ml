(* c06full_driver.ml — serves the composed create_job model (CreateJobFull.create_job_docs): raw documents
   + the caller's values in, the Job (as model_to_object prints it) or the exception family out.
   Integers travel as decimal atoms of any size in requests (Horner with the extracted Z arithmetic) and
   as 0 / b<bits> / -b<bits> atoms in replies. *)
open Sx
open Model
open Conv
open Convjson

let table : (int, cclass) Hashtbl.t = Hashtbl.create 64
let class_of_name = function
  | "space" -> CSpace | "namestart" -> CNameStart | "digit" -> CDigit | "udigit" -> CUDigit
  | "dot" -> CDot | "star" -> CStar | "lparen" -> CLParen | "rparen" -> CRParen
  | "comma" -> CComma | "hyphen" -> CHyphen | "colon" -> CColon | "other" -> COther
  | s -> failwith ("class " ^ s)
let classify (c : n) : cclass =
  let i = match c with N0 -> 0 | Npos p -> (match int_of_pos p with Some v -> v | None -> -1) in
  match Hashtbl.find_opt table i with
  | Some cl -> cl
  | None -> if i >= 0 && i < 128 then ascii_class c else COther

let ten = z_of_int 10
let big_z_of_string (s : Stdlib.String.t) : z =
  let n = Stdlib.String.length s in
  if n = 0 then failwith "empty-int";
  let neg = Stdlib.String.get s 0 = '-' in
  let st = if neg || Stdlib.String.get s 0 = '+' then 1 else 0 in
  if st >= n then failwith "bad-int";
  let acc = ref Z0 in
  for i = st to n - 1 do
    let c = Char.code (Stdlib.String.get s i) - 48 in
    if c < 0 || c > 9 then failwith "bad-int";
    acc := Z.add (Z.mul !acc ten) (z_of_int c)
  done;
  if neg then Z.opp !acc else !acc
let bigz_of_sx = function A s -> big_z_of_string s | _ -> failwith "bigz_of_sx"

let rec bits_of_pos (b : Buffer.t) (p : positive) : unit =
  match p with
  | XH -> Buffer.add_char b '1'
  | XO q -> bits_of_pos b q; Buffer.add_char b '0'
  | XI q -> bits_of_pos b q; Buffer.add_char b '1'
let sx_of_bigz (z : z) : Sx.t =
  match z with
  | Z0 -> A "0"
  | Zpos p -> let b = Buffer.create 80 in Buffer.add_char b 'b'; bits_of_pos b p; A (Buffer.contents b)
  | Zneg p -> let b = Buffer.create 80 in Buffer.add_string b "-b"; bits_of_pos b p; A (Buffer.contents b)

(* wire json with integers of any size *)
let rec json_of_sxb (x : Sx.t) : json =
  match x with
  | A "null" -> JNull
  | A "true" -> JBool true
  | A "false" -> JBool false
  | L [A "i"; z] -> JInt (bigz_of_sx z)
  | L [A "d"; m; e] -> JDec (bigz_of_sx m, bigz_of_sx e)
  | L (A "s" :: cps) -> JStr (List.map n_of_sx cps)
  | L (A "a" :: items) -> JArr (List.map json_of_sxb items)
  | L (A "o" :: members) ->
    JObj (List.map (function L [k; v] -> (str_of_sx k, json_of_sxb v) | _ -> failwith "json member") members)
  | _ -> failwith "json_of_sx"

let rec sx_of_jsonb (j : json) : Sx.t =
  match j with
  | JNull -> A "null"
  | JBool b -> A (if b then "true" else "false")
  | JInt z -> L [A "i"; sx_of_bigz z]
  | JDec (m, e) -> L [A "d"; sx_of_bigz m; sx_of_bigz e]
  | JStr s -> L (A "s" :: List.map sx_of_n s)
  | JArr l -> L (A "a" :: List.map sx_of_jsonb l)
  | JObj ms -> L (A "o" :: List.map (fun (k, v) -> L [sx_of_str k; sx_of_jsonb v]) ms)

let ptype_name = function STRING -> "STRING" | PATH -> "PATH" | INT -> "INT" | FLOAT -> "FLOAT"
let sx_of_num (x : num) = L [sx_of_bigz x.mant; sx_of_bigz x.expo]
(* the wire form of harness/jobparams_common.def_sx *)
let sx_of_def (d : pdef) : Sx.t =
  L [ sx_of_str d.pname; A (ptype_name d.ptyp);
      sx_of_opt sx_of_num d.pminv; sx_of_opt sx_of_num d.pmaxv;
      sx_of_opt (sx_of_list sx_of_num) d.pallowed_n; sx_of_opt (sx_of_list sx_of_str) d.pallowed_s;
      sx_of_opt sx_of_bigz d.pminlen; sx_of_opt sx_of_bigz d.pmaxlen;
      sx_of_opt sx_of_str d.pdefault;
      sx_of_opt (function OT_FILE -> A "FILE" | OT_DIRECTORY -> A "DIRECTORY") d.pobjtype;
      sx_of_opt (function DF_NONE -> A "NONE" | DF_IN -> A "IN" | DF_OUT -> A "OUT" | DF_INOUT -> A "INOUT") d.pdataflow ]

let pair_of_sx = function L [k; v] -> (str_of_sx k, str_of_sx v) | _ -> failwith "pair"

let handle (req : Sx.t) : Sx.t =
  match req with
  | L (A "table" :: entries) ->
    Hashtbl.reset table;
    List.iter (function L [A cp; A cl] -> Hashtbl.replace table (int_of_string cp) (class_of_name cl) | _ -> failwith "table") entries;
    L [A "table-ok"; sx_of_bool (ascii_ok classify)]
  (* (create_full <doc> (<env doc> ...) ((name value) ...)) ->
       (rejected E)        a template is not accepted by the decode model (E = ValueError | RuntimeError)
       (ok <job json>) | (raise E)   what create_job does *)
  | L [A "create_full"; doc; envs; vals] ->
    (match create_job_docs classify (list_of_sx json_of_sxb envs) (json_of_sxb doc) (list_of_sx pair_of_sx vals) with
     | Raise e -> L [A "rejected"; A (exn_name e)]
     | Ok r -> sx_of_outcome sx_of_jsonb r)
  | L [A "defs"; A "job"; doc] -> sx_of_outcome (sx_of_list sx_of_def) (defs_of_job_doc classify (json_of_sxb doc))
  | L [A "defs"; A "env"; doc] -> sx_of_outcome (sx_of_list sx_of_def) (defs_of_env_doc classify (json_of_sxb doc))
  | _ -> failwith "unknown-request"

let () = serve handle
