(* props/C19.v — verdicts and Jobs are invariant under presentation changes.

   Models: Json.v ([assoc], [jget] = dict.get), Parse.v ([parse_kind] / [parse_cls]), Validators.v
   ([pre_hook], [post_hook]), Accept.v ([decode_job], [decode_env]), ScopeWalk.v ([prevalidate]),
   Lexer.v ([lex] = TokenStream: whitespace normalisation + tokenisation), FormatStr.v.
   Proofs: KeyOrder.v, LexerProofs.v, FormatStrProofs.v.

   C19_yaml is not a theorem (JSON / YAML parsers are outside the model; the harness checks that
   both yield equal objects).  C19_rename is NOT stated here: invariance under injective renaming
   is covered by the metamorphic correspondence of harness/c19.py only. *)
From Coq Require Import List NArith ZArith Bool String Permutation.
Import ListNotations.
Require Import OJD.Base OJD.Lexer OJD.Json OJD.Schema OJD.Generated OJD.FormatStr OJD.FormatStrSpec
               OJD.FormatStrProofs OJD.CreateJob OJD.Parse OJD.Validators OJD.Accept OJD.ScopeWalk
               OJD.KeyOrder OJD.LexerProofs.
Local Open Scope string_scope.
Local Open Scope list_scope.

(* ------------------------------------------------------------------ key order *)

(* dict lookup does not depend on the order of distinct keys *)
Theorem C19_assoc_perm : forall (A : Type) (ms ms' : list (str * A)),
  NoDup (map fst ms) -> Permutation ms ms' -> forall k, assoc k ms = assoc k ms'.
Proof. exact assoc_perm. Qed.
Print Assumptions C19_assoc_perm.

Theorem C19_jget_perm : forall ms ms', NoDup (map fst ms) -> Permutation ms ms' ->
  forall name, jget name (JObj ms) = jget name (JObj ms').
Proof. exact jget_perm. Qed.
Print Assumptions C19_jget_perm.

(* the structural layer: permuting the members of the object handed to a class changes NOTHING —
   same verdict, same coerced value (fields are produced in the model's declaration order) — for
   any schema, fuel and hooks that do not distinguish the two raw objects.  Exact equality: also for
   classes with dictionary-valued fields (a DictOf field keeps the member order of ITS OWN value,
   which is not permuted here). *)
Theorem C19_parse_cls_key_order : forall SC classify pre post ms ms',
  NoDup (map fst ms) -> Permutation ms ms' ->
  forall fuel c,
  pre c (JObj ms) = pre c (JObj ms') ->
  (forall fs, post c (JObj ms) fs = post c (JObj ms') fs) ->
  parse_cls SC classify pre post fuel c (JObj ms) = parse_cls SC classify pre post fuel c (JObj ms').
Proof. exact parse_cls_perm. Qed.
Print Assumptions C19_parse_cls_key_order.

(* the repo-side hooks do not distinguish them: pre validators read the raw object through
   dict.get only; post validators of all classes but the two roots do not read it; the roots run the
   C03 walker, which (C03_exact) reads the root through dict.get only *)
Theorem C19_hooks_key_order : forall classify ms ms', NoDup (map fst ms) -> Permutation ms ms' ->
  forall c, pre_hook c (JObj ms) = pre_hook c (JObj ms') /\
            forall fs, post_hook classify c (JObj ms) fs = post_hook classify c (JObj ms') fs.
Proof. exact hooks_key_order. Qed.
Print Assumptions C19_hooks_key_order.

Theorem C19_post_hook_raw_free : forall classify c raw raw' fs,
  c <> "JobTemplate" -> c <> "EnvironmentTemplate" ->
  post_hook classify c raw fs = post_hook classify c raw' fs.
Proof. exact post_hook_raw_free. Qed.
Print Assumptions C19_post_hook_raw_free.

(* hence, with the real hooks: an object ANYWHERE in a document (it reaches the parser as the value
   of some field, list item, union alternative or dictionary member, at some kind and fuel) can
   have its keys reordered without changing what the parser returns for it *)
Theorem C19_key_order_any_object : forall classify ms ms', NoDup (map fst ms) -> Permutation ms ms' ->
  forall SC fuel k,
  parse_kind SC classify pre_hook (post_hook classify) fuel k (JObj ms)
  = parse_kind SC classify pre_hook (post_hook classify) fuel k (JObj ms').
Proof. exact parse_kind_real_perm. Qed.
Print Assumptions C19_key_order_any_object.

(* ... and the decode verdict (with the decoded model) under a permutation of the root's keys,
   including the version dispatch and the fuel computed from the document *)
Theorem C19_decode_key_order : forall classify ms ms', NoDup (map fst ms) -> Permutation ms ms' ->
  decode_job classify (JObj ms) = decode_job classify (JObj ms') /\
  decode_env classify (JObj ms) = decode_env classify (JObj ms').
Proof.
  intros classify ms ms' Hnd Hp. split; [apply decode_job_perm|apply decode_env_perm]; assumption.
Qed.
Print Assumptions C19_decode_key_order.

(* the C03 walker on the root *)
Theorem C19_walker_key_order : forall refs ms ms', NoDup (map fst ms) -> Permutation ms ms' ->
  prevalidate Generated.schema refs "JobTemplate" (JObj ms) = prevalidate Generated.schema refs "JobTemplate" (JObj ms') /\
  prevalidate Generated.schema refs "EnvironmentTemplate" (JObj ms)
  = prevalidate Generated.schema refs "EnvironmentTemplate" (JObj ms').
Proof. exact prevalidate_perm. Qed.
Print Assumptions C19_walker_key_order.

(* C19_key_order, full statement (NOT proved as one theorem):
     json_perm j j' -> decode_job classify j = decode_job classify j'   up to the member order of
     dictionary-valued fields (Environment.variables),
   where json_perm permutes the members of EVERY object of the document simultaneously.
   Proved: one object at a time — the root (C19_decode_key_order) and, for a nested object, the
   parser's result on THAT object (C19_key_order_any_object).  Missing: the congruence step for a
   nested object, because the hooks of the ENCLOSING classes read raw sub-values (pre_hook looks
   at the constructors of range items; the root's post_hook walks the whole raw document); it
   needs "hooks are invariant under json_perm of sub-values", i.e. C03_exact applied under a
   json_perm-congruence of the specification.  The harness permutes keys at every level. *)

(* ------------------------------------------------------------------ blanks *)

(* TokenStream: the token list depends only on where the runs of blanks are.  [b], [b'] range over
   the characters of class \s of the run's class table; no premise on the table. *)
Theorem C19_blanks : forall classify b b', classify b = CSpace -> classify b' = CSpace ->
  (forall s, lex classify (b :: s) = lex classify s) /\
  (forall s, lex classify (s ++ [b]) = lex classify s) /\
  (forall s1 s2, lex classify (s1 ++ b :: b' :: s2) = lex classify (s1 ++ b :: s2)) /\
  (forall s1 s2, lex classify (s1 ++ b :: s2) = lex classify (s1 ++ b' :: s2)).
Proof.
  intros classify b b' Hb Hb'. repeat split; intros.
  - apply lex_leading_blank. exact Hb.
  - apply lex_trailing_blank. exact Hb.
  - apply lex_blank_run; assumption.
  - apply lex_blank_kind; assumption.
Qed.
Print Assumptions C19_blanks.

(* blanks around single-character tokens ( . * ( ) , - : ) are immaterial: "1 - 5" = "1-5",
   "A * B" = "A*B", "Param . X" = "Param.X" *)
Theorem C19_blanks_around_punct : forall classify b c, classify b = CSpace -> is_punct classify c = true ->
  (forall s1 s2, lex classify (s1 ++ b :: c :: s2) = lex classify (s1 ++ c :: s2)) /\
  (forall s1 s2, lex classify (s1 ++ c :: b :: s2) = lex classify (s1 ++ c :: s2)).
Proof.
  intros classify b c Hb Hc. split; intros.
  - apply lex_blank_before_punct; assumption.
  - apply lex_blank_after_punct; assumption.
Qed.
Print Assumptions C19_blanks_around_punct.

(* every parser front end sees the tokens only *)
Theorem C19_lex_for_cong : forall classify kinds s s', lex classify s = lex classify s' ->
  lex_for classify kinds s = lex_for classify kinds s'.
Proof. exact lex_for_cong. Qed.
Print Assumptions C19_lex_for_cong.

(* inside '{{ }}': the parsed name of a reference is its text with the blanks removed (C16) *)
Theorem C19_reference_name_ignores_blanks : forall classify,
  (forall c, is_dot classify c = true -> c = dotc) ->
  forall e, norm classify e = filter (fun c => negb (is_blank classify c)) e.
Proof. exact norm_blanks_removed. Qed.
Print Assumptions C19_reference_name_ignores_blanks.

Theorem C19_reference_spans : forall classify, ascii_ok classify = true -> forall s f,
  mk classify s = Ok f ->
  exists segs last, Decomp classify s segs last /\
    expressions f = spec_exprs classify 0 segs /\
    Forall2 (fun le x => fst (fst x) = norm classify (snd le) /\
                         slice s (snd (fst x)) (snd x) = open2 ++ snd le ++ close2)
            segs (expressions f).
Proof. exact mk_spans. Qed.
Print Assumptions C19_reference_spans.

(* ------------------------------------------------------------------ non-vacuity *)
Definition js (x : string) : json := JStr (str_of_string x).
Definition jm (l : list (string * json)) : list (str * json) := map (fun kv => (str_of_string (fst kv), snd kv)) l.

Definition step_ok : json :=
  JObj (jm [("name", js "A"); ("script", JObj (jm [("actions", JObj (jm [("onRun", JObj (jm [("command", js "run")]))]))]))]).
Definition root1 : list (str * json) :=
  jm [("specificationVersion", js "jobtemplate-2023-09"); ("name", js "Job {{Param.P}}");
      ("parameterDefinitions", JArr [JObj (jm [("name", js "P"); ("type", js "INT")])]);
      ("steps", JArr [step_ok])].
Definition root2 : list (str * json) :=
  jm [("steps", JArr [step_ok]);
      ("parameterDefinitions", JArr [JObj (jm [("name", js "P"); ("type", js "INT")])]);
      ("name", js "Job {{Param.P}}"); ("specificationVersion", js "jobtemplate-2023-09")].

Example C19_key_order_nonvacuous :
  NoDup (map fst root1) /\ Permutation root1 root2 /\ root1 <> root2 /\
  is_ok (decode_job ascii_class (JObj root1)) = true /\
  decode_job ascii_class (JObj root1) = decode_job ascii_class (JObj root2).
Proof.
  assert (Hnd : NoDup (map fst root1)).
  { repeat (constructor; [cbn; intros H; repeat (destruct H as [H|H]; [discriminate H|]); exact H|]). constructor. }
  assert (Hp : Permutation root1 root2).
  { unfold root1, root2. cbn [jm map].
    eapply perm_trans; [apply Permutation_rev|]. cbn [rev app]. apply Permutation_refl. }
  split; [exact Hnd|]. split; [exact Hp|]. split; [discriminate|]. split; [vm_compute; reflexivity|].
  apply decode_job_perm; assumption.
Qed.

(* the NoDup premise is necessary for assoc: with a duplicated key the first one wins *)
Example C19_assoc_dup_counterexample :
  exists ms ms' : list (str * nat), Permutation ms ms' /\ assoc $"k" ms <> assoc $"k" ms'.
Proof.
  exists [($"k", 1); ($"k", 2)], [($"k", 2); ($"k", 1)]. split; [apply perm_swap|].
  vm_compute. discriminate.
Qed.

Local Open Scope N_scope.
(* "\tParam .  X " and "Param.X": tab (9) and space (32) are blanks of the ASCII table *)
Example C19_blanks_nonvacuous :
  ascii_class 9 = CSpace /\ ascii_class 32 = CSpace /\ is_punct ascii_class 46 = true /\
  lex ascii_class [9; 80;97;114;97;109; 32; 46; 32;32; 88; 32]
  = lex ascii_class [80;97;114;97;109; 46; 88] /\
  lex ascii_class [80;97;114;97;109; 46; 88] = Ok [TName [80;97;114;97;109]; TDot; TName [88]] /\
  (* a blank INSIDE a name is a different token list: blanks matter only as separators *)
  lex ascii_class [80;97; 32; 114;97;109; 46; 88] <> lex ascii_class [80;97;114;97;109; 46; 88].
Proof. vm_compute. repeat split. discriminate. Qed.
