(* paths_driver.ml — serves the extracted POSIX path model and its oracle (C11). *)
open Sx
open Model
open Conv

let sx_of_strs l = sx_of_list sx_of_str l

let param_of_sx = function
  | L [A "s"; v] -> PSupplied (str_of_sx v)
  | L [A "d"; v] -> PDefault (str_of_sx v)
  | A "r" | L [A "r"] -> PRequired
  | _ -> failwith "param"

(* result of a preprocess call followed by what create_job would store (server-mode pass over
   the returned values, every parameter supplied) *)
let pre_and_job (r : str list outcome) : Sx.t =
  match r with
  | Raise e -> L [A "raise"; A (exn_name e)]
  | Ok vs ->
    let job = server_preprocess (List.map (fun v -> PSupplied v) vs) in
    L [A "ok"; sx_of_strs vs; sx_of_outcome sx_of_strs job]

let handle (req : Sx.t) : Sx.t =
  match req with
  | L [A "stdlib"; a; b] ->
    let a = str_of_sx a and b = str_of_sx b in
    let nj = normpath (path_str (join a b)) in
    L [ sx_of_strs (parts a);
        sx_of_str (path_str a);
        sx_of_str (normpath a);
        sx_of_bool (is_absolute a);
        sx_of_str (pjoin a b);
        sx_of_str (path_str (join a b));
        sx_of_bool (is_relative_to (parse a) (parse b));
        sx_of_str nj;
        sx_of_bool (is_relative_to (parse nj) (parse a));
        (* the specification's reading of the same string, for the record *)
        sx_of_strs (spec_parts a) ]
  | L [A "pre"; dir; cwd; walk; L ps] ->
    pre_and_job (preprocess_paths (str_of_sx dir) (str_of_sx cwd) (bool_of_sx walk) (List.map param_of_sx ps))
  | L [A "job"; L ps] ->
    sx_of_outcome sx_of_strs (server_preprocess (List.map param_of_sx ps))
  | L [A "spec"; dir; cwd; walk; L ps] ->
    let dir = str_of_sx dir in
    let r = spec_preprocess dir (str_of_sx cwd) (bool_of_sx walk) (List.map param_of_sx ps) in
    (match r with
     | Raise e -> L [A "raise"; A (exn_name e)]
     | Ok vs -> L [A "ok"; sx_of_strs vs; sx_of_list (fun v -> sx_of_bool (containedb dir v)) vs;
                   sx_of_strs (List.map spec_server vs)])
  | _ -> failwith "unknown-request"

let () = serve handle
