(* UsableTrace.v — what instantiate_model makes of an ACCEPTED job template, as far as the two consumers
   of the Job look at it (generic in the resolver and the symbol table):

     task_param_shape    a task parameter definition becomes a RangeExpression... node with a resolved
                         range string, or a *RangeList... node with a non-empty list of numbers / resolved
                         strings ([def_shape raw_item]; the numbers are printed by coerce_job);
     param_space_shape   a StepParameterSpaceDefinition becomes a StepParameterSpace whose definitions are
                         keyed by the (pairwise distinct) parameter names, in order, and whose combination
                         is the template's: absent, or a string that parses and names every key once
                         ([space_shape], from StepParameterSpaceDefinition._validate_combination);
     step_shape          a step keeps its name and its dependencies; its parameter space is as above;
     job_shape           the Job has one step per template step, in order; the template passed
                         job_template_ok (unique step names, known dependencies, no cycle).
   The inversions of the parser follow CreateJobExact{Params,Steps,Space}.v; nothing is assumed about the
   document beyond decode_job = Ok. *)
From Coq Require Import List NArith ZArith Bool String Lia.
Import ListNotations.
Require Import OJD.Base OJD.Lexer OJD.Json OJD.Schema OJD.Generated OJD.Charsets OJD.Numerals OJD.NumPrint
               OJD.FormatStr OJD.CreateJob OJD.CreateJobProofs OJD.Parse OJD.Validators OJD.Accept
               OJD.ExportProofs OJD.AcceptMono OJD.DecodeInv OJD.JsonEquiv OJD.CreateJobExactLib OJD.CreateJobExactCarried
               OJD.CreateJobExactParams OJD.CreateJobExactSteps OJD.CreateJobExactSpace OJD.Comb OJD.WF
               OJD.UsableGlue OJD.UsableShape.
Local Open Scope string_scope.
Local Open Scope list_scope.

(* a range-list item as the template holds it *)
Definition pre_item (m : mval) : Prop := (exists z, m = MInt z) \/ (exists a e, m = MDec a e) \/ (exists s, m = MFmt s).

Lemma Forall2_len {A B} (R : A -> B -> Prop) l l' : Forall2 R l l' -> List.length l = List.length l'.
Proof. induction 1 as [|a b l l' _ _ IH]; [reflexivity|]. cbn [List.length]. rewrite IH. reflexivity. Qed.

Section Trace.
  Variable classify : N -> cclass.
  Variable resolve : symtab -> str -> outcome str.
  Variable sigma : symtab.
  Notation pk := (parse_kind G classify pre_hook (post_hook classify)).
  Notation pc := (parse_cls G classify pre_hook (post_hook classify)).

  (* ---- items of a range list ---- *)
  Lemma res_items : forall rec l l2,
    Forall pre_item l -> mapM (res_elem resolve sigma rec) l = Ok l2 ->
    Forall raw_item l2 /\ List.length l2 = List.length l.
  Proof.
    intros rec l l2 H. revert l2. induction H as [|m l Hm _ IH]; intros l2 E.
    - injection E as <-. split; [constructor|reflexivity].
    - cbn [mapM] in E. destruct (res_elem resolve sigma rec m) as [y|e] eqn:Ey; cbn [bind] in E; [|discriminate E].
      destruct (mapM _ l) as [ys|e] eqn:Er; cbn [bind] in E; [|discriminate E]. injection E as <-.
      destruct (IH ys eq_refl) as [HF Hl]. split; [|cbn [List.length]; rewrite Hl; reflexivity].
      constructor; [|exact HF].
      destruct Hm as [[z ->]|[[a [e ->]]|[s ->]]]; cbn [res_elem] in Ey.
      + injection Ey as <-. left. exists z. reflexivity.
      + injection Ey as <-. right. left. exists a, e. reflexivity.
      + destruct (resolve sigma s) as [t|x]; cbn [bind] in Ey; [|discriminate Ey]. injection Ey as <-.
        right. right. exists t. reflexivity.
  Qed.

  Lemma fmt_inv : forall f c lo hi cs it m, pk f (KFormat c lo hi cs) it = Ok m -> exists s, it = JStr s /\ m = MFmt s.
  Proof.
    intros f c lo hi cs it m H. destruct f as [|f]; [discriminate H|]. rewrite parse_kind_S in H. cbn [parse_scalar] in H.
    destruct it as [| | | |s| |]; try discriminate H.
    destruct (len_ok lo hi s && cs_ok cs s && fs_ok classify s); [|discriminate H]. injection H as <-.
    exists s. split; reflexivity.
  Qed.

  Lemma int_item_pre : forall f it m, pk f kint_or_fmt it = Ok m -> pre_item m.
  Proof.
    intros f it m H. destruct f as [|f]; [discriminate H|]. unfold kint_or_fmt in H. rewrite parse_kind_S in H.
    apply (DecodeInv.try_alts_ok G classify pre_hook (post_hook classify)) in H. destruct H as [a [Ha H]].
    destruct Ha as [<-|[<-|[]]]; cbn [alt_res] in H.
    - destruct f as [|f]; [discriminate H|]. rewrite parse_kind_S in H. cbn [parse_scalar zopt_ok andb] in H.
      left. destruct it as [|b|z|a e|s| |]; try discriminate H.
      + destruct b; injection H as <-; eexists; reflexivity.
      + injection H as <-. eexists; reflexivity.
      + destruct (dec_integral a e); [|discriminate H]. injection H as <-. eexists; reflexivity.
      + destruct (parse_int s) as [z|]; [|discriminate H]. injection H as <-. eexists; reflexivity.
    - apply fmt_inv in H. destruct H as [s [_ ->]]. right. right. exists s. reflexivity.
  Qed.

  Lemma dec_item_pre : forall f it m, pk f kdec_or_fmt it = Ok m -> pre_item m.
  Proof.
    intros f it m H. destruct f as [|f]; [discriminate H|]. unfold kdec_or_fmt in H. rewrite parse_kind_S in H.
    apply (DecodeInv.try_alts_ok G classify pre_hook (post_hook classify)) in H. destruct H as [a [Ha H]].
    destruct Ha as [<-|[<-|[]]]; cbn [alt_res] in H.
    - destruct f as [|f]; [discriminate H|]. rewrite parse_kind_S in H. cbn [parse_scalar] in H.
      right. left. destruct it as [| |z|a e|s| |]; try discriminate H.
      + injection H as <-. eexists; eexists; reflexivity.
      + injection H as <-. eexists; eexists; reflexivity.
      + destruct (parse_dec s) as [[a e| |]|]; try discriminate H. injection H as <-. eexists; eexists; reflexivity.
    - apply fmt_inv in H. destruct H as [s [_ ->]]. right. right. exists s. reflexivity.
  Qed.

  Lemma fmt_item_pre : forall f it m, pk f kfmt_item it = Ok m -> pre_item m.
  Proof. intros f it m H. apply fmt_inv in H. destruct H as [s [_ ->]]. right. right. exists s. reflexivity. Qed.

  Lemma Forall2_pre : forall (k : kind) f its l,
    (forall it m, pk f k it = Ok m -> pre_item m) ->
    Forall2 (fun it m => pk f k it = Ok m) its l -> Forall pre_item l.
  Proof. intros k f its l Hk H. induction H as [|it m its l Hp _ IH]; constructor; [exact (Hk it m Hp)|exact IH]. Qed.

  (* ---- a list field with its length condition ---- *)
  Lemma list_items_inv : forall f lo hi k raw x, list_items (pk f) lo hi k raw = Ok x ->
    exists items l, raw = JArr items /\ x = MList l /\ len_ok_n lo hi (List.length items) = true /\
                    Forall2 (fun it m => pk f k it = Ok m) items l.
  Proof.
    intros f lo hi k raw x H. unfold list_items in H. destruct raw as [| | | | |items|]; try discriminate H.
    destruct (len_ok_n lo hi (List.length items)) eqn:El; [|discriminate H].
    destruct (mapM (pk f k) items) as [l|e] eqn:Em; cbn [bind] in H; [|discriminate H]. injection H as <-.
    exists items, l. repeat split; try assumption. apply mapM_Forall2. exact Em.
  Qed.

  Lemma pfield_list : forall f ms fl lo hi y, parse_field (pk f) ms fl = Ok y -> f_shape fl = ListOf lo hi ->
    f_required fl = true ->
    exists items l, y = (f_name fl, MList l) /\ field_raw ms fl = JArr items /\
                    len_ok_n lo hi (List.length items) = true /\
                    Forall2 (fun it m => pk f (f_kind fl) it = Ok m) items l.
  Proof.
    intros f ms fl lo hi y H Hs Hr. apply parse_field_inv in H. destruct H as [x [-> Hv]].
    unfold parse_value in Hv. rewrite Hs, Hr in Hv.
    assert (K : list_items (pk f) lo hi (f_kind fl) (field_raw ms fl) = Ok x) by (destruct (field_raw ms fl); try exact Hv; discriminate Hv).
    destruct (list_items_inv _ _ _ _ _ _ K) as [items [l [E [-> [Hl HF]]]]].
    exists items, l. repeat split; assumption.
  Qed.

  (* the "type" field of a task parameter definition: Literal[...] *)
  Lemma literal_field : forall f ms fl lit y, parse_field (pk f) ms fl = Ok y -> f_shape fl = Single ->
    f_kind fl = KLiteral lit -> f_required fl = true -> y = (f_name fl, MStr (str_of_string lit)).
  Proof.
    intros f ms fl lit y H Hs Hk Hr. apply parse_field_inv in H. destruct H as [x [-> Hv]]. f_equal.
    unfold parse_value in Hv. rewrite Hs, Hr, Hk in Hv.
    assert (K : pk f (KLiteral lit) (field_raw ms fl) = Ok x) by (destruct (field_raw ms fl); try exact Hv; discriminate Hv).
    destruct f as [|f]; [discriminate K|]. rewrite parse_kind_S in K. cbn [parse_scalar] in K.
    destruct (field_raw ms fl) as [| | | |s| |]; try discriminate K.
    destruct (str_eqb s (str_of_string lit)) eqn:E; [|discriminate K]. injection K as <-.
    apply je_str_eqb_eq in E. subst s. reflexivity.
  Qed.

  (* ---- one task parameter definition, instantiated ---- *)
  Lemma lc_int : In "IntRangeListTaskParameterDefinition" list_classes. Proof. left. reflexivity. Qed.
  Lemma lc_float : In "FloatRangeListTaskParameterDefinition" list_classes. Proof. right. left. reflexivity. Qed.
  Lemma lc_list : In "RangeListTaskParameterDefinition" list_classes. Proof. right. right. left. reflexivity. Qed.

  Lemma nonempty_of_len : forall (A B : Type) (its : list A) (l l2 : list B) hi,
    len_ok_n (Some 1%N) hi (List.length its) = true -> List.length its = List.length l ->
    List.length l2 = List.length l -> l2 <> [].
  Proof.
    intros A B its l l2 hi H E1 E2 ->. cbn [List.length] in E2. rewrite <- E2 in E1.
    destruct its; [|discriminate E1]. destruct hi; vm_compute in H; discriminate H.
  Qed.

  Theorem task_param_shape : forall f F it m y,
    pk f kdisc_task it = Ok m -> mval_depth m < F ->
    inst_elem (inst G resolve sigma F) m = Ok y -> def_shape raw_item y.
  Proof.
    intros f F it m y H HF Hy. destruct f as [|f]; [discriminate H|]. unfold kdisc_task in H.
    rewrite parse_kind_S in H. unfold disc_res in H.
    destruct it as [| | | | | |ims]; try discriminate H.
    destruct (assoc (str_of_string "type") ims) as [[| | | |ts| |]|] eqn:Ea; try discriminate H.
    destruct (List.find _ _) as [[k' c']|] eqn:Ef; [|discriminate H].
    apply find_some in Ef. destruct Ef as [Hin _].
    destruct F as [|F]; [lia|].
    destruct Hin as [E|[E|[E|[E|[]]]]]; injection E as <- <-.
    - (* INT *)
      cls_open H. injection Ev as <-. subst m.
      next_field Hm y1 r1 H1. next_field Hm y2 r2 H2. next_field Hm y3 r3 H3. injection Hm as <-.
      apply name_field_inv in H1. destruct H1 as [c [r [-> Hn]]].
      apply (literal_field _ _ _ "INT") in H2; [|reflexivity|reflexivity|reflexivity]. subst y2.
      apply field_single_inv in H3; [|reflexivity]. destruct H3 as [rg [-> Hrg]].
      cbn [f_name f_kind f_required] in *.
      destruct Hrg as [[_ [_ Hreq]]|[Hrn Hrp]]; [discriminate Hreq|].
      destruct f' as [|f2]; [discriminate Hrp|]. rewrite parse_kind_S in Hrp.
      apply (DecodeInv.try_alts_ok G classify pre_hook (post_hook classify)) in Hrp. destruct Hrp as [a [Ha Hrp]].
      cbn [inst_elem] in Hy.
      destruct Ha as [<-|[<-|[]]]; cbn [alt_res] in Hrp.
      + (* a list *)
        destruct (list_items_inv _ _ _ _ _ _ Hrp) as [its [l [_ [-> [Hlen Em]]]]].
        rewrite shape_IntTaskParam_list in Hy by reflexivity.
        destruct (mapM _ l) as [l2|e] eqn:El; cbn [bind] in Hy; [|discriminate Hy]. injection Hy as <-.
        destruct (res_items _ l l2 (Forall2_pre _ f2 its l (int_item_pre f2) Em) El) as [HR Hl2].
        apply DS_list; [exact lc_int|discriminate| |exact HR].
        exact (nonempty_of_len _ _ its l l2 _ Hlen (Forall2_len _ _ _ Em) Hl2).
      + (* a range expression *)
        apply fmt_inv in Hrp. destruct Hrp as [s [_ ->]].
        rewrite shape_IntTaskParam_expr in Hy by reflexivity.
        destruct (resolve sigma s) as [rs|e]; cbn [bind] in Hy; [|discriminate Hy]. injection Hy as <-.
        apply DS_expr. discriminate.
    - (* FLOAT *)
      cls_open H. injection Ev as <-. subst m.
      next_field Hm y1 r1 H1. next_field Hm y2 r2 H2. next_field Hm y3 r3 H3. injection Hm as <-.
      apply name_field_inv in H1. destruct H1 as [c [r [-> Hn]]].
      apply (literal_field _ _ _ "FLOAT") in H2; [|reflexivity|reflexivity|reflexivity]. subst y2.
      apply (pfield_list _ _ _ (Some 1%N) (Some 1024%N)) in H3; [|reflexivity|reflexivity].
      destruct H3 as [its [l [-> [_ [Hlen Em]]]]].
      cbn [f_name f_kind f_required] in *. cbn [inst_elem] in Hy.
      rewrite (shape_TaskParam resolve sigma F "FloatTaskParameterDefinition") in Hy; [|in_tac|reflexivity].
      destruct (mapM _ l) as [l2|e] eqn:El; cbn [bind] in Hy; [|discriminate Hy]. injection Hy as <-.
      destruct (res_items _ l l2 (Forall2_pre _ f' its l (dec_item_pre f') Em) El) as [HR Hl2].
      apply DS_list; [exact lc_float|discriminate| |exact HR].
      exact (nonempty_of_len _ _ its l l2 _ Hlen (Forall2_len _ _ _ Em) Hl2).
    - (* STRING *)
      cls_open H. injection Ev as <-. subst m.
      next_field Hm y1 r1 H1. next_field Hm y2 r2 H2. next_field Hm y3 r3 H3. injection Hm as <-.
      apply name_field_inv in H1. destruct H1 as [c [r [-> Hn]]].
      apply (literal_field _ _ _ "STRING") in H2; [|reflexivity|reflexivity|reflexivity]. subst y2.
      apply (pfield_list _ _ _ (Some 1%N) (Some 1024%N)) in H3; [|reflexivity|reflexivity].
      destruct H3 as [its [l [-> [_ [Hlen Em]]]]].
      cbn [f_name f_kind f_required] in *. cbn [inst_elem] in Hy.
      rewrite (shape_TaskParam resolve sigma F "StringTaskParameterDefinition") in Hy; [|in_tac|reflexivity].
      destruct (mapM _ l) as [l2|e] eqn:El; cbn [bind] in Hy; [|discriminate Hy]. injection Hy as <-.
      destruct (res_items _ l l2 (Forall2_pre _ f' its l (fmt_item_pre f') Em) El) as [HR Hl2].
      apply DS_list; [exact lc_list|discriminate| |exact HR].
      exact (nonempty_of_len _ _ its l l2 _ Hlen (Forall2_len _ _ _ Em) Hl2).
    - (* PATH *)
      cls_open H. injection Ev as <-. subst m.
      next_field Hm y1 r1 H1. next_field Hm y2 r2 H2. next_field Hm y3 r3 H3. injection Hm as <-.
      apply name_field_inv in H1. destruct H1 as [c [r [-> Hn]]].
      apply (literal_field _ _ _ "PATH") in H2; [|reflexivity|reflexivity|reflexivity]. subst y2.
      apply (pfield_list _ _ _ (Some 1%N) (Some 1024%N)) in H3; [|reflexivity|reflexivity].
      destruct H3 as [its [l [-> [_ [Hlen Em]]]]].
      cbn [f_name f_kind f_required] in *. cbn [inst_elem] in Hy.
      rewrite (shape_TaskParam resolve sigma F "PathTaskParameterDefinition") in Hy; [|in_tac|reflexivity].
      destruct (mapM _ l) as [l2|e] eqn:El; cbn [bind] in Hy; [|discriminate Hy]. injection Hy as <-.
      destruct (res_items _ l l2 (Forall2_pre _ f' its l (fmt_item_pre f') Em) El) as [HR Hl2].
      apply DS_list; [exact lc_list|discriminate| |exact HR].
      exact (nonempty_of_len _ _ its l l2 _ Hlen (Forall2_len _ _ _ Em) Hl2).
  Qed.

  (* ---- the parameter space ---- *)
  Lemma sps_def_post : forall raw l cb,
    post_hook classify "StepParameterSpaceDefinition" raw [("taskParameterDefinitions", MList l); ("combination", cb)]
    = nodupb (names_of (MList l))
      && match cb with
         | MStr s0 => match Comb.parse_str classify s0 with
                      | Ok t0 => Comb.accounting false (names_of (MList l)) (Comb.collect_ids t0)
                      | Raise _ => false
                      end
         | _ => true
         end.
  Proof. reflexivity. Qed.

  Theorem param_space_shape : forall f raw x F y,
    pk f (KModel "StepParameterSpaceDefinition") raw = Ok x -> mval_depth x < F -> inst G resolve sigma F x = Ok y ->
    space_shape classify raw_item y.
  Proof.
    intros f raw x F y H HF Hy. destruct f as [|f]; [discriminate H|]. rewrite parse_kind_S in H.
    cls_open H. subst raw x.
    next_field Hm y1 r1 H1. next_field Hm y2 r2 H2. injection Hm as <-.
    apply (pfield_list _ _ _ (Some 1%N) (Some 16%N)) in H1; [|reflexivity|reflexivity].
    destruct H1 as [its [l [-> [_ [Hlen HFl]]]]].
    apply field_single_inv in H2; [|reflexivity]. destruct H2 as [cb [-> Hcb]].
    cbn [f_name f_kind f_required] in *.
    assert (Ecb : cb = MNone \/ exists s, cb = MStr s).
    { destruct Hcb as [[_ [-> _]]|[_ Hp]]; [left; reflexivity|right].
      destruct f' as [|f2]; [discriminate Hp|]. rewrite parse_kind_S in Hp. cbn [parse_scalar] in Hp.
      match type of Hp with context [match ?r with _ => _ end] => destruct r as [| | | |s| |]; try discriminate Hp end.
      apply check_str_ok in Hp. destruct Hp as [-> _]. exists s. reflexivity. }
    clear Hcb.
    destruct F as [|F]; [lia|].
    set (t := MModel "StepParameterSpaceDefinition" _) in *.
    assert (Dl : mval_depth (MList l) < mval_depth t) by (apply (field_depth_lt _ _ "taskParameterDefinitions"); in_tac).
    subst t.
    rewrite shape_ParamSpace in Hy; [|reflexivity|destruct Ecb as [->|[s ->]]; reflexivity].
    destruct (keyed (inst G resolve sigma F) "name" (MList l)) as [d|e] eqn:Ek; cbn [bind] in Hy; [|discriminate Hy].
    injection Hy as <-.
    rewrite sps_def_post in Hpost. apply andb_true_iff in Hpost. destruct Hpost as [Hnd Hacct].
    (* the dictionary *)
    unfold keyed in Ek.
    destruct (fold_left (keyed_step (inst G resolve sigma F) "name") l (Ok [])) as [d0|e] eqn:Efold; cbn [bind] in Ek; [|discriminate Ek].
    injection Ek as <-. destruct (keyed_ok_inv _ _ l [] d0 Efold) as [kys HK].
    assert (Hkeys : map fst kys = names_of (MList l)).
    { unfold names_of. cbn [mitems]. clear - HK. induction HK as [|m ky r r' [Hk _] _ IH]; [reflexivity|]. cbn [map]. rewrite IH.
      rewrite (key_of_mstr "name" m _ Hk). reflexivity. }
    assert (Hd : d0 = kys).
    { pose proof (keyed_distinct (inst G resolve sigma F) "name" l kys HK) as K. unfold keyed in K. rewrite Efold in K. cbn [bind] in K.
      assert (Hn : NoDup (map fst kys)) by (rewrite Hkeys; apply nodupb_NoDup; exact Hnd).
      specialize (K Hn). injection K as ->. reflexivity. }
    subst d0.
    exists kys, cb. split; [reflexivity|]. split.
    { intros ->. inversion HK. subst l. apply Forall2_len in HFl. cbn [List.length] in HFl.
      destruct its; [vm_compute in Hlen; discriminate Hlen|discriminate HFl]. }
    split; [rewrite Hkeys; apply nodupb_NoDup; exact Hnd|]. split.
    - assert (Hdl : forall m, In m l -> mval_depth m < F) by (intros m Hm; pose proof (item_depth l m Hm); lia).
      clear - HFl HK Hdl. revert kys HK. induction HFl as [|it m its l Hp _ IH]; intros kys HK.
      + inversion HK. constructor.
      + inversion HK as [|m' ky l' kys' [_ Hy] HK']; subst. constructor.
        * exact (task_param_shape f' F it m (snd ky) Hp (Hdl m (or_introl eq_refl)) Hy).
        * apply IH; [intros m' Hm'; apply Hdl; right; exact Hm'|exact HK'].
    - rewrite Hkeys. destruct Ecb as [->|[s ->]]; [left; reflexivity|right].
      destruct (Comb.parse_str classify s) as [ct|e] eqn:Ep; [|discriminate Hacct].
      exists s, ct. repeat split; assumption.
  Qed.

  (* ---- one step ---- *)
  Definition step_rel (m y : mval) : Prop :=
    step_name y = step_name m /\ dep_names y = dep_names m /\
    (step_space y = MNone \/ space_shape classify raw_item (step_space y)).

  Theorem step_shape : forall f it x F y,
    pk f (KModel "StepTemplate") it = Ok x -> mval_depth x < F -> inst G resolve sigma F x = Ok y -> step_rel x y.
  Proof.
    intros f it x F y H HF Hy.
    destruct f as [|f]; [discriminate H|]. rewrite parse_kind_S in H.
    cls_open H. subst it x. subst f. rename f' into f.
    next_field Hm y1 r1 H1. next_field Hm y2 r2 H2. next_field Hm y3 r3 H3. next_field Hm y4 r4 H4.
    next_field Hm y5 r5 H5. next_field Hm y6 r6 H6. next_field Hm y7 r7 H7. injection Hm as <-.
    apply field_exact_inv in H1; [|reflexivity|reflexivity]. destruct H1 as [n [-> [Hln Hn]]].
    apply field_exact_inv in H2; [|reflexivity|reflexivity]. destruct H2 as [d [-> [Hld Hd]]].
    apply field_single_inv in H3; [|reflexivity]. destruct H3 as [sc [-> Hsc]].
    apply (field_list_inv classify _ _ _ (Some 1%N) None) in H4; [|reflexivity]. destruct H4 as [se [-> Hse]].
    apply field_single_inv in H5; [|reflexivity]. destruct H5 as [ps [-> Hpsf]].
    apply field_single_inv in H6; [|reflexivity]. destruct H6 as [hr [-> Hhrf]].
    apply (field_list_inv classify _ _ _ (Some 1%N) None) in H7; [|reflexivity]. destruct H7 as [dp [-> Hdp]].
    cbn [f_name f_kind f_required] in *.
    destruct Hsc as [[_ [_ Hreq]]|[Hscn Hscp]]; [discriminate Hreq|].
    destruct (pk_model_shape classify f _ _ _ Hscp) as [scf Esc].
    assert (Sps : single ps = true).
    { destruct Hpsf as [[_ [-> _]]|[_ Hp]]; [reflexivity|]. destruct (pk_model_shape classify f _ _ _ Hp) as [fs ->]. reflexivity. }
    assert (Shr : single hr = true).
    { destruct Hhrf as [[_ [-> _]]|[_ Hp]]; [reflexivity|]. destruct (pk_model_shape classify f _ _ _ Hp) as [fs ->]. reflexivity. }
    assert (Sse : opt_list se = true /\ incl (classes_in se) carried_classes).
    { destruct Hse as [[_ [-> _]]|[items [l [_ [-> HF2]]]]]; [split; [reflexivity|intros c []]|].
      split; [reflexivity|]. apply (list_classes_carried classify f (KModel "Environment") items l); [|exact HF2].
      intros c [<-|[]]. apply (proj1 (DecodeInv.mem_s_In _ _)). reflexivity. }
    assert (Sdp : opt_list dp = true /\ incl (classes_in dp) carried_classes).
    { destruct Hdp as [[_ [-> _]]|[items [l [_ [-> HF2]]]]]; [split; [reflexivity|intros c []]|].
      split; [reflexivity|]. apply (list_classes_carried classify f (KModel "StepDependency") items l); [|exact HF2].
      intros c [<-|[]]. apply (proj1 (DecodeInv.mem_s_In _ _)). reflexivity. }
    destruct Sse as [Sse Kse]. destruct Sdp as [Sdp Kdp].
    assert (Ksc : incl (classes_in sc) carried_classes).
    { apply (pk_classes_carried classify f _ _ _ Hscp). intros c [<-|[]]. apply (proj1 (DecodeInv.mem_s_In _ _)). reflexivity. }
    destruct F as [|F]; [lia|].
    set (t := MModel "StepTemplate" _) in *.
    assert (Dsc : mval_depth sc < mval_depth t) by (apply (field_depth_lt _ _ "script"); in_tac).
    assert (Dse : mval_depth se < mval_depth t) by (apply (field_depth_lt _ _ "stepEnvironments"); in_tac).
    assert (Dps : mval_depth ps < mval_depth t) by (apply (field_depth_lt _ _ "parameterSpace"); in_tac).
    assert (Ddp : mval_depth dp < mval_depth t) by (apply (field_depth_lt _ _ "dependencies"); in_tac).
    subst t.
    rewrite (shape_StepTemplate_carried resolve sigma F n d sc se ps hr dp) in Hy; try assumption; try lia;
      [|rewrite Esc; reflexivity].
    destruct (inst_elem (inst G resolve sigma F) ps) as [ps'|e] eqn:Eps; cbn [bind] in Hy; [|discriminate Hy].
    destruct (inst_elem (inst G resolve sigma F) hr) as [hr'|e] eqn:Ehr; cbn [bind] in Hy; [|discriminate Hy].
    injection Hy as <-.
    unfold step_rel. split; [reflexivity|]. split; [reflexivity|].
    unfold step_space. cbn [model_fields mfield lookup_s String.eqb Ascii.eqb Bool.eqb].
    destruct Hpsf as [[_ [-> _]]|[_ Hp]].
    - cbn [inst_elem] in Eps. injection Eps as <-. left. reflexivity.
    - right. destruct (pk_model_shape classify f _ _ _ Hp) as [fs Eq]. rewrite Eq in Eps. cbn [inst_elem] in Eps. rewrite <- Eq in Eps.
      apply (param_space_shape f _ ps F ps' Hp); [lia|exact Eps].
  Qed.

  Lemma steps_shape : forall f F items l l',
    Forall2 (fun it m => pk f (KModel "StepTemplate") it = Ok m) items l ->
    (forall m, In m l -> mval_depth m < F) ->
    mapM (inst_elem (inst G resolve sigma F)) l = Ok l' ->
    Forall2 step_rel l l'.
  Proof.
    intros f F items l l' HF. revert l'. induction HF as [|it m r r' Hp _ IH]; intros l' Hd Hm.
    - injection Hm as <-. constructor.
    - cbn [mapM] in Hm. destruct (inst_elem (inst G resolve sigma F) m) as [y|e] eqn:Ey; cbn [bind] in Hm; [|discriminate Hm].
      destruct (mapM _ r') as [ys|e] eqn:Er; cbn [bind] in Hm; [|discriminate Hm]. injection Hm as <-.
      destruct (pk_model_shape classify f _ _ _ Hp) as [fs Em]. rewrite Em in Ey. cbn [inst_elem] in Ey. rewrite <- Em in Ey.
      constructor.
      + exact (step_shape f it m F y Hp (Hd m (or_introl eq_refl)) Ey).
      + apply IH; [intros m' Hm'; apply Hd; right; exact Hm'|reflexivity].
  Qed.

  (* ---- the template root ---- *)
  Theorem job_shape : forall j t F y,
    decode_job classify j = Ok t -> mval_depth t < F -> inst G resolve sigma F t = Ok y ->
    exists fs_t l fs_j l',
      t = MModel "JobTemplate" fs_t /\ fget "steps" fs_t = MList l /\ job_template_ok classify j fs_t = true /\
      y = MModel "Job" fs_j /\ mfield "steps" fs_j = MList l' /\ Forall2 step_rel l l'.
  Proof.
    intros j t F y H HF Hy. unfold decode_job in H.
    destruct j as [| | | | | |ms]; try discriminate H.
    destruct (version_ok Generated.job_template_versions (JObj ms)); [|discriminate H].
    unfold parse_template, parse_root in H.
    cls_open H. injection Ev as <-. subst t.
    next_field Hm y1 r1 H1. next_field Hm y2 r2 H2. next_field Hm y3 r3 H3. next_field Hm y4 r4 H4.
    next_field Hm y5 r5 H5. next_field Hm y6 r6 H6. next_field Hm y7 r7 H7. injection Hm as <-.
    apply field_any_inv in H1. destruct H1 as [sv ->].
    apply format_field_inv in H2. destruct H2 as [s [-> [Hs _]]].
    apply (field_list_inv classify _ _ _ (Some 1%N) None) in H3; [|reflexivity]. destruct H3 as [st [-> Hst]].
    apply field_exact_inv in H4; [|reflexivity|reflexivity]. destruct H4 as [d [-> [Hld Hd]]].
    apply (field_list_inv classify _ _ _ (Some 1%N) (Some 50%N)) in H5; [|reflexivity]. destruct H5 as [pd [-> Hpd]].
    apply (field_list_inv classify _ _ _ (Some 1%N) None) in H6; [|reflexivity]. destruct H6 as [je [-> Hje]].
    apply field_any_inv in H7. destruct H7 as [ss ->].
    cbn [f_name f_kind f_required] in *.
    destruct Hst as [[_ [_ Hreq]]|[sitems [l [Esteps [-> HFst]]]]]; [discriminate Hreq|].
    destruct F as [|F]; [lia|].
    set (t := MModel "JobTemplate" _) in *.
    assert (Dst : mval_depth (MList l) < mval_depth t) by (apply (field_depth_lt _ _ "steps"); in_tac).
    subst t.
    assert (Spd : opt_list pd = true) by (destruct Hpd as [[_ [-> _]]|[it' [l' [_ [-> _]]]]]; reflexivity).
    assert (Sje : opt_list je = true) by (destruct Hje as [[_ [-> _]]|[it' [l' [_ [-> _]]]]]; reflexivity).
    rewrite (shape_JobTemplate resolve sigma F sv s (MList l) d pd je ss) in Hy; try assumption; try reflexivity.
    destruct (resolve sigma s) as [n|e] eqn:En; cbn [bind] in Hy; [|discriminate Hy].
    cbn [elems] in Hy.
    destruct (mapM (inst_elem (inst G resolve sigma F)) l) as [l'|e] eqn:El; cbn [bind] in Hy; [|discriminate Hy].
    destruct (keyed (inst G resolve sigma F) "name" pd) as [p|e] eqn:Ep; cbn [bind] in Hy; [|discriminate Hy].
    destruct (CreateJobProofs.elems (inst G resolve sigma F) je) as [je'|e] eqn:Eje; cbn [bind] in Hy; [|discriminate Hy].
    injection Hy as <-.
    eexists. exists l. eexists. exists l'. split; [reflexivity|]. split; [reflexivity|]. split; [exact Hpost|].
    split; [reflexivity|]. split; [reflexivity|].
    apply (steps_shape f' F sitems l l' HFst); [|exact El].
    intros m Hm. pose proof (item_depth l m Hm). lia.
  Qed.
End Trace.
