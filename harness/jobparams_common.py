"""Shared helpers of harness/c10.py and harness/c12.py (component `jobparams`).

* conversion of DECODED parameter definitions (the objects decode_*_template returns) to the
  wire form of the Coq record `pdef` (coq/theories/JobParams.v);
* the numeral domain of coq/theories/Numerals.v and its differential test against Python's
  own int() / decimal.Decimal() (decimal digits of every script included);
* value pools.
"""
from __future__ import annotations

import json
import sys
import unicodedata
from decimal import Decimal, InvalidOperation
from pathlib import Path
from os.path import normpath

sys.path.insert(0, str(Path(__file__).resolve().parent))
import core  # noqa: E402

from openjd.model import (  # noqa: E402
    DecodeValidationError,
    decode_environment_template,
    decode_job_template,
)

STEP = {"name": "S", "script": {"actions": {"onRun": {"command": "e"}}}}


def job_template(params):
    t = {"specificationVersion": "jobtemplate-2023-09", "name": "J", "steps": [STEP]}
    if params is not None:
        t["parameterDefinitions"] = params
    return decode_job_template(template=t)


def env_template(name, params):
    t = {"specificationVersion": "environment-2023-09", "environment": {"name": name, "variables": {"A": "b"}}}
    if params is not None:
        t["parameterDefinitions"] = params
    return decode_environment_template(template=t)


_cache: dict = {}


def decoded(kind, params, name="E"):
    """decode (cached per process); None when the decoder rejects the definitions"""
    key = kind + name + json.dumps(params, sort_keys=True, default=str)
    if key in _cache:
        return _cache[key]
    try:
        r = job_template(params) if kind == "job" else env_template(name, params)
    except DecodeValidationError:
        r = None
    if len(_cache) > 20000:
        _cache.clear()
    _cache[key] = r
    return r


# ---------------------------------------------------------------- wire conversion
def opt(x, f=lambda y: y):
    return "none" if x is None else ["some", f(x)]


def num_of(x):
    """int or finite Decimal -> [mantissa, exponent] (exact)"""
    if isinstance(x, bool):
        raise TypeError("bool bound")
    if isinstance(x, int):
        return [x, 0]
    if isinstance(x, Decimal):
        sign, digits, exp = x.as_tuple()
        if not isinstance(exp, int):
            raise ValueError("non-finite Decimal in a decoded definition")
        m = int("".join(map(str, digits)))
        return [-m if sign else m, exp]
    raise TypeError(type(x).__name__)


class _Lit:
    def __init__(self, v):
        self.value = v


def def_sx(p, raw=None):
    """decoded Job*ParameterDefinition -> wire form of `pdef`.  With the definition as the DOCUMENT has it (`raw`), what the
    document says outright — type, objectType, dataFlow: enumerated words, nothing to interpret — is taken from there: a
    decoder that rewrites them is then seen by the comparison instead of being believed."""
    ty = p.type.value
    numeric = ty in ("INT", "FLOAT")
    ot = getattr(p, "objectType", None)
    df = getattr(p, "dataFlow", None)
    if isinstance(raw, dict) and raw.get("type") == ty:
        ot = _Lit(raw["objectType"]) if isinstance(raw.get("objectType"), str) else None
        df = _Lit(raw["dataFlow"]) if isinstance(raw.get("dataFlow"), str) else None
    return [
        core.cps(p.name),
        ty,
        opt(p.minValue if numeric else None, num_of),
        opt(p.maxValue if numeric else None, num_of),
        opt(p.allowedValues if numeric else None, lambda l: [num_of(a) for a in l]),
        opt(p.allowedValues if not numeric else None, lambda l: [core.cps(a) for a in l]),
        opt(None if numeric else p.minLength),
        opt(None if numeric else p.maxLength),
        opt(p.default, lambda d: core.cps(str(d))),       # the text _collect_defaults computes
        opt(ot, lambda o: o.value),
        opt(df, lambda o: o.value),
    ]


def unbig(a):
    """reply atom 0 | b<bits> | -b<bits> -> int"""
    if isinstance(a, int):
        return a
    if a.startswith("-b"):
        return -int(a[2:], 2)
    if a.startswith("b"):
        return int(a[1:], 2)
    raise ValueError(a)


# ---------------------------------------------------------------- numeral domain (Numerals.v)
UNI_SPACE = [0x85, 0xA0, 0x1680] + list(range(0x2000, 0x200B)) + [0x2028, 0x2029, 0x202F, 0x205F, 0x3000]
INT_SPACE = [9, 10, 11, 12, 13, 32] + UNI_SPACE
DEC_SPACE = INT_SPACE + [28, 29, 30, 31]


# Decimal digits of every script: what int() / Decimal() read (str.isdecimal(), category Nd), and what Numerals.v reads
# through Generated.unicode_zero_digits (tools/regen.py emits that table from the same interpreter tables and checks that
# the digits come in blocks of ten consecutive code points).  DIGIT_ZEROS[0] == 48.
DIGIT_ZEROS = [c for c in range(0x110000) if chr(c).isdecimal() and unicodedata.decimal(chr(c)) == 0]
# module-level str on purpose: harnesses that ship a class table build it from the pools of this module (c10full._pool_chars)
UNI_DIGITS = "".join(chr(z + k) for z in DIGIT_ZEROS[1:] for k in range(10))
# scripts the value generators favour, spelled literally (harnesses that build their class table from the non-ASCII
# characters of this source text, like c06full, get them for free): Arabic-Indic, Extended Arabic-Indic, Devanagari,
# Bengali, Thai, Tibetan, Myanmar, Khmer, Mongolian, fullwidth, Osmanya, mathematical bold / double-struck / monospace,
# Adlam, segmented
COMMON_DIGITS = ["٠١٢٣٤٥٦٧٨٩", "۰۱۲۳۴۵۶۷۸۹", "०१२३४५६७८९", "০১২৩৪৫৬৭৮৯", "๐๑๒๓๔๕๖๗๘๙", "༠༡༢༣༤༥༦༧༨༩", "၀၁၂၃၄၅၆၇၈၉", "០១២៣៤៥៦៧៨៩",
                 "᠐᠑᠒᠓᠔᠕᠖᠗᠘᠙", "０１２３４５６７８９", "𐒠𐒡𐒢𐒣𐒤𐒥𐒦𐒧𐒨𐒩", "𝟎𝟏𝟐𝟑𝟒𝟓𝟔𝟕𝟖𝟗", "𝟘𝟙𝟚𝟛𝟜𝟝𝟞𝟟𝟠𝟡", "𝟶𝟷𝟸𝟹𝟺𝟻𝟼𝟽𝟾𝟿", "𞥐𞥑𞥒𞥓𞥔𞥕𞥖𞥗𞥘𞥙", "🯰🯱🯲🯳🯴🯵🯶🯷🯸🯹"]
COMMON_DIGITS = [d for d in COMMON_DIGITS if len(d) == 10 and ord(d[0]) in DIGIT_ZEROS and [ord(c) - ord(d[0]) for c in d] == list(range(10))]
ASCII_DIGITS = "0123456789"
ALL_DIGIT_BLOCKS = ["".join(chr(z + k) for k in range(10)) for z in DIGIT_ZEROS]
# the code points just below and just above every block that are NOT decimal digits (the boundaries of the table) ...
DIGIT_NEIGHBOURS = "".join(sorted({chr(c) for z in DIGIT_ZEROS[1:] for c in (z - 1, z + 10)
                                   if not chr(c).isdecimal() and not 0xD800 <= c <= 0xDFFF}))
# ... and characters that are digits for str.isdigit() / numeric for unicodedata.numeric() but not DECIMAL digits, and the
# non-ASCII spellings of sign, point, exponent letter, underscore: int() / Decimal() reject them all
NOT_DECIMAL = ["³", "¹", "①", "⑨", "፩", "፱", "一", "〇", "௰", "𐄇", "𑁒", "٬", "．", "＋", "－", "ｅ", "Ｅ", "＿"]


def in_numeral_domain(s: str, max_exp_digits=9) -> bool:
    """the domain claimed in Numerals.v: < 4300 digits, bounded exponent text (decimal digits of every script are IN
    the domain: the model reads them as Python does)"""
    if len(s) > 4000:
        return False
    t = s.replace("_", "")
    for mark in ("e", "E"):
        if mark in t:
            tail = t.rsplit(mark, 1)[1].strip().lstrip("+-")
            if len(tail) > max_exp_digits:
                return False
    return True


def small_exponent(s: str, limit=3) -> bool:
    """additional restriction for strings whose VALUE is compared by the extracted model
    (10^|e| is computed with unary-free but algebraic integers): exponent text <= 3 digits"""
    return in_numeral_domain(s, limit)


def py_int(s):
    try:
        return ["some", int(s)]
    except ValueError:
        return "none"
    except BaseException as e:  # noqa: BLE001
        return ["exc", type(e).__name__]


def py_dec(s):
    try:
        d = Decimal(s)
    except InvalidOperation:
        return "none"
    except BaseException as e:  # noqa: BLE001
        return ["exc", type(e).__name__]
    if d.is_nan():
        return "nan"
    if d.is_infinite():
        return ["inf", d.is_signed()]
    return ["fin"] + num_of(d)


def model_int(reply):
    if reply == "none":
        return "none"
    return ["some", unbig(reply[1])]


def model_dec(reply):
    if reply in ("none", "nan"):
        return reply
    if reply[0] == "inf":
        return ["inf", reply[1] == "true"]
    if reply[0] == "fin":
        return ["fin", unbig(reply[1]), unbig(reply[2])]
    return ["driver", reply]


WS_POOL = [chr(c) for c in DEC_SPACE] + [" ", " ", "\t", "\n"]
JUNK = list("abcxyzEe+-._ ,/") + ["\x00", "\x7f", "é", "²", "−", "½", "Ⅷ", "٫", "0x", "0b", "0o", "j", "L", "%"] + NOT_DECIMAL


def rand_digit_source(rng):
    """-> a function drawing one digit character.  70%: ASCII only; otherwise one other script, ASCII mixed with one
    other script, or every digit from a script of its own (favoured scripts 60%, any block of the table 40%)"""
    r = rng.random()
    if r < 0.70:
        return lambda: rng.choice(ASCII_DIGITS)
    pick_block = lambda: rng.choice(COMMON_DIGITS) if rng.random() < 0.6 else rng.choice(ALL_DIGIT_BLOCKS)  # noqa: E731
    if r < 0.82:
        b = pick_block()
        return lambda: rng.choice(b)
    if r < 0.93:
        b = pick_block()
        return lambda: rng.choice(b if rng.random() < 0.5 else ASCII_DIGITS)
    return lambda: rng.choice(pick_block())


def rand_digits(rng, lo=1, hi=6):
    n = rng.randint(lo, hi)
    if rng.random() < 0.03:
        n = rng.randint(30, 300)
    draw = rand_digit_source(rng)
    return "".join(draw() for _ in range(n))


def rand_group(rng):
    """digits with underscores, mostly well placed"""
    parts = [rand_digits(rng, 1, 4) for _ in range(rng.randint(1, 3))]
    k = rng.random()
    s = "_".join(parts) if k < 0.5 else "".join(parts)
    if k > 0.9:
        s = rng.choice(["_", "__"]) + s
    elif k > 0.8:
        s = s + rng.choice(["_", "__"])
    elif k > 0.7 and len(parts) > 1:
        s = parts[0] + "__" + "".join(parts[1:])
    return s


def rand_numeral(rng):
    """a string of the numeral domain, biased to (almost) well-formed int / Decimal syntax"""
    k = rng.random()
    sign = rng.choice(["", "", "", "+", "-", "+-", "--", "- "])
    if k < 0.30:
        body = rand_group(rng)
    elif k < 0.60:
        ip = rand_group(rng) if rng.random() < 0.85 else ""
        fp = rand_group(rng) if rng.random() < 0.85 else ""
        body = ip + rng.choice([".", ".", ".", "..", ""]) + fp
        if rng.random() < 0.5:
            ed = rand_digits(rng, 0 if rng.random() < 0.1 else 1, 3)
            if rng.random() < 0.1:
                ed = rand_digits(rng, 4, 9)
            body += rng.choice(["e", "E", "e", "E", "e_", "ee"]) + rng.choice(["", "", "+", "-", "+-", " "]) + ed
            if rng.random() < 0.05:
                body += rng.choice([".5", "e1", "x"])
    elif k < 0.75:
        w = rng.choice(["inf", "infinity", "nan", "snan", "Inf", "Infinity", "NaN", "sNaN", "INF", "iNfInItY", "infinit", "infinityy", "in", "na", "nann", "snann", "qnan", "s_nan", "n_an"])
        if rng.random() < 0.3:
            w = "".join(c.upper() if rng.random() < 0.5 else c.lower() for c in w)
        body = w + (rand_digits(rng, 1, 4) if rng.random() < 0.35 else "") + (rng.choice(["x", ".", "e1", " 1", "_"]) if rng.random() < 0.1 else "")
    elif k < 0.85:
        pool = JUNK + list(ASCII_DIGITS) + list(rng.choice(COMMON_DIGITS)) + ([rng.choice(DIGIT_NEIGHBOURS), rng.choice(UNI_DIGITS)] if rng.random() < 0.5 else [])
        body = "".join(rng.choice(pool) for _ in range(rng.randint(0, 5)))
    else:
        body = rand_digits(rng, 1, 3)
        i = rng.randint(0, len(body))
        body = body[:i] + (rng.choice(DIGIT_NEIGHBOURS) if rng.random() < 0.15 else rng.choice(JUNK + WS_POOL)) + body[i:]
    pre = "".join(rng.choice(WS_POOL) for _ in range(rng.choice([0, 0, 0, 1, 1, 2])))
    post = "".join(rng.choice(WS_POOL) for _ in range(rng.choice([0, 0, 0, 1, 1, 2])))
    s = pre + sign + body + post
    if rng.random() < 0.03:
        i = rng.randint(0, len(s))
        s = s[:i] + rng.choice(WS_POOL) + s[i:]
    return s


NUMERAL_CORPUS = [
    "", " ", "0", "-0", "+0", "00", "007", "1_0", "1__0", "_1", "1_", "_", " 5 ", "\x1f5", "\x855", "\xa05　", "+3", "+-3",
    "1e2", "1E+2", "1e-2", "abc", "1 2", ".5", "5.", ".", "e5", "1e", "1e+", "Inf", "-inf", "INFINITY", "infinit", "nan", "NaN12",
    "sNaN", "-snan007", "nanx", "1.5.2", "1e5.2", "0e0", "-0.0", "1e999999999", "\x007", "5\x00", "+.5e-1", "in f", "iNf", "1e+_5",
    "- 1", "−1", "²", "1²", "1_e_5", "N_aN", "0x1", "\t\n\x0b\x0c\r 7", "\x1c7", "7\x1c", "\x1c 7 \x1f", "1_000_000", "1.0_0", "1._5",
    "_.5", "1e1_0", "-_1", "+_1", "9" * 100, "-" + "9" * 300, "0." + "0" * 80 + "1", "1" + "0" * 60 + ".5", "nan_", "inf_", "_inf",
    "+nan", "-NaN", "+sNaN5", "infinity1", "inf1", "nan 1", "1e 5", "1 e5", "1e5 ", " 1e5", " 1 ", " -7 ",
    # decimal digits of other scripts (the facts F1..F7 listed in Numerals.v)
    "１２", "٣", "1٢", "𝟎𝟗", "١.٥", "0０.０0", "①", "²", "一", "፩", "１_２", "1_٢", "１__２", "_１", "１_", "1_._5", "nan_１",
    "-٣", "+１", "＋1", "－1", "−1", "1E＋1", "\u2003１２\u2003", "　1　", "\x1c１２", "１２\x1f", "\x1c１\x1f", "１　２", "１ １", ".٥", "٥.",
    "1e１", "1e-１", "１E-٣", "١e١_٠", "nan１", "sNaN٠٠٧", "inf１", "１．５", "1٫5", "1ｅ1", "ｉｎｆ", "ＮaN", "０x１", "0b１", "٣" * 300,
    "-" + "𝟡" * 120 + ".𝟘", "٠٠٧", "٣_٣_٣", "- ٣", "٣-", "+-٣", "１é", "é１", "１\x00", "\x00１", "𞥐", "🯰🯱", "１e１.１", "１.２.３",
    "\U0001d7cd1", "1\U0001d800", "/٠", "٠:", "９：", "／０", "1e٣٣٣", "1e-٣٣٣", "٣e999999999",
] + [b[0] + b[9] + "_" + b[5] for b in ALL_DIGIT_BLOCKS] + [b[3] + "." + b[7] + "e" + b[1] for b in ALL_DIGIT_BLOCKS] \
  + [chr(ord(b[0]) - 1) for b in ALL_DIGIT_BLOCKS] + [chr(ord(b[9]) + 1) for b in ALL_DIGIT_BLOCKS]


# ---------------------------------------------------------------- PATH strings (restricted; C11 owns the rest)
def check_path_claim(v: str, as_default: bool):
    """the two concrete joins of JobParams.v (simple_path_in / simple_path_default) agree with
    pathlib on the PATH strings this harness uses; raises AssertionError otherwise"""
    if v == "":
        return
    if as_default:
        p = Path(v)
        if p.is_absolute():
            assert v.startswith("/"), v
        else:
            assert not v.startswith("/"), v
            q = Path(normpath(Path("/t") / p))
            assert q.is_relative_to(Path("/t")) and str(q) == "/t/" + v, v
    else:
        if Path(v).is_absolute():
            assert v.startswith("/"), v
        else:
            assert not v.startswith("/"), v
            assert str(Path("/c") / v) == "/c/" + v, v
