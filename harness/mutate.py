"""mutate.py — rule-typed mutation operators on 2023-09 template documents (DESIGN.md Appendix C/F).

Every operator takes (rng, doc), edits `doc` in place and returns True when it found a site.
`kind` says what the operator is meant to do to validity: 'break' (violates the named rule),
'keep' (sits exactly on a boundary: must stay valid) or 'any' (depends on the document).  The
labels are used for coverage accounting only: the verdict that counts is always model vs
implementation."""
from __future__ import annotations

import random

OPS = []


def op(rule, kind):
    def deco(f):
        OPS.append((f.__name__, rule, kind, f))
        return f
    return deco


# ------------------------------------------------------------------ selectors
def L(x):
    """a list-valued member, or nothing when the document has something else there"""
    return x if isinstance(x, list) else []


def steps(doc):
    return [s for s in L(doc.get("steps")) if isinstance(s, dict)]


def envs(doc):
    out = []
    for e in L(doc.get("jobEnvironments")):
        out.append(e)
    for s in steps(doc):
        for e in L(s.get("stepEnvironments")):
            out.append(e)
    if isinstance(doc.get("environment"), dict):
        out.append(doc["environment"])
    return [e for e in out if isinstance(e, dict)]


def scripts(doc):
    out = [s["script"] for s in steps(doc) if isinstance(s.get("script"), dict)]
    out += [e["script"] for e in envs(doc) if isinstance(e.get("script"), dict)]
    return out


def actions(doc):
    out = []
    for sc in scripts(doc):
        acts = sc.get("actions")
        if isinstance(acts, dict):
            for k in ("onRun", "onEnter", "onExit"):
                if isinstance(acts.get(k), dict):
                    out.append(acts[k])
    return out


def files(doc):
    return [f for sc in scripts(doc) for f in L(sc.get("embeddedFiles")) if isinstance(f, dict)]


def job_params(doc, types=None):
    return [p for p in L(doc.get("parameterDefinitions")) if isinstance(p, dict) and (types is None or p.get("type") in types)]


def spaces(doc):
    return [s["parameterSpace"] for s in steps(doc) if isinstance(s.get("parameterSpace"), dict)]


def task_params(doc, types=None):
    return [t for ps in spaces(doc) for t in L(ps.get("taskParameterDefinitions")) if isinstance(t, dict) and (types is None or t.get("type") in types)]


def host_reqs(doc):
    return [s["hostRequirements"] for s in steps(doc) if isinstance(s.get("hostRequirements"), dict)]


def amounts(doc):
    return [a for h in host_reqs(doc) for a in L(h.get("amounts")) if isinstance(a, dict)]


def attributes(doc):
    return [a for h in host_reqs(doc) for a in L(h.get("attributes")) if isinstance(a, dict)]


def pick(rng, l):
    return rng.choice(l) if l else None


def ensure_host_req(rng, doc):
    st = pick(rng, steps(doc))
    if st is None:
        return None
    if not isinstance(st.get("hostRequirements"), dict):
        st["hostRequirements"] = {"amounts": [{"name": "amount.custom", "min": 1}], "attributes": [{"name": "attr.custom", "anyOf": ["v1"]}]}
    h = st["hostRequirements"]
    h.setdefault("amounts", [{"name": "amount.custom", "min": 1}])
    h.setdefault("attributes", [{"name": "attr.custom", "anyOf": ["v1"]}])
    return h


def ensure_space(rng, doc, n=2):
    st = pick(rng, steps(doc))
    if st is None:
        return None
    if not isinstance(st.get("parameterSpace"), dict):
        st["parameterSpace"] = {"taskParameterDefinitions": [{"name": f"T{i}", "type": "INT", "range": [1, 2]} for i in range(n)]}
    return st["parameterSpace"]


def ensure_param(rng, doc, t):
    ps = job_params(doc, [t])
    if ps:
        return rng.choice(ps)
    doc.setdefault("parameterDefinitions", [])
    if not isinstance(doc["parameterDefinitions"], list) or len(doc["parameterDefinitions"]) >= 50:
        return None
    p = {"name": f"Zz{t.title()}{rng.randint(0, 999)}", "type": t}
    doc["parameterDefinitions"].append(p)
    return p


# ------------------------------------------------------------------ generic structure
@op("required-key", "break")
def drop_required(rng, doc):
    cands = [(doc, "specificationVersion"), (doc, "name") if "steps" in doc else (doc, "environment"), (doc, "steps") if "steps" in doc else (doc, "environment")]
    cands += [(s, k) for s in steps(doc) for k in ("name", "script")]
    cands += [(a, "command") for a in actions(doc)]
    cands += [(f, k) for f in files(doc) for k in ("name", "type", "data")]
    cands += [(p, k) for p in job_params(doc) for k in ("name", "type")]
    cands += [(t, k) for t in task_params(doc) for k in ("name", "type", "range")]
    cands += [(e, "name") for e in envs(doc)]
    cands += [(a, "name") for a in amounts(doc) + attributes(doc)]
    cands += [(sc, "actions") for sc in scripts(doc)]
    cands = [(o, k) for o, k in cands if k in o]
    if not cands:
        return False
    o, k = rng.choice(cands)
    if rng.random() < 0.5:
        del o[k]
    else:
        o[k] = None
    return True


@op("extra-forbidden", "break")
def add_unknown_key(rng, doc):
    objs = [doc] + steps(doc) + actions(doc) + files(doc) + job_params(doc) + task_params(doc) + envs(doc) + scripts(doc) + amounts(doc) + attributes(doc) + host_reqs(doc) + spaces(doc)
    o = rng.choice(objs)
    o[rng.choice(["extra", "Name", "schemaStr", "timeoutt", "x-note"])] = rng.choice([1, "x", None, [], {}])
    return True


@op("explicit-null-optional", "keep")
def null_optional(rng, doc):
    cands = [(doc, k) for k in ("description", "parameterDefinitions", "jobEnvironments", "$schema")]
    cands += [(s, k) for s in steps(doc) for k in ("description", "stepEnvironments", "parameterSpace", "hostRequirements", "dependencies")]
    cands += [(a, k) for a in actions(doc) for k in ("args", "timeout", "cancelation")]
    cands += [(f, k) for f in files(doc) for k in ("filename", "runnable")]
    cands += [(p, k) for p in job_params(doc) for k in ("description", "userInterface", "default", "allowedValues", "minLength", "maxLength", "minValue", "maxValue", "objectType", "dataFlow")]
    o, k = rng.choice(cands)
    if k in o and k in ("allowedValues",) and isinstance(o.get("userInterface"), dict):
        return False
    o[k] = None
    return True


JUNK = [True, False, 0, 1, -1, 1.5, "", "x", "1", [], [1], ["x"], {}, {"x": 1}]


@op("type-confusion", "any")
def type_confuse(rng, doc):
    objs = [doc] + steps(doc) + actions(doc) + files(doc) + job_params(doc) + task_params(doc) + envs(doc) + scripts(doc) + amounts(doc) + attributes(doc) + host_reqs(doc) + spaces(doc)
    o = rng.choice(objs)
    if not o:
        return False
    k = rng.choice(list(o.keys()))
    o[k] = rng.choice(JUNK)
    return True


# ------------------------------------------------------------------ lengths and character sets
def _id(n):
    return ("I" + "d" * n)[:n]


@op("identifier-length", "any")
def identifier_len(rng, doc):
    objs = files(doc) + job_params(doc) + task_params(doc)
    o = pick(rng, objs)
    if o is None:
        return False
    n = rng.choice([64, 65, 1])
    old = o.get("name")
    o["name"] = _id(n) + ("" if n < 64 else "")
    if isinstance(old, str):
        _rename_refs(doc, old, o["name"])
    return True


def _rename_refs(doc, old, new):
    """keep references and combination expressions consistent with a renamed identifier (best effort)"""
    def walk(x):
        if isinstance(x, dict):
            for k, v in list(x.items()):
                if isinstance(v, str) and k != "name":
                    x[k] = _sub(v, old, new)
                else:
                    walk(v)
        elif isinstance(x, list):
            for i, v in enumerate(x):
                if isinstance(v, str):
                    x[i] = _sub(v, old, new)
                else:
                    walk(v)
    walk(doc)


def _sub(s, old, new):
    import re
    return re.sub(r"(?<![A-Za-z0-9_])" + re.escape(old) + r"(?![A-Za-z0-9_])", new, s)


@op("identifier-charset", "break")
def identifier_chars(rng, doc):
    o = pick(rng, files(doc) + job_params(doc) + task_params(doc))
    if o is None:
        return False
    o["name"] = rng.choice(["1abc", "a-b", "a b", "é", "", "a.b", "a\n", "_", "a" * 65])
    return o["name"] != "_"


@op("name-length-charset", "any")
def std_name(rng, doc):
    o = pick(rng, steps(doc) + envs(doc))
    if o is None:
        return False
    o["name"] = rng.choice(["n" * 64, "n" * 65, "", "a\tb", "a\x7fb", "a\x80b", "a\xa0b", " ", "é" * 64])
    return True


@op("description", "any")
def description(rng, doc):
    o = pick(rng, [doc] + steps(doc) + envs(doc) + job_params(doc))
    o["description"] = rng.choice(["d" * 2048, "d" * 2049, "", "a\x07b", "a\r\n\tb", "\x00"])
    return True


@op("command-args", "any")
def command_args(rng, doc):
    a = pick(rng, actions(doc))
    if a is None:
        return False
    k = rng.random()
    if k < 0.3:
        a["command"] = rng.choice(["", "a\nb", "a\tb", "ok", " "])
    elif k < 0.6:
        a["args"] = rng.choice([[], [""], ["a\nb"], ["a\x00"], ["ok", ""], "notalist"])
    elif k < 0.8:
        a["timeout"] = rng.choice([0, 1, -5, True, "5", 2.0, 1.5])
    else:
        a["cancelation"] = rng.choice([{"mode": "TERMINATE"}, {"mode": "NOTIFY_THEN_TERMINATE", "notifyPeriodInSeconds": rng.choice([0, 1, 600, 601, "30"])},
                                       {"mode": "terminate"}, {"mode": "OTHER"}, {}, {"mode": "TERMINATE", "notifyPeriodInSeconds": 5}, {"notifyPeriodInSeconds": 5}])
    return True


@op("embedded-file", "any")
def embedded_file(rng, doc):
    f = pick(rng, files(doc))
    if f is None:
        sc = pick(rng, scripts(doc))
        if sc is None:
            return False
        sc["embeddedFiles"] = rng.choice([[], [{"name": "F", "type": "TEXT", "data": "x"}], [{"name": "F", "type": "TEXT", "data": "x"}] * 2])
        return True
    k = rng.random()
    if k < 0.25:
        f["filename"] = rng.choice(["f" * 64, "f" * 65, "", 5])
    elif k < 0.5:
        f["runnable"] = rng.choice([1, 0, "true", True])
    elif k < 0.75:
        f["type"] = rng.choice(["BINARY", "text", "TEXT", 1])
    else:
        f["data"] = rng.choice(["", "{{", "ok {{ Session.WorkingDirectory }}", 5])
    return True


@op("env-variables", "any")
def env_variables(rng, doc):
    e = pick(rng, envs(doc))
    if e is None:
        return False
    e["variables"] = rng.choice([{}, {"1x": "v"}, {"x" * 256: "v"}, {"x" * 257: "v"}, {"A": "v" * 2048}, {"A": "v" * 2049}, {"A-B": "v"}, {"A": 5}, {"A": ""}, {"": "v"}, "", [], {"A": "{{Param.Nope}}"}, [["A", "b"]], ["Ab", "Cd"], [["A", "b"], ["A", "c"]], "Ab"])
    return True


@op("env-needs-script-or-variables", "break")
def env_empty(rng, doc):
    e = pick(rng, envs(doc))
    if e is None:
        return False
    k = rng.random()
    if k < 0.4:
        e.pop("script", None)
        e.pop("variables", None)
    elif k < 0.7:
        e["script"] = None
        e["variables"] = None
    else:
        if isinstance(e.get("script"), dict):
            e["script"]["actions"] = rng.choice([{}, {"onEnter": None, "onExit": None}, {"onEnter": None}])
        else:
            return False
    return True


# ------------------------------------------------------------------ uniqueness
@op("unique-names", "break")
def duplicate_name(rng, doc):
    lists = [doc.get("steps"), doc.get("parameterDefinitions"), doc.get("jobEnvironments")]
    lists += [s.get("stepEnvironments") for s in steps(doc)]
    lists += [sc.get("embeddedFiles") for sc in scripts(doc)]
    lists += [ps.get("taskParameterDefinitions") for ps in spaces(doc)]
    lists = [l for l in lists if isinstance(l, list) and l]
    l = pick(rng, lists)
    if l is None:
        return False
    import copy
    src = rng.choice(l)
    d = copy.deepcopy(src)
    k = rng.random()
    if k < 0.35 and isinstance(src, dict) and isinstance(src.get("name"), str) and src["name"].swapcase() != src["name"]:
        # X, x, X: the two equal names with a case variant of the name BETWEEN them (names are case-sensitive: the
        # variant is a different, legal name; the repeat is still a repeat).  Only the variant's name changes, so the
        # document keeps every reference it had.
        i = l.index(src)
        v = copy.deepcopy(src)
        v["name"] = src["name"].swapcase() if rng.random() < 0.5 else (src["name"][0].swapcase() + src["name"][1:])
        l.insert(i + 1, v)
        l.insert(i + 2, d)
        return True
    if k < 0.5 and isinstance(src, dict) and isinstance(src.get("name"), str) and src["name"].swapcase() != src["name"]:
        # X, x: NOT a duplicate (kept valid as far as uniqueness goes)
        d["name"] = src["name"].swapcase()
    l.insert(rng.randint(0, len(l)), d)
    return True


@op("env-name-clash", "break")
def env_clash(rng, doc):
    je = doc.get("jobEnvironments")
    if not je:
        return False
    st = pick(rng, steps(doc))
    if st is None:
        return False
    import copy
    e = copy.deepcopy(rng.choice(je))
    st.setdefault("stepEnvironments", [])
    if not isinstance(st["stepEnvironments"], list):
        return False
    st["stepEnvironments"].append(e)
    return True


# ------------------------------------------------------------------ dependencies
@op("dependencies", "break")
def bad_dependency(rng, doc):
    ss = steps(doc)
    if not ss:
        return False
    names = [s.get("name") for s in ss]
    k = rng.random()
    s = rng.choice(ss)
    if k < 0.25:
        s["dependencies"] = [{"dependsOn": s.get("name")}]
    elif k < 0.5:
        s["dependencies"] = (s.get("dependencies") or []) + [{"dependsOn": "no such step"}]
    elif k < 0.65:
        if len(ss) < 2:
            return False
        others = [n for n in names if n != s.get("name")] or names
        other = rng.choice(others)
        if len(others) >= 2 and rng.random() < 0.6:
            # a repeat among three or more dependencies, at every position (first / middle / last, and the name that
            # sorts first / last): the repeat is a repeat wherever it stands
            deps = rng.sample(others, min(len(others), rng.choice([2, 3])))
            dup = rng.choice([min(deps), max(deps), rng.choice(deps)])
            deps.insert(rng.randint(0, len(deps)), dup)
            s["dependencies"] = [{"dependsOn": d} for d in deps]
        else:
            s["dependencies"] = [{"dependsOn": other}, {"dependsOn": other}]
    elif k < 0.75:
        s["dependencies"] = []
    else:
        if len(ss) < 2:
            return False
        cyc = rng.sample(ss, min(len(ss), rng.choice([2, 3])))
        for a, b in zip(cyc, cyc[1:] + cyc[:1]):
            a["dependencies"] = [{"dependsOn": b.get("name")}]
    return True


# ------------------------------------------------------------------ list sizes
@op("list-sizes", "any")
def list_size(rng, doc):
    k = rng.random()
    import copy
    if k < 0.15:
        doc["steps"] = [] if "steps" in doc else doc.get("steps")
        return "steps" in doc
    if k < 0.35:
        n = rng.choice([0, 50, 51])
        doc["parameterDefinitions"] = [{"name": f"P{i}", "type": "INT"} for i in range(n)]
        return True
    if k < 0.55:
        ps = ensure_space(rng, doc)
        if ps is None:
            return False
        n = rng.choice([0, 16, 17])
        ps["taskParameterDefinitions"] = [{"name": f"T{i}", "type": "INT", "range": [1]} for i in range(n)]
        ps.pop("combination", None)
        return True
    if k < 0.7:
        t = pick(rng, task_params(doc))
        if t is None:
            return False
        n = rng.choice([0, 1024, 1025])
        t["range"] = [1] * n if t.get("type") in ("INT", "FLOAT") else ["v"] * n
        for ps in spaces(doc):
            ps.pop("combination", None)
        return True
    if k < 0.85:
        h = ensure_host_req(rng, doc)
        if h is None:
            return False
        n = rng.choice([0, 49, 50])
        h["amounts"] = [{"name": f"amount.c{i}", "min": 1} for i in range(n)]
        h["attributes"] = [{"name": "attr.custom", "anyOf": ["v"]}] * rng.choice([0, 1, 2]) if rng.random() < 0.8 else None
        if h["attributes"] is None:
            del h["attributes"]
        return True
    o = pick(rng, steps(doc))
    if o is None:
        return False
    o[rng.choice(["stepEnvironments", "dependencies"])] = []
    return True


# ------------------------------------------------------------------ job parameter definitions
@op("string-param-constraints", "any")
def string_param(rng, doc):
    p = ensure_param(rng, doc, rng.choice(["STRING", "PATH"]))
    if p is None:
        return False
    p.pop("userInterface", None)
    k = rng.random()
    if k < 0.2:
        p["minLength"] = rng.choice([0, -1, 1, "2", 2.0, True])
    elif k < 0.35:
        p["maxLength"] = rng.choice([0, -3, 1])
        p.pop("default", None)
        p.pop("allowedValues", None)
    elif k < 0.5:
        p["minLength"], p["maxLength"] = rng.choice([(3, 2), (2, 2), (1, 5)])
        p.pop("default", None)
        p.pop("allowedValues", None)
    elif k < 0.7:
        p["minLength"], p["maxLength"] = 2, 4
        p["allowedValues"] = rng.choice([["ab", "abcd"], ["a"], ["abcde"], ["ab", "x"], [], ["v" * 1025]])
        p.pop("default", None)
    elif k < 0.9:
        p["minLength"], p["maxLength"] = 2, 4
        p.pop("allowedValues", None)
        p["default"] = rng.choice(["ab", "abcd", "a", "abcde", ""])
        if rng.random() < 0.5:
            p["allowedValues"] = rng.choice([["ab"], ["abcd", "abc"], ["zz"]])
    else:
        p.pop("minLength", None)
        p.pop("maxLength", None)
        p.pop("allowedValues", None)
        p["default"] = rng.choice(["v" * 1024, "v" * 1025, 5, None])
    return True


@op("string-ui", "any")
def string_ui(rng, doc):
    p = ensure_param(rng, doc, "STRING")
    if p is None:
        return False
    for k in ("minLength", "maxLength", "default"):
        p.pop(k, None)
    ctl = rng.choice(["LINE_EDIT", "MULTILINE_EDIT", "DROPDOWN_LIST", "CHECK_BOX", "HIDDEN", "SPIN_BOX", "line_edit"])
    av = rng.choice([None, ["a", "b"], ["true", "false"], ["TRUE", "False"], ["yes", "no"], ["on", "off", "on"], ["1", "0"], ["true"], ["true", "false", "x"], ["YES", "NO", "yes"],
                     # exactly two values that are the SAME check-box word (no pair), and valid pairs in mixed case / either order
                     ["on", "ON"], ["yes", "yes"], ["1", "1"], ["False", "false"], ["True", "false"], ["YES", "no"], ["off", "On"], ["0", "1"], ["no", "YES"],
                     ["true", "no"], ["1", "off"], ["true", "False", "FALSE"]])
    if av is None:
        p.pop("allowedValues", None)
    else:
        p["allowedValues"] = av
    ui = {"control": ctl}
    if rng.random() < 0.3:
        ui["label"] = rng.choice(["L" * 64, "L" * 65, "", "a\nb"])
    p["userInterface"] = ui
    return True


@op("path-ui", "any")
def path_ui(rng, doc):
    p = ensure_param(rng, doc, "PATH")
    if p is None:
        return False
    for k in ("minLength", "maxLength", "default"):
        p.pop(k, None)
    ctl = rng.choice(["CHOOSE_INPUT_FILE", "CHOOSE_OUTPUT_FILE", "CHOOSE_DIRECTORY", "DROPDOWN_LIST", "HIDDEN"])
    if rng.random() < 0.4:
        p["allowedValues"] = ["a", "b"]
    else:
        p.pop("allowedValues", None)
    ot = rng.choice([None, "FILE", "DIRECTORY", "file"])
    if ot is None:
        p.pop("objectType", None)
    else:
        p["objectType"] = ot
    if rng.random() < 0.3:
        p["dataFlow"] = rng.choice(["NONE", "IN", "OUT", "INOUT", "in"])
    ui = {"control": ctl}
    k = rng.random()
    if k < 0.4:
        ui["fileFilters"] = rng.choice([[{"label": "A", "patterns": ["*.x"]}], [], [{"label": "A", "patterns": ["*.x"]}] * 20, [{"label": "A", "patterns": ["*.x"]}] * 21,
                                        [{"label": "A", "patterns": rng.choice([["*"], ["*.*"], ["*.*x"], ["x"], ["*.a/b"], ["*." + "e" * 18], ["*." + "e" * 19], [], ["*.x"] * 20, ["*.x"] * 21, ["*.é"], ["*.a b"], ["**"]])}]])
    elif k < 0.6:
        ui["fileFilterDefault"] = {"label": rng.choice(["All", "", "L" * 65]), "patterns": ["*"]}
    p["userInterface"] = ui
    return True


@op("number-param-constraints", "any")
def number_param(rng, doc):
    t = rng.choice(["INT", "FLOAT"])
    p = ensure_param(rng, doc, t)
    if p is None:
        return False
    p.pop("userInterface", None)
    for k in ("minValue", "maxValue", "allowedValues", "default"):
        p.pop(k, None)

    def n(v):
        if t == "FLOAT" and rng.random() < 0.4:
            return rng.choice([float(v), str(v), v + 0.5 if rng.random() < 0.3 else v])
        return v if rng.random() < 0.8 else str(v)
    k = rng.random()
    if k < 0.2:
        p["minValue"], p["maxValue"] = rng.choice([(n(3), n(2)), (n(2), n(2)), (n(0), n(0)), (n(-1), n(0)), (n(0), n(-1))])
    elif k < 0.45:
        p["minValue"], p["maxValue"] = n(0), n(5)
        p["allowedValues"] = rng.choice([[n(0), n(5)], [n(-1)], [n(6)], [n(1), n(9)], []])
    elif k < 0.7:
        p["minValue"], p["maxValue"] = rng.choice([(n(0), n(5)), (None, n(0)), (n(0), None)])
        if p["minValue"] is None:
            del p["minValue"]
        if p["maxValue"] is None:
            del p["maxValue"]
        p["default"] = rng.choice([n(0), n(5), n(-1), n(6), n(1)])
        if rng.random() < 0.4:
            p["allowedValues"] = rng.choice([[n(0), n(1)], [n(2)]])
    elif k < 0.85:
        bad = rng.choice([True, 1.5, "1.5", "abc", "NaN", "Infinity", [], None, " 5 ", "1_0", "0x10", "1e2"])
        p[rng.choice(["minValue", "maxValue", "default"])] = bad
    else:
        p["allowedValues"] = [rng.choice([True, 1.5, "x", "7", 7, "NaN", "2.50"])]
    return True


@op("number-ui", "any")
def number_ui(rng, doc):
    t = rng.choice(["INT", "FLOAT"])
    p = ensure_param(rng, doc, t)
    if p is None:
        return False
    for k in ("minValue", "maxValue", "default"):
        p.pop(k, None)
    if rng.random() < 0.4:
        p["allowedValues"] = [1, 2]
    else:
        p.pop("allowedValues", None)
    ui = {"control": rng.choice(["SPIN_BOX", "DROPDOWN_LIST", "HIDDEN", "LINE_EDIT"])}
    if rng.random() < 0.5:
        ui["singleStepDelta"] = rng.choice([1, 0, -1, 2] if t == "INT" else [0.5, 0, -1, 1, 0.0])
    if t == "FLOAT" and rng.random() < 0.4:
        ui["decimals"] = rng.choice([0, 1, 3, -1])
    p["userInterface"] = ui
    return True


# ------------------------------------------------------------------ task parameters and combination
@op("task-range", "any")
def task_range(rng, doc):
    ps = ensure_space(rng, doc)
    if ps is None:
        return False
    tps = [t for t in ps.get("taskParameterDefinitions") or [] if isinstance(t, dict)]
    if not tps:
        return False
    t = rng.choice(tps)
    ps.pop("combination", None)
    ty = rng.choice(["INT", "FLOAT", "STRING", "PATH"])
    t["type"] = ty
    if ty == "INT":
        t["range"] = rng.choice([[1, "2", " 3 "], [1.5], ["1.5"], [True], ["x"], ["{{Param.Nope}}"], [None], [[1]], "1-3", "5-3", "1-2:0", "1-10:2,12-20:2", "1-3,3-5", "", " ", "x",
                                 "1 - 3", "{{RawParam.X}}-5", [], "1_0", ["1_0"], "٣", 5, [2 ** 40],
                                 "١-٣", "１-5", "1-٣", "1-9:٢", "١", "١,٢", "-١"])
    elif ty == "FLOAT":
        t["range"] = rng.choice([[1, 1.5, "2.5"], ["NaN"], ["Infinity"], ["abc"], [True], ["1e2"], [" 1.5 "], [None], "1-3", [], ["{{Param.Nope}}"], ["1_0.5"]])
    else:
        t["range"] = rng.choice([["a", ""], [1], ["{{ Param.Nope }}"], [], "abc", ["x" * 2000], ["{{"]])
    return True


ODD_RANGES = ["١-٣", "１-5", "1-٣", "1-9:٢", "١", "١,٢", "-١", "١-٣:١", "1,٢", "৩-৫", "٠", "1-3", "7", "0-90:10", "-5--14:-2", "1_0", "1_0-2_0", "+1", "1-+3", "01-03", "0-0", "²", "1-²", "Ⅷ", "1-3:1,٤"]

ODD_CHARS = "".join(sorted({c for t in ODD_RANGES for c in t if ord(c) > 127}))


@op("task-range", "any")
def odd_range(rng, doc):
    """an INT range EXPRESSION in its compact spelling (no blank anywhere), half of them with digits that are not 0-9"""
    ps = ensure_space(rng, doc)
    if ps is None:
        return False
    tps = [t for t in ps.get("taskParameterDefinitions") or [] if isinstance(t, dict)]
    if not tps:
        return False
    t = rng.choice(tps)
    t["type"] = "INT"
    t["range"] = rng.choice(ODD_RANGES)
    if len(tps) > 1:
        ps.pop("combination", None)
    return True


@op("combination", "any")
def combination(rng, doc):
    ps = ensure_space(rng, doc, n=rng.choice([1, 2, 3]))
    if ps is None:
        return False
    names = [t.get("name") for t in ps.get("taskParameterDefinitions") or [] if isinstance(t, dict) and isinstance(t.get("name"), str)]
    if not names:
        return False
    a = names[0]
    b = names[1] if len(names) > 1 else "Zq"
    rest = names[2:]
    star = " * ".join(names)
    opts = [star, " * ".join(reversed(names)), star + " * Zq", " * ".join(names[1:]) or "Zq", star.replace(a, "Zq", 1), star + " * " + a, "(" + ", ".join(names) + ")" if len(names) > 1 else "(" + a + ")",
            a + " *", "* " + a, a + " " + b, "(" + a + ",)", "(" + a + ", " + b, star + "\t", star.replace(" ", "  "), star.replace(" * ", "*"), star + " + x", "",
            star + " " * max(0, 1280 - len(star)), star + " " * max(0, 1281 - len(star)), "é", a.lower() if a.lower() != a else a.upper()]
    ps["combination"] = rng.choice(opts)
    if rng.random() < 0.12:
        # a parameter left out of the expression whose name is part of another one's that is there
        tps = ps["taskParameterDefinitions"]
        longer = rng.choice([a + "Step", "X" + a, a + a, "_" + a + "_"])
        if longer not in names and len(longer) <= 64:
            tps.append({"name": longer, "type": "INT", "range": [1, 2]})
            ps["combination"] = " * ".join(names[1:] + [longer])
    return True


# ------------------------------------------------------------------ host requirements
@op("amount-requirement", "any")
def amount_req(rng, doc):
    h = ensure_host_req(rng, doc)
    if h is None:
        return False
    name = rng.choice(["amount.worker.vcpu", "amount.worker.x", "amount.custom", "attr.custom", "v:amount.x", "vv:amount.x", "vv:amount.worker.vcpu", "amount", "amount.", "amount.1x", "Amount.Custom",
                       "amount.a b", "amount." + "a" * 93, "amount." + "a" * 94, "", "amount.job.x", "amount.jobslots", "amount.workers.x", "acme:amount.steps_2", "amount.tasks", "amount.Worker.x", "AMOUNT.JOB.CUSTOM", "vv:amount.Task.x", "amount.STEP.a", "amount.{{Param.Nope}}", "amount.x:y", "vv:ww:amount.x", "amount.x\n", "other.x", "amount.a.b_c.d9"])
    if rng.random() < 0.2:
        pr = ensure_param(rng, doc, "STRING")
        if pr is not None:
            name = rng.choice(["amount.{{Param.%s}}", "{{Param.%s}}", "amount.worker.{{ RawParam.%s }}"]) % pr["name"]
    a = {"name": name}
    k = rng.random()
    if k < 0.5:
        a.update(rng.choice([{"min": 0}, {"min": -1}, {"max": 0}, {"max": 1}, {"min": 2, "max": 1}, {"min": 1, "max": 1}, {"min": 0, "max": 0.5}, {"min": "1.5"}, {"min": True}, {"min": "x"}, {"min": "NaN"}]))
    elif k < 0.8:
        a.update(rng.choice([{"min": None}, {"max": None}, {"min": None, "max": None}, {}, {"min": None, "max": 2}]))
    else:
        a["min"] = 1
    h["amounts"] = [a]
    return True


@op("attribute-requirement", "any")
def attribute_req(rng, doc):
    h = ensure_host_req(rng, doc)
    if h is None:
        return False
    name = rng.choice(["attr.worker.os.family", "attr.worker.cpu.arch", "ATTR.Worker.OS.Family", "attr.custom", "attr.worker.x", "amount.custom", "vv:attr.x", "attr", "attr.task.x", "attr.jobtype", "attr.stepwise.x", "vv:attr.workerpool", "attr.Task.x", "ATTR.STEP.Y", "vv:attr.Job.z", "attr.{{Param.Nope}}"])
    if rng.random() < 0.25:
        # a name that is only known when the Job is created (a DEFINED parameter): the values are literal all the same
        pr = ensure_param(rng, doc, "STRING")
        if pr is not None:
            name = rng.choice(["attr.{{Param.%s}}", "{{Param.%s}}", "attr.worker.{{ RawParam.%s }}", "vv:attr.{{Param.%s}}.x"]) % pr["name"]
    if rng.random() < 0.15:
        # a standard attribute under another spelling of its name: the rules on its values are the standard one's
        name = rng.choice(["ATTR.WORKER.OS.FAMILY", "Attr.Worker.Os.Family", "attr.worker.OS.family", "ATTR.WORKER.CPU.ARCH", "attr.Worker.Cpu.Arch", "vv:attr.worker.os.family"])
    a = {"name": name}
    vals = rng.choice([["not a valid value!"], ["1abc"], ["caf\u00e9"], ["ok", "a" * 101], ["ok_1"], ["{{Param.Nope}}"], ["a.b"]]) if rng.random() < 0.2 else None
    vals = vals or rng.choice([["linux"], ["linux", "windows"], ["beos"], ["solaris"], ["macos", "plan9"], ["x86_64"], ["arm64"], ["sparc"], ["v1"], ["9x"], ["a-b_c"], ["a" * 100], ["a" * 101], [""], ["{{Param.Nope}}"], [], ["v"] * 50, ["v"] * 51, ["Linux"], ["a b"]])
    k = rng.random()
    if k < 0.4:
        a["anyOf"] = vals
    elif k < 0.7:
        a["allOf"] = vals
    elif k < 0.85:
        a.update(rng.choice([{"anyOf": None}, {"allOf": None}, {"anyOf": None, "allOf": None}, {}, {"anyOf": None, "allOf": ["v1"]}]))
    else:
        a["anyOf"] = ["linux"]
        a["allOf"] = vals
    h["attributes"] = [a]
    return True


@op("host-requirements-presence", "any")
def host_presence(rng, doc):
    st = pick(rng, steps(doc))
    if st is None:
        return False
    st["hostRequirements"] = rng.choice([{}, {"amounts": None}, {"attributes": None}, {"amounts": None, "attributes": None}, {"amounts": []}, {"attributes": []},
                                         {"amounts": [{"name": "amount.custom", "min": 1}]}, {"amounts": [{"name": "amount.custom", "min": 1}], "attributes": None}])
    return True


# ------------------------------------------------------------------ version / roots / format strings
@op("specification-version", "break")
def spec_version(rng, doc):
    doc["specificationVersion"] = rng.choice(["jobtemplate-2023-10", "environment-2023-09" if "steps" in doc else "jobtemplate-2023-09", "", "JOBTEMPLATE-2023-09", 2023, "UNDEFINED", None])
    return True


@op("job-name", "any")
def job_name(rng, doc):
    if "steps" not in doc:
        return False
    doc["name"] = rng.choice(["", "n", "{{", "}}", "{{ }}", "{{a..b}}", "{{ 1a }}", "{{Param.Nope}}", "n" * 5000, "a\nb", 5, "{{ RawParam.X }}"])
    return True


@op("malformed-format-string", "break")
def malformed_fs(rng, doc):
    a = pick(rng, actions(doc))
    if a is None:
        return False
    a["command"] = rng.choice(["{{", "x }} y", "{{a b}}", "{{a.}}", "{{.a}}", "{{a}}}}", "{{ {{a}} }}", "{{a-b}}", "{{a\x00}}"])
    return True


@op("schema-field", "keep")
def schema_field(rng, doc):
    if "steps" not in doc:
        return False
    doc["$schema"] = rng.choice(["x", "", 5, True])
    return True


@op("object-is-an-object", "break")
def pairs_for_object(rng, doc):
    """an object written as a list of [key, value] pairs (dict() would accept it) or as something else dict()
    accepts"""
    spots = []

    def walk(x):
        if isinstance(x, dict):
            for k, v in x.items():
                if isinstance(v, dict) and v:
                    spots.append((x, k))
                walk(v)
        elif isinstance(x, list):
            for i, v in enumerate(x):
                if isinstance(v, dict) and v:
                    spots.append((x, i))
                walk(v)
    walk(doc)
    if not spots:
        return False
    holder, key = rng.choice(spots)
    v = holder[key]
    holder[key] = rng.choice([[[k, w] for k, w in v.items()], [(k, w) for k, w in v.items()][:1], [], "ab"])
    return True


@op("float-is-finite", "break")
def infinite_step(rng, doc):
    ps = [p for p in job_params(doc, types=("FLOAT",))]
    p = pick(rng, ps)
    if p is None:
        return False
    ui = p.get("userInterface")
    if not isinstance(ui, dict) or ui.get("control") != "SPIN_BOX":
        p["userInterface"] = ui = {"control": "SPIN_BOX"}
    ui["singleStepDelta"] = rng.choice([float("inf"), "inf", "1e999", "Infinity", float("nan"), 1e308, "2"])
    return True


@op("numbers-keep-their-digits", "keep")
def high_precision(rng, doc):
    """a Decimal-valued field given with more digits than the default decimal context keeps (28) or than a double
    holds: the decoder must carry the number as written"""
    spots = []
    for st in steps(doc):
        h = st.get("hostRequirements")
        if isinstance(h, dict):
            for a in L(h.get("amounts")):
                if isinstance(a, dict):
                    spots += [(a, k) for k in ("min", "max") if a.get(k) is not None]
        ps = st.get("parameterSpace")
        if isinstance(ps, dict):
            for tp in L(ps.get("taskParameterDefinitions")):
                if isinstance(tp, dict) and tp.get("type") == "FLOAT" and isinstance(tp.get("range"), list) and tp["range"]:
                    spots.append((tp["range"], rng.randrange(len(tp["range"]))))
    for p in job_params(doc, types=("FLOAT",)):
        spots += [(p, k) for k in ("minValue", "maxValue", "default") if p.get(k) is not None]
    if not spots:
        return False
    holder, key = rng.choice(spots)
    old = holder[key]
    try:
        from decimal import Decimal
        base = Decimal(str(old))
    except Exception:  # noqa: BLE001
        return False
    if not base.is_finite():
        return False
    tail = "".join(rng.choice("0123456789") for _ in range(rng.choice([29, 34, 40]))) + "1"
    k = rng.random()
    if k < 0.5:
        # same leading value, a long fractional tail (only grows the magnitude: bounds written elsewhere may now be
        # violated — then both sides reject)
        txt = str(base)
        txt = (txt if "." in txt and "E" not in txt.upper() else str(int(base))) 
        holder[key] = (txt + ("" if "." in txt else ".") + tail) if "E" not in txt.upper() else old
    elif k < 0.8:
        holder[key] = int(("-" if base < 0 else "") + str(abs(int(base))) + tail) if rng.random() < 0.5 else ("-" if base < 0 else "") + str(abs(int(base))) + tail
    else:
        holder[key] = ("-" if base < 0 else "") + "0." + tail
    return True


NOT_JSON_OPS = {"set_for_array"}      # their result is no JSON document: only for harnesses that say so (not_json=True)


@op("array-is-an-array", "break")
def set_for_array(rng, doc):
    """a list of strings / numbers written as a set (YAML: !!set {a, b}) — a Python object no JSON document holds"""
    spots = []

    def walk(x):
        if isinstance(x, dict):
            for k, v in x.items():
                if isinstance(v, list) and v and all(isinstance(y, (str, int, float)) and not isinstance(y, bool) for y in v):
                    spots.append((x, k))
                walk(v)
        elif isinstance(x, list):
            for v in x:
                walk(v)
    walk(doc)
    if not spots:
        return False
    holder, key = rng.choice(spots)
    holder[key] = rng.choice([set, frozenset])(holder[key])
    return True


def has_set(x):
    if isinstance(x, (set, frozenset)):
        return True
    if isinstance(x, dict):
        return any(has_set(v) for v in x.values())
    if isinstance(x, list):
        return any(has_set(v) for v in x)
    return False


def mutate(rng, doc, n=1, only=None, not_json=False):
    """apply n random operators; -> list of (opname, rule, kind) actually applied"""
    applied = []
    tries = 0
    ops = [o for o in OPS if (only is None or o[0] in only) and (not_json or o[0] not in NOT_JSON_OPS)]
    while len(applied) < n and tries < 30:
        tries += 1
        name, rule, kind, f = rng.choice(ops)
        try:
            if f(rng, doc):
                applied.append((name, rule, kind))
        except (KeyError, IndexError, TypeError, AttributeError, ValueError):
            continue
    return applied
