(* props/C17xj.v — C17 "The same holds for Jobs through parse_model", for the Jobs that create_job RETURNS.

   props/C17x.v (C17_roundtrip_job) proves decode (export J) = J for a Job J as parse_model(Job, .) decodes it: base
   classes only.  A Job returned by create_job holds SUBCLASS nodes (IntRangeListTaskParameterDefinition,
   FloatRangeListTaskParameterDefinition) after instantiate_model + the job-side coercion; that such a Job is equal to
   the decode of its own export was checked by the harness only (harness/c17.py, kind "jobobj").  Here it is a theorem
   about the composed model CreateJobFull.create_job_full (props/C06x.v), for every accepted template, all environment
   templates, all values.

   "Equal" is pydantic 1.10's BaseModel.__eq__ : self.dict() == other.dict().  Probe on the real classes
   (PYTHONPATH=/repo/src, pydantic 1.10.26):
       RangeListTaskParameterDefinition(type="INT", range=["1","2"]) == IntRangeListTaskParameterDefinition(...)   True (both ways)
       JobParameter(type="INT", value="5").dict()  ==  {'type': INT, 'value': '5', 'description': None}            None IS a key
       FormatString("a{{Param.X}}") == "a{{Param.X}}"                                                             True (str subclass)
   So: the class of a node is not compared, the fields are a dict (order irrelevant, None-valued fields present),
   format strings compare as text.  [mval_equiv] (theories/ExportCreatedRel.v) is that relation on the model's instance
   trees; dictionaries (Job.parameters, taskParameterDefinitions, variables) are compared in order, which is STRICTER
   than Python's dict equality.  Export.mval_eqb cannot be used: it compares the fields of a node IN ORDER, and the
   model's instantiate_model keeps the TEMPLATE's field order (Step: name, description, script, ...;  JobParameter: type,
   description, value) where the decoder builds the class's order (pydantic re-orders on construction; the harness
   ships the real object) — see the example below, where mval_eqb is false and mval_equiv holds.
   For the same reason the fixpoint "export (decode (export job)) = export job" is stated up to member order, with the
   development's document equivalence JsonEquiv.json_equiv (props/C05x.v); neither export holds a null member.

     C17_created_job_roundtrip     THE THEOREM (requested form)
     C17_created_job_roundtrip_any_envs    ... the environment templates need not even be accepted ones
     C17_created_job_plain         the export of a created Job is plain data (C17_plain's side condition holds)
     C17_created_job_stable        the re-decoded Job is a fixpoint of export / decode in the strict sense of C17x
     C17_created_job_roundtrip_perm ... equal up to the order of the members when the keys are pairwise distinct
     C17_created_docs              the same from the raw documents (create_job_docs)
     C17_created_union             the ordered union RangeList | RangeExpression: a definition of any of the four
                                   job-side classes re-parses to an equal instance under WHICHEVER alternative accepts it
     C17_created_node              the rule for a model node whose class is another class with the same fields
     C17_equiv_refl, C17_equiv_of_eqb, C17_equiv_checker   the relation: reflexive, coarser than Export.mval_eqb,
                                   decided (soundly) by the checker [meqb]

   Lemmas: theories/ExportCreatedRel.v, ExportCreatedSem.v, ExportCreatedCarried.v, ExportCreatedInst.v,
   ExportCreatedPlain.v, ExportCreated.v. *)
From Coq Require Import List NArith ZArith Bool String.
Import ListNotations.
Require Import OJD.Base OJD.Lexer OJD.Json OJD.Schema OJD.Generated OJD.CreateJob OJD.CreateJobProofs OJD.Parse
               OJD.Validators OJD.Accept OJD.Export OJD.ExportProofs OJD.JsonEquiv OJD.CreateJobExactLib OJD.ConformInst
               OJD.CreateJobFull OJD.CreateJobFullProofs
               OJD.ExportCreatedRel OJD.ExportCreatedSem OJD.ExportCreatedInst OJD.ExportCreated.
Local Open Scope string_scope.
Local Open Scope list_scope.

(* ------------------------------------------------------------------ the theorem *)

(* For every accepted job template, accepted environment templates and caller values: if create_job returns a Job,
   then parse_model(Job, model_to_object(job)) succeeds, the Job it returns is equal to the created Job as pydantic
   compares model instances, and it exports to the same document. *)
Theorem C17_created_job_roundtrip : forall classify j t envs vals job,
  decode_job classify j = Ok t -> accepted_envs classify envs ->
  create_job_full classify envs t vals = Ok job ->
  exists v, parse_any classify "Job" (export job) = Ok v
            /\ mval_equiv v job
            /\ json_equiv (export v) (export job).
Proof. intros classify j t envs vals job Hd _ H. exact (created_job_roundtrip classify j t envs vals job Hd H). Qed.
Print Assumptions C17_created_job_roundtrip.

Theorem C17_created_job_roundtrip_any_envs : forall classify j t envs vals job,
  decode_job classify j = Ok t ->
  create_job_full classify envs t vals = Ok job ->
  exists v, parse_any classify "Job" (export job) = Ok v
            /\ mval_equiv v job
            /\ json_equiv (export v) (export job).
Proof. exact created_job_roundtrip. Qed.
Print Assumptions C17_created_job_roundtrip_any_envs.

Theorem C17_created_job_plain : forall classify j t envs vals job,
  decode_job classify j = Ok t -> create_job_full classify envs t vals = Ok job ->
  plain (export job) = true.
Proof. exact created_job_plain. Qed.
Print Assumptions C17_created_job_plain.

(* what the re-decoding returns is a Job in the sense of C17_roundtrip_job: from there on decode (export .) is the
   identity as Export.roundtrip computes it, and its export is plain *)
Theorem C17_created_job_stable : forall classify j t envs vals job,
  decode_job classify j = Ok t -> create_job_full classify envs t vals = Ok job ->
  exists v, parse_any classify "Job" (export job) = Ok v
            /\ snd (roundtrip classify "Job" v) = true
            /\ plain (export v) = true.
Proof. exact created_job_stable. Qed.
Print Assumptions C17_created_job_stable.

(* when both documents have pairwise distinct keys (boolean functions of the two values; always so for what a Python
   dict can hold) they are equal up to the ORDER of the members only (JsonEquiv.json_perm) *)
Theorem C17_created_job_roundtrip_perm : forall classify j t envs vals job,
  decode_job classify j = Ok t -> create_job_full classify envs t vals = Ok job ->
  exists v, parse_any classify "Job" (export job) = Ok v
            /\ mval_equiv v job
            /\ (distinct_keys (export v) = true -> distinct_keys (export job) = true ->
                json_perm (export v) (export job)).
Proof. exact created_job_roundtrip_perm. Qed.
Print Assumptions C17_created_job_roundtrip_perm.

(* from the raw documents: decode the templates, create the Job, print it; the printed document is plain, is
   accepted by parse_model(Job, .), and printing what it decodes to gives the same document *)
Theorem C17_created_docs : forall classify env_docs doc vals obj,
  create_job_docs classify env_docs doc vals = Ok (Ok obj) ->
  plain obj = true /\
  exists v, parse_any classify "Job" obj = Ok v /\ json_equiv (export v) obj
            /\ snd (roundtrip classify "Job" v) = true.
Proof. exact created_docs_roundtrip. Qed.
Print Assumptions C17_created_docs.

(* no export holds a null member (json_equiv's "a null member is an absent member" is not in play) *)
Theorem C17_created_no_null_members : forall v, no_null_members (export v) = true.
Proof. exact exports_no_null_members. Qed.
Print Assumptions C17_created_no_null_members.

(* ------------------------------------------------------------------ the two steps that are new *)

(* StepParameterSpace.taskParameterDefinitions : RangeList... | RangeExpression... (ordered union of BASE classes).
   A definition as create_job leaves it ([ConformInst.jdef]: one of the four job-side classes, a type, a list of str
   items or a range string), exported and parsed as that union — by whichever alternative accepts it, with any
   validators and fuel — comes back equal to it and with the same export. *)
Theorem C17_created_union : forall classify pre post y f v,
  jdef y ->
  parse_kind Generated.schema classify pre post f tpd_kind (tobj Generated.schema y) = Ok v ->
  mval_equiv v y /\ json_equiv (tobj Generated.schema v) (tobj Generated.schema y).
Proof. intros classify pre post y f v Hy H. exact (proj1 (sem_tpd classify pre post y Hy) f v H). Qed.
Print Assumptions C17_created_union.

(* a model node of class c' whose field names are exactly those of class c (any order) and whose class gives them
   the aliases c gives them: if every field value re-parses equal (SEMV), so does the node parsed AS c *)
Theorem C17_created_node : forall classify pre post c c' k fs,
  lookup_cls Generated.schema c = Some k ->
  fields_ok c' k (map fst fs) = true ->
  (forall fl, In fl (c_fields k) -> SEMV classify pre post fl (mfield (f_name fl) fs)) ->
  forall f v, parse_cls Generated.schema classify pre post f c (tobj Generated.schema (MModel c' fs)) = Ok v ->
              mval_equiv v (MModel c' fs) /\ json_equiv (tobj Generated.schema v) (tobj Generated.schema (MModel c' fs)).
Proof. intros classify pre post c c' k fs Hl Hok Hv. exact (sem_cls classify pre post c c' k fs Hl Hok Hv). Qed.
Print Assumptions C17_created_node.

(* ------------------------------------------------------------------ the relation *)
Theorem C17_equiv_refl : forall v, mval_equiv v v.
Proof. exact mval_equiv_refl. Qed.
Print Assumptions C17_equiv_refl.

(* Export.mval_eqb (class names ignored, fields in order) implies it *)
Theorem C17_equiv_of_eqb : forall F a b, Export.mval_eqb F a b = true -> mval_equiv a b.
Proof. exact mval_eqb_equiv. Qed.
Print Assumptions C17_equiv_of_eqb.

Theorem C17_equiv_checker : forall F a b, meqb F a b = true -> mval_equiv a b.
Proof. exact meqb_sound. Qed.
Print Assumptions C17_equiv_checker.

(* ================================================================== non-vacuity *)
Definition xj_s (x : string) : json := JStr (str_of_string x).
Definition xj_o (l : list (string * json)) : json := JObj (map (fun kv => (str_of_string (fst kv), snd kv)) l).
Definition xj_vs (l : list (string * string)) : list (str * str) := map (fun kv => ($(fst kv), $(snd kv))) l.

(* job parameters of all four types; a job environment; a step with INT / FLOAT / STRING / PATH range lists (numbers,
   number texts and references), an INT range expression, host requirements (amount with Decimal bounds given as an int
   and as a text, attribute), a step environment, an embedded file, a cancelation method, a lax int given as text;
   a second step with a dependency and nothing optional *)
Definition xj_doc : json :=
  xj_o [("specificationVersion", xj_s "jobtemplate-2023-09");
        ("name", xj_s "job {{Param.N}}"); ("description", xj_s "d");
        ("parameterDefinitions",
         JArr [xj_o [("name", xj_s "N"); ("type", xj_s "INT"); ("default", JInt 5); ("description", xj_s "an int")];
               xj_o [("name", xj_s "F"); ("type", xj_s "FLOAT"); ("default", JDec 15 (-1))];
               xj_o [("name", xj_s "S"); ("type", xj_s "STRING"); ("default", xj_s "s")];
               xj_o [("name", xj_s "P"); ("type", xj_s "PATH"); ("default", xj_s "/tmp/x")]]);
        ("jobEnvironments", JArr [xj_o [("name", xj_s "je"); ("variables", xj_o [("A", xj_s "{{Param.S}}")])]]);
        ("steps",
         JArr [xj_o [("name", xj_s "s1"); ("description", xj_s "sd");
                     ("script",
                      xj_o [("actions",
                             xj_o [("onRun", xj_o [("command", xj_s "{{Task.File.run}}");
                                                   ("args", JArr [xj_s "{{Param.N}}"; xj_s "{{Task.Param.i}}"]);
                                                   ("timeout", xj_s "30");
                                                   ("cancelation", xj_o [("mode", xj_s "NOTIFY_THEN_TERMINATE");
                                                                         ("notifyPeriodInSeconds", xj_s "5")])])]);
                            ("embeddedFiles", JArr [xj_o [("name", xj_s "run"); ("type", xj_s "TEXT");
                                                          ("data", xj_s "echo {{Task.RawParam.x}}")]])]);
                     ("stepEnvironments", JArr [xj_o [("name", xj_s "e"); ("variables", xj_o [("OUT", xj_s "{{Param.P}}")])]]);
                     ("parameterSpace",
                      xj_o [("taskParameterDefinitions",
                             JArr [xj_o [("name", xj_s "i"); ("type", xj_s "INT"); ("range", JArr [JInt 1; xj_s "2"; xj_s "{{Param.N}}"])];
                                   xj_o [("name", xj_s "r"); ("type", xj_s "INT"); ("range", xj_s "1-{{Param.N}}")];
                                   xj_o [("name", xj_s "x"); ("type", xj_s "FLOAT"); ("range", JArr [JDec 15 (-1); JInt 2; xj_s "{{Param.F}}"])];
                                   xj_o [("name", xj_s "s"); ("type", xj_s "STRING"); ("range", JArr [xj_s "a"; xj_s "{{Param.S}}"])];
                                   xj_o [("name", xj_s "p"); ("type", xj_s "PATH"); ("range", JArr [xj_s "/a"; xj_s "{{RawParam.P}}"])]]);
                            ("combination", xj_s "i * r * x * s * p")]);
                     ("hostRequirements",
                      xj_o [("amounts", JArr [xj_o [("name", xj_s "amount.worker.vcpu"); ("min", JInt 2); ("max", xj_s "4.50")]]);
                            ("attributes", JArr [xj_o [("name", xj_s "attr.worker.os.family"); ("anyOf", JArr [xj_s "linux"])]])])];
               xj_o [("name", xj_s "s2"); ("script", xj_o [("actions", xj_o [("onRun", xj_o [("command", xj_s "x")])])]);
                     ("dependencies", JArr [xj_o [("dependsOn", xj_s "s1")]])]])].

(* an environment template that re-constrains N and adds a parameter of its own *)
Definition xj_env_doc : json :=
  xj_o [("specificationVersion", xj_s "environment-2023-09");
        ("parameterDefinitions",
         JArr [xj_o [("name", xj_s "N"); ("type", xj_s "INT"); ("maxValue", JInt 10)];
               xj_o [("name", xj_s "Extra"); ("type", xj_s "STRING"); ("default", xj_s "e")]]);
        ("environment", xj_o [("name", xj_s "E"); ("variables", xj_o [("A", xj_s "b")])])].

Definition xj_vals : list (str * str) := xj_vs [("N", "7"); ("F", "2.5"); ("S", "str"); ("P", "/p")].

Definition xj_t : mval := match decode_job ascii_class xj_doc with Ok t => t | Raise _ => MNone end.
Definition xj_env : mval := match decode_env ascii_class xj_env_doc with Ok e => e | Raise _ => MNone end.
Definition xj_job : mval := match create_job_full ascii_class [xj_env] xj_t xj_vals with Ok job => job | Raise _ => MNone end.

Example xj_t_ok : decode_job ascii_class xj_doc = Ok xj_t.
Proof. vm_compute. reflexivity. Qed.
Example xj_env_ok : accepted_envs ascii_class [xj_env].
Proof. constructor; [exists xj_env_doc; vm_compute; reflexivity|constructor]. Qed.
Example xj_job_ok : create_job_full ascii_class [xj_env] xj_t xj_vals = Ok xj_job.
Proof. vm_compute. reflexivity. Qed.

(* the hypotheses are met; the created Job holds both subclasses, the range expression class and the base class;
   THE THEOREM, applied, gives the re-decoded Job v, equal to the created Job and with the same export; v holds
   neither subclass; and (computed on that v) the order-sensitive Export.mval_eqb does NOT hold between the two in
   the model, while the checker of mval_equiv answers true both ways *)
Example C17_created_job_roundtrip_nonvacuous :
  decode_job ascii_class xj_doc = Ok xj_t /\ accepted_envs ascii_class [xj_env] /\
  create_job_full ascii_class [xj_env] xj_t xj_vals = Ok xj_job /\
  forallb (fun c => mem_s c (classes_in xj_job))
          ["IntRangeListTaskParameterDefinition"; "FloatRangeListTaskParameterDefinition";
           "RangeExpressionTaskParameterDefinition"; "RangeListTaskParameterDefinition";
           "HostRequirements"; "AmountRequirement"; "AttributeRequirement"; "JobParameter"; "Environment"] = true /\
  exists v, parse_any ascii_class "Job" (export xj_job) = Ok v
            /\ mval_equiv v xj_job
            /\ json_equiv (export v) (export xj_job)
            /\ mem_s "IntRangeListTaskParameterDefinition" (classes_in v) = false
            /\ mem_s "FloatRangeListTaskParameterDefinition" (classes_in v) = false
            /\ mem_s "RangeListTaskParameterDefinition" (classes_in v) = true
            /\ Export.mval_eqb 60 v xj_job = false
            /\ meqb 60 v xj_job = true /\ meqb 60 xj_job v = true
            /\ export v <> export xj_job.
Proof.
  split; [exact xj_t_ok|]. split; [exact xj_env_ok|]. split; [exact xj_job_ok|]. split; [vm_compute; reflexivity|].
  destruct (C17_created_job_roundtrip ascii_class xj_doc xj_t [xj_env] xj_vals xj_job xj_t_ok xj_env_ok xj_job_ok)
    as [v [Hv [Hm Hj]]].
  exists v. split; [exact Hv|]. split; [exact Hm|]. split; [exact Hj|].
  vm_compute in Hv. injection Hv as <-.
  repeat split; try (vm_compute; reflexivity). vm_compute. discriminate.
Qed.

Example C17_created_job_roundtrip_perm_nonvacuous :
  exists v, parse_any ascii_class "Job" (export xj_job) = Ok v /\ json_perm (export v) (export xj_job).
Proof.
  destruct (C17_created_job_roundtrip_perm ascii_class xj_doc xj_t [xj_env] xj_vals xj_job xj_t_ok xj_job_ok)
    as [v [Hv [_ Hp]]].
  exists v. split; [exact Hv|]. vm_compute in Hv. injection Hv as <-. apply Hp; vm_compute; reflexivity.
Qed.

Example C17_created_job_plain_nonvacuous : plain (export xj_job) = true /\ export xj_job <> JNull.
Proof.
  split; [exact (C17_created_job_plain ascii_class xj_doc xj_t [xj_env] xj_vals xj_job xj_t_ok xj_job_ok)|].
  vm_compute. discriminate.
Qed.

Example C17_created_docs_nonvacuous :
  exists obj, create_job_docs ascii_class [xj_env_doc] xj_doc xj_vals = Ok (Ok obj) /\ plain obj = true /\
              exists v, parse_any ascii_class "Job" obj = Ok v /\ json_equiv (export v) obj.
Proof.
  destruct (create_job_docs ascii_class [xj_env_doc] xj_doc xj_vals) as [[obj|e]|e] eqn:E;
    [|vm_compute in E; discriminate E|vm_compute in E; discriminate E].
  exists obj. split; [reflexivity|].
  destruct (C17_created_docs ascii_class [xj_env_doc] xj_doc xj_vals obj E) as [Hp [v [Hv [Hj _]]]].
  split; [exact Hp|]. exists v. split; [exact Hv|exact Hj].
Qed.

(* the union rule on a definition of the Int subclass and on a range expression: [jdef] holds, and the first /
   the second alternative is the one that accepts the export *)
Example C17_created_union_nonvacuous :
  jdef (MModel "IntRangeListTaskParameterDefinition" [("type", MStr $"INT"); ("range", MList (map MStr [$"1"; $"2"]))]) /\
  jdef (MModel "RangeExpressionTaskParameterDefinition" [("type", MStr $"INT"); ("range", MStr $"1-7")]) /\
  parse_kind Generated.schema ascii_class pre_hook (post_hook ascii_class) 10 tpd_kind
    (tobj Generated.schema (MModel "IntRangeListTaskParameterDefinition" [("type", MStr $"INT"); ("range", MList (map MStr [$"1"; $"2"]))]))
  = Ok (MModel "RangeListTaskParameterDefinition" [("type", MStr $"INT"); ("range", MList [MStr $"1"; MStr $"2"])]) /\
  parse_kind Generated.schema ascii_class pre_hook (post_hook ascii_class) 10 tpd_kind
    (tobj Generated.schema (MModel "RangeExpressionTaskParameterDefinition" [("type", MStr $"INT"); ("range", MStr $"1-7")]))
  = Ok (MModel "RangeExpressionTaskParameterDefinition" [("type", MStr $"INT"); ("range", MFmt $"1-7")]).
Proof.
  split; [apply jd_int|]. split; [apply jd_expr|]. split; vm_compute; reflexivity.
Qed.

(* the relation: not everything is related, None-valued fields count, the class does not, field order does not *)
Example C17_equiv_nonvacuous :
  mval_equiv (MModel "A" [("x", MStr $"1"); ("y", MNone)]) (MModel "B" [("y", MNone); ("x", MFmt $"1")]) /\
  meqb 5 (MModel "A" [("x", MStr $"1"); ("y", MNone)]) (MModel "B" [("x", MStr $"1")]) = false /\
  ~ mval_equiv (MModel "A" [("x", MStr $"1"); ("y", MNone)]) (MModel "B" [("x", MStr $"1")]) /\
  ~ mval_equiv (MInt 1) (MStr $"1").
Proof.
  split; [apply (meqb_sound 5); vm_compute; reflexivity|]. split; [vm_compute; reflexivity|]. split.
  - intros H. inversion H as [| | | | |a b s Ha Hb| | |c c' fs fs' Hk]; subst; [discriminate Ha|].
    specialize (Hk "y"). cbn in Hk. inversion Hk.
  - intros H. inversion H as [| | | | |a b s Ha Hb| | |]; subst. discriminate Ha.
Qed.
