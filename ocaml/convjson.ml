(* convjson.ml — wire format <-> extracted [json] and Coq [string] (compiled only with
   components whose extraction contains them).
     null | true | false | (i z) | (d m e) | (s cp ...) | (a item ...) | (o (k v) ...)   with k = (cp ...) *)
open Sx
open Model
open Conv

let rec json_of_sx (x : Sx.t) : json =
  match x with
  | A "null" -> JNull
  | A "true" -> JBool true
  | A "false" -> JBool false
  | L [A "i"; z] -> JInt (z_of_sx z)
  | L [A "d"; m; e] -> JDec (z_of_sx m, z_of_sx e)
  | L (A "s" :: cps) -> JStr (List.map n_of_sx cps)
  | L (A "a" :: items) -> JArr (List.map json_of_sx items)
  | L (A "o" :: members) ->
    JObj (List.map (function L [k; v] -> (str_of_sx k, json_of_sx v) | _ -> failwith "json member") members)
  | _ -> failwith "json_of_sx"

let rec sx_of_json (j : json) : Sx.t =
  match j with
  | JNull -> A "null"
  | JBool b -> A (if b then "true" else "false")
  | JInt z -> L [A "i"; sx_of_z z]
  | JDec (m, e) -> L [A "d"; sx_of_z m; sx_of_z e]
  | JStr s -> L (A "s" :: List.map sx_of_n s)
  | JArr l -> L (A "a" :: List.map sx_of_json l)
  | JObj ms -> L (A "o" :: List.map (fun (k, v) -> L [sx_of_str k; sx_of_json v]) ms)


(* OCaml string (ASCII) -> Coq string (extracted as an inductive over 8-bool ascii) *)
let ascii_of_char (c : char) : ascii =
  let n = Char.code c in
  let b i = (n lsr i) land 1 = 1 in
  Ascii (b 0, b 1, b 2, b 3, b 4, b 5, b 6, b 7)

let coqstr (s : Stdlib.String.t) : string =
  let rec go i = if i >= Stdlib.String.length s then EmptyString else String (ascii_of_char (Stdlib.String.get s i), go (i + 1)) in
  go 0

let coqstr_of_sx = function A s -> coqstr s | _ -> failwith "coqstr_of_sx"
