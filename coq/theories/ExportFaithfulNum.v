(* ExportFaithfulNum.v — C17 "faithful": the lossless-coercion facts about numerals.

     num_eqb_refl            a number equals itself whatever its exponent
     trunc_dec_same_value    a float accepted by a non-strict int field (dec_integral) and the int stored for it
                             (trunc_dec) are the same number  — the model of repo fix cb389b6
     parse_int_parse_dec     a text int() reads as z is read by decimal.Decimal as z  (white space, sign,
                             single underscores between digits: all of int()'s syntax is Decimal syntax)
     parse_dec_print_Z       Decimal(str(z)) = z
   Lemmas only. *)
From Coq Require Import List NArith ZArith Bool Lia ZifyBool.
Import ListNotations.
Require Import OJD.Base OJD.Numerals OJD.NumPrint OJD.Parse OJD.NumRoundtrip.
Local Open Scope list_scope.

(* ------------------------------------------------------------------ exact comparison *)

Lemma num_eqb_refl : forall a, num_eqb a a = true.
Proof. intros a. unfold num_eqb, num_cmp. rewrite Z.compare_refl. reflexivity. Qed.

Lemma num_eqb_same : forall x y : Z, x = y ->
  match Z.compare x y with Eq => true | _ => false end = true.
Proof. intros x y E. subst y. rewrite Z.compare_refl. reflexivity. Qed.

Lemma trunc_dec_same_value : forall m e,
  dec_integral m e = true -> num_eqb (mkNum m e) (num_of_Z (trunc_dec m e)) = true.
Proof.
  intros m e H. unfold num_eqb, num_cmp, num_of_Z. cbn [mant expo].
  apply num_eqb_same. unfold trunc_dec. unfold dec_integral in H.
  destruct (0 <=? e)%Z eqn:Ee.
  - assert (Em : Z.min e 0 = 0%Z) by lia. rewrite Em.
    replace (e - 0)%Z with e by lia. replace (0 - 0)%Z with 0%Z by lia.
    rewrite Z.pow_0_r. rewrite Z.mul_1_r. reflexivity.
  - cbn [orb] in H. assert (Em : Z.min e 0 = e) by lia. rewrite Em.
    replace (e - e)%Z with 0%Z by lia. replace (0 - e)%Z with (- e)%Z by lia.
    rewrite Z.pow_0_r. rewrite Z.mul_1_r.
    assert (Hr : Z.rem m (10 ^ (- e)) = 0%Z) by (apply Z.eqb_eq; exact H).
    pose proof (Z.quot_rem' m (10 ^ (- e))) as Hq. rewrite Hr in Hq.
    rewrite Z.add_0_r in Hq. rewrite Z.mul_comm in Hq. exact Hq.
Qed.

(* ------------------------------------------------------------------ strip *)

Lemma drop_while_split : forall (p : N -> bool) s,
  exists a, s = a ++ drop_while p s /\ forallb p a = true.
Proof.
  induction s as [|c r IH].
  - exists []. split; reflexivity.
  - cbn [drop_while]. destruct (p c) eqn:Ec.
    + destruct IH as [a [E Ha]]. exists (c :: a). split.
      * cbn [app]. f_equal. exact E.
      * cbn [forallb]. rewrite Ec. exact Ha.
    + exists []. split; reflexivity.
Qed.

Lemma forallb_rev' : forall (p : N -> bool) l, forallb p l = true -> forallb p (rev l) = true.
Proof.
  intros p l H. rewrite forallb_forall in *. intros c Hc. apply H. apply in_rev. exact Hc.
Qed.

Lemma strip_split : forall (p : N -> bool) s,
  exists a b, s = a ++ strip p s ++ b /\ forallb p a = true /\ forallb p b = true.
Proof.
  intros p s. unfold strip.
  destruct (drop_while_split p s) as [a [Ea Ha]].
  destruct (drop_while_split p (rev (drop_while p s))) as [b [Eb Hb]].
  exists a, (rev b). split; [|split; [exact Ha|apply forallb_rev'; exact Hb]].
  rewrite <- rev_app_distr. rewrite <- Eb. rewrite rev_involutive. exact Ea.
Qed.

Lemma drop_while_all : forall (p : N -> bool) a u, forallb p a = true -> drop_while p (a ++ u) = drop_while p u.
Proof.
  induction a as [|c a IH]; intros u H; [reflexivity|].
  cbn [forallb] in H. apply andb_true_iff in H. destruct H as [Hc Ha].
  cbn [app drop_while]. rewrite Hc. apply IH. exact Ha.
Qed.

Lemma strip_of_split : forall (q : N -> bool) a t b,
  forallb q a = true -> forallb q b = true -> (forall c, In c t -> q c = false) ->
  strip q (a ++ t ++ b) = t.
Proof.
  intros q a t b Ha Hb Ht. unfold strip. rewrite drop_while_all by exact Ha.
  destruct t as [|c r].
  - cbn [app]. destruct (drop_while_split q b) as [a' [Ea' Ha']].
    assert (Hd : drop_while q b = []).
    { clear - Hb. induction b as [|x b IH]; [reflexivity|]. cbn [forallb] in Hb. apply andb_true_iff in Hb.
      destruct Hb as [Hx Hb]. cbn [drop_while]. rewrite Hx. apply IH. exact Hb. }
    rewrite Hd. reflexivity.
  - rewrite (drop_while_head q ((c :: r) ++ b)) by (cbn [app]; apply Ht; left; reflexivity).
    rewrite rev_app_distr. rewrite drop_while_all by (apply forallb_rev'; exact Hb).
    rewrite (drop_while_head q (rev (c :: r))); [apply rev_involutive|].
    destruct (rev (c :: r)) as [|x l] eqn:E; [exact I|]. apply Ht. apply in_rev. rewrite E. left. reflexivity.
Qed.

Lemma int_space_dec_space : forall c, int_space c = true -> dec_space c = true.
Proof. intros c H. unfold dec_space. rewrite H. reflexivity. Qed.

Lemma forallb_impl' : forall (p q : N -> bool) l,
  (forall c, p c = true -> q c = true) -> forallb p l = true -> forallb q l = true.
Proof.
  intros p q l Hpq H. rewrite forallb_forall in *. intros c Hc. apply Hpq. apply H. exact Hc.
Qed.

(* ------------------------------------------------------------------ int() digits *)

Definition nz (c : N) : bool := negb (c =? 95)%N.

Definition int_char (c : N) : bool := is_digit c || (c =? 95)%N.

Lemma int_digits_spec : forall r acc prev z,
  int_digits acc prev r = Some z ->
  forallb int_char r = true
  /\ all_digits (filter nz r) = true
  /\ dval acc (filter nz r) = z
  /\ (prev = false -> exists c r', r = c :: r' /\ is_digit c = true).
Proof.
  induction r as [|c r IH]; intros acc prev z H.
  - cbn [int_digits] in H. destruct prev; [|discriminate]. inversion H. subst z.
    repeat split. intros E. discriminate.
  - cbn [int_digits] in H. destruct (is_digit c) eqn:Ec.
    + destruct (IH _ _ _ H) as [H1 [H2 [H3 _]]].
      assert (Enz : nz c = true) by (unfold nz; unfold is_digit in Ec; lia).
      cbn [forallb filter]. rewrite Enz. unfold int_char at 1. rewrite Ec. cbn [orb andb].
      split; [exact H1|]. split; [cbn [all_digits forallb]; rewrite Ec; exact H2|].
      split; [rewrite dval_cons; exact H3|]. intros _. exists c, r. split; [reflexivity|exact Ec].
    + destruct ((c =? 95)%N && prev) eqn:E; [|discriminate].
      apply andb_true_iff in E. destruct E as [E95 Ep].
      destruct (IH _ _ _ H) as [H1 [H2 [H3 _]]].
      assert (Enz : nz c = false) by (unfold nz; rewrite E95; reflexivity).
      cbn [forallb filter]. rewrite Enz. unfold int_char at 1. rewrite E95. rewrite orb_true_r. cbn [andb].
      split; [exact H1|]. split; [exact H2|]. split; [exact H3|].
      intros Ef. rewrite Ef in Ep. discriminate.
Qed.

Lemma int_char_not_space : forall c, int_char c = true -> dec_space c = false.
Proof.
  intros c H. unfold int_char, is_digit in H. unfold dec_space, int_space, uni_space. lia.
Qed.

(* the digits of an unsigned integer numeral, as Decimal reads them *)
Lemma parse_unsigned_digits : forall neg ds,
  all_digits ds = true -> ds <> [] ->
  parse_unsigned neg ds = Some (Fin (if neg then Z.opp (dval 0 ds) else dval 0 ds) 0).
Proof.
  intros neg ds Hd Hne. destruct (head_digit ds Hd Hne) as [c [r [E Hc]]].
  subst ds.
  rewrite (parse_unsigned_num neg c r (dval 0 (c :: r)) (0 + Z.of_nat (length (c :: r)))%Z []
                              (dval 0 (c :: r)) 0%Z [] 0%Z Hc).
  - reflexivity.
  - apply take_digits_all. exact Hd.
  - reflexivity.
  - cbn [length]. lia.
  - reflexivity.
Qed.

Theorem parse_int_parse_dec : forall s z, parse_int s = Some z -> parse_dec s = Some (Fin z 0).
Proof.
  intros s z H. unfold parse_int in H.
  destruct (strip_split int_space s) as [a [b [Es [Ha Hb]]]].
  set (t := strip int_space s) in *.
  destruct (split_sign t) as [neg r] eqn:Esign.
  destruct (int_digits 0 false r) as [z0|] eqn:Ed; [|discriminate].
  inversion H as [Hz]. clear H.
  destruct (int_digits_spec _ _ _ _ Ed) as [Hchars [Hdig [Hval Hhead]]].
  destruct (Hhead eq_refl) as [c0 [r0 [Er Hc0]]].
  (* every character of t is a sign, a digit or an underscore *)
  assert (Ht : (t = r /\ neg = false) \/ (t = 43%N :: r /\ neg = false) \/ (t = 45%N :: r /\ neg = true)).
  { unfold split_sign in Esign. destruct t as [|c t'].
    - inversion Esign. subst r. discriminate.
    - destruct (c =? 43)%N eqn:E43.
      + inversion Esign. subst. right. left. assert (c = 43%N) by lia. subst c. split; reflexivity.
      + destruct (c =? 45)%N eqn:E45.
        * inversion Esign. subst. right. right. assert (c = 45%N) by lia. subst c. split; reflexivity.
        * inversion Esign. subst. left. split; reflexivity. }
  assert (Hnsp : forall c, In c t -> dec_space c = false).
  { rewrite forallb_forall in Hchars.
    destruct Ht as [[Et _]|[[Et _]|[Et _]]]; rewrite Et; intros c Hc.
    - apply int_char_not_space. apply Hchars. exact Hc.
    - destruct Hc as [Hc|Hc]; [subst c; reflexivity|apply int_char_not_space; apply Hchars; exact Hc].
    - destruct Hc as [Hc|Hc]; [subst c; reflexivity|apply int_char_not_space; apply Hchars; exact Hc]. }
  unfold parse_dec.
  assert (Estrip : strip dec_space s = t).
  { rewrite Es. apply strip_of_split; [| |exact Hnsp].
    - eapply forallb_impl'; [exact int_space_dec_space|exact Ha].
    - eapply forallb_impl'; [exact int_space_dec_space|exact Hb]. }
  rewrite Estrip. fold nz.
  assert (Hne : filter nz r <> []).
  { rewrite Er. cbn [filter]. assert (Enz : nz c0 = true) by (unfold nz; unfold is_digit in Hc0; lia).
    rewrite Enz. discriminate. }
  assert (Hsd : split_sign (filter nz r) = (false, filter nz r)).
  { rewrite Er. cbn [filter]. assert (Enz : nz c0 = true) by (unfold nz; unfold is_digit in Hc0; lia).
    rewrite Enz. apply split_sign_digit. exact Hc0. }
  destruct Ht as [[Et En]|[[Et En]|[Et En]]]; rewrite Et; subst neg.
  - rewrite Hsd. rewrite parse_unsigned_digits by assumption. rewrite Hval. rewrite Hz. reflexivity.
  - cbn [filter]. change (nz 43%N) with true. cbn iota. rewrite split_sign_plus.
    rewrite parse_unsigned_digits by assumption. rewrite Hval. rewrite Hz. reflexivity.
  - cbn [filter]. change (nz 45%N) with true. cbn iota. rewrite split_sign_minus.
    rewrite parse_unsigned_digits by assumption. rewrite Hval. rewrite Hz. reflexivity.
Qed.

Theorem parse_dec_print_Z : forall z, parse_dec (print_Z z) = Some (Fin z 0).
Proof. intros z. apply parse_int_parse_dec. apply parse_int_print_Z. Qed.
