(* Extraction of preprocess_job_parameters on raw documents (C10/C11/C12 composed, PreprocessFull.v).
   ExtrOcamlBasic only. *)
From Coq Require Import Extraction ExtrOcamlBasic List NArith ZArith String.
Require Import OJD.Base OJD.Lexer OJD.Json OJD.Schema OJD.Generated OJD.Numerals OJD.CreateJob OJD.Parse OJD.Validators
               OJD.Accept OJD.JobParams OJD.Merge OJD.Paths OJD.CreateJobFull OJD.PreprocessFull.
Extraction Language OCaml.
Extraction "Model.ml" exn_eqb ascii_ok ascii_class preprocess_docs docs_sources docs_merged.
