#!/bin/bash
# confirm_seeded.sh <seeded dir>...: for each, in a scratch copy of /repo: the patch applies, the unedited
# test-suite passes with it (2025 passed; the copyright-header test fails on the pinned tree already), and the
# demonstration fails with it and passes without it.  Writes confirm.txt into the seeded dir.
for d in "$@"; do
  s=/tmp/mut/confirm-$$; rm -rf $s; mkdir -p /tmp/mut; cp -r /repo $s; rm -rf $s/.git
  ( cd $s && git init -q && git add -A >/dev/null 2>&1 && git -c user.email=a@b -c user.name=x commit -qm base )
  if ! ( cd $s && git apply $d/patch.diff ); then echo "$d: PATCH DOES NOT APPLY" | tee $d/confirm.txt; rm -rf $s; continue; fi
  t=$(cd $s && PYTHONPATH=$s/src /venv/bin/python -m pytest -q -p no:cacheprovider --timeout=900 --deselect test/openjd/test_copyright_header.py::test_copyright_headers 2>&1 | tail -1 | sed 's/\x1b\[[0-9;]*m//g')
  PYTHONPATH=$s/src PYTHONHASHSEED=0 timeout 900 /venv/bin/python -W ignore $d/demo.py >/dev/null 2>&1; w=$?
  PYTHONPATH=/repo/src PYTHONHASHSEED=0 timeout 900 /venv/bin/python -W ignore $d/demo.py >/dev/null 2>&1; wo=$?
  echo "$(basename $d): suite with change: [$t]  demo with change rc=$w  without rc=$wo" | tee $d/confirm.txt
  rm -rf $s
done
