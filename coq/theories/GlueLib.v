(* GlueLib.v — small schema-independent lemmas shared by the glue proofs (C04, C06, C09, C18, C19).
   Names are prefixed [gl_] so that they never clash with the per-component copies. *)
From Coq Require Import List NArith ZArith Bool String Lia.
Import ListNotations.
Require Import OJD.Base OJD.Json.
Local Open Scope list_scope.

Lemma gl_str_eqb_refl : forall a, str_eqb a a = true.
Proof. induction a as [|x a IH]; simpl; [reflexivity|]. rewrite N.eqb_refl. exact IH. Qed.

Lemma gl_str_eqb_eq : forall a b, str_eqb a b = true <-> a = b.
Proof.
  induction a as [|x a IH]; intros [|y b]; simpl; split; intros H; try reflexivity; try discriminate.
  - apply andb_true_iff in H. destruct H as [H1 H2]. apply N.eqb_eq in H1. apply IH in H2. subst. reflexivity.
  - inversion H. subst. rewrite N.eqb_refl. apply gl_str_eqb_refl.
Qed.

Lemma gl_str_eqb_neq : forall a b, str_eqb a b = false <-> a <> b.
Proof.
  intros a b. split.
  - intros H E. apply gl_str_eqb_eq in E. rewrite E in H. discriminate.
  - intros H. destruct (str_eqb a b) eqn:E; [|reflexivity]. apply gl_str_eqb_eq in E. contradiction.
Qed.

Lemma gl_str_eqb_sym : forall a b, str_eqb a b = str_eqb b a.
Proof.
  intros a b. destruct (str_eqb a b) eqn:E.
  - apply gl_str_eqb_eq in E. subst. symmetry. apply gl_str_eqb_refl.
  - symmetry. apply gl_str_eqb_neq. apply gl_str_eqb_neq in E. congruence.
Qed.

Lemma gl_str_eqb_app_l : forall p a b, str_eqb (p ++ a) (p ++ b) = str_eqb a b.
Proof. induction p as [|x p IH]; intros a b; simpl; [reflexivity|]. rewrite N.eqb_refl. apply IH. Qed.

Lemma gl_concat_nil : forall (A : Type) (ls : list (list A)),
  List.concat ls = [] -> forall l, In l ls -> l = [].
Proof.
  induction ls as [|x r IH]; intros H l Hin; [destruct Hin|].
  simpl in H. apply app_eq_nil in H. destruct H as [H1 H2].
  destruct Hin as [<-|Hin]; [exact H1|]. apply IH; assumption.
Qed.

Lemma gl_flat_map_nil : forall (A B : Type) (f : A -> list B) l,
  flat_map f l = [] -> forall x, In x l -> f x = [].
Proof.
  induction l as [|a r IH]; intros H x Hin; [destruct Hin|].
  simpl in H. apply app_eq_nil in H. destruct H as [H1 H2].
  destruct Hin as [<-|Hin]; [exact H1|]. apply IH; assumption.
Qed.

Lemma gl_in_combine_seq : forall (A : Type) (l : list A) x (s : nat),
  In x l -> exists i, In (i, x) (combine (seq s (List.length l)) l).
Proof.
  induction l as [|a r IH]; intros x s Hin; [destruct Hin|].
  simpl. destruct Hin as [<-|Hin].
  - exists s. left. reflexivity.
  - destruct (IH x (S s) Hin) as [i Hi]. exists i. right. exact Hi.
Qed.
