(* ExportRoots.v — C17: the round trip of the two template roots, with no hypothesis.

   ExportProofs.v leaves one named hypothesis for root = JobTemplate / EnvironmentTemplate,
   [prevalidate_stable]: the variable-reference walk (the only validator besides the pre-validators that
   reads the RAW document) reports nothing on the re-export of a template it reported nothing on.
   It is discharged here:
     - the walk is the document-level specification of C03 on every document (ScopeProofs.exact_job/env);
     - the specification reports nothing on the re-export when it reported nothing on the source
       (ExportView.spec_job_stable / spec_env_stable);
     - the only strings of the re-export at a reference site that are not the source's strings are the
       texts of Decimals (FLOAT range items), made of digits and "-.E+": no "{{", so no reference
       ([print_dec_quiet]).
   Lemmas only. *)
From Coq Require Import List NArith ZArith Bool String Lia Arith.
Import ListNotations.
Require Import OJD.Base OJD.Lexer OJD.Json OJD.Schema OJD.Generated OJD.Charsets OJD.Numerals OJD.NumPrint
               OJD.CreateJob OJD.Parse OJD.FormatStr OJD.FsRefs OJD.ScopeWalk OJD.ScopeSpec OJD.ScopeProofs
               OJD.Validators OJD.Accept OJD.Export OJD.NumRoundtrip OJD.ExportProofs OJD.ExportView.
Local Open Scope string_scope.
Local Open Scope list_scope.

(* ------------------------------------------------------------------------------------------ *)
(* 1. the text of a Decimal holds no reference                                                 *)

Lemma print_dec_okc : forall m e, forallb okc (print_dec m e) = true.
Proof.
  intros m e. rewrite print_dec_eq. cbv zeta.
  destruct (digits_of_N_spec (Z.abs_N m)) as [Hd _].
  set (ds := digits_of_N (Z.abs_N m)) in *.
  rewrite !forallb_app. rewrite exp_part_okc, andb_true_r.
  apply andb_true_iff. split; [destruct (m <? 0)%Z; reflexivity|].
  unfold dec_body.
  destruct (_ <=? 0)%Z.
  - rewrite !forallb_app. rewrite (all_digits_okc _ (all_digits_zeros _)), (all_digits_okc _ Hd). reflexivity.
  - destruct (_ <=? _)%Z.
    + rewrite forallb_app. rewrite (all_digits_okc _ (all_digits_zeros _)), (all_digits_okc _ Hd). reflexivity.
    + rewrite !forallb_app. rewrite (all_digits_okc _ (all_digits_firstn _ _ Hd)), (all_digits_okc _ (all_digits_skipn _ _ Hd)).
      reflexivity.
Qed.

Lemma find_from_absent : forall c rest t i, (forall d, In d t -> N.eqb c d = false) -> find_from (c :: rest) t i = None.
Proof.
  intros c rest t. induction t as [|d t IH]; intros i H; [reflexivity|].
  cbn [find_from is_prefix]. rewrite (H d (or_introl eq_refl)). cbn [andb].
  apply IH. intros d' Hd'. apply H. right. exact Hd'.
Qed.

Lemma okc_no_brace : forall c, okc c = true -> N.eqb lbrace c = false /\ N.eqb rbrace c = false.
Proof. intros c H. unfold okc, is_digit in H. unfold lbrace, rbrace. lia. Qed.

Lemma okc_no_refs : forall classify s, forallb okc s = true -> fs_refs classify s = Some [].
Proof.
  intros classify s H. rewrite forallb_forall in H. unfold fs_refs, mk. cbn [scan].
  destruct (Nat.leb (List.length s) 0) eqn:El; [reflexivity|].
  unfold find. cbn [Nat.ltb Nat.leb skipn].
  replace (Nat.ltb (List.length s) 0) with false by (symmetry; apply Nat.ltb_ge; lia).
  unfold open2, close2.
  rewrite find_from_absent by (intros d Hd; apply okc_no_brace; apply H; exact Hd).
  rewrite find_from_absent by (intros d Hd; apply okc_no_brace; apply H; exact Hd).
  reflexivity.
Qed.

Lemma print_dec_quiet : forall classify m e, quiet (fs_refs classify) (print_dec m e).
Proof. intros classify m e. right. apply okc_no_refs. apply print_dec_okc. Qed.

(* ------------------------------------------------------------------------------------------ *)
(* 2. the reference walk accepts the re-export of every accepted root                          *)

Theorem prevalidate_stable_holds : forall classify, prevalidate_stable classify.
Proof.
  intros classify f root ms flds Hr H.
  pose proof (parse_cls_post classify f root ms flds H) as Hpo.
  destruct Hr as [Er|Er]; subst root.
  - rewrite exact_job.
    apply (spec_job_stable classify pre_hook (post_hook classify) (fs_refs classify) (print_dec_quiet classify) f (JObj ms) _ H).
    rewrite <- exact_job.
    change (job_template_ok classify (JObj ms) flds = true) in Hpo. unfold job_template_ok in Hpo.
    repeat (apply andb_true_iff in Hpo; let H2 := fresh "Hc" in destruct Hpo as [Hpo H2]).
    destruct (prevalidate Generated.schema (fs_refs classify) "JobTemplate" (JObj ms)); [reflexivity|discriminate].
  - rewrite exact_env.
    rewrite (spec_env_stable classify pre_hook (post_hook classify) (fs_refs classify) f (JObj ms) _ H).
    rewrite <- exact_env.
    change (unique_names (fget "parameterDefinitions" flds)
            && match prevalidate Generated.schema (fs_refs classify) "EnvironmentTemplate" (JObj ms) with
               | [] => true | _ => false end = true) in Hpo.
    apply andb_true_iff in Hpo. destruct Hpo as [_ Hpo].
    destruct (prevalidate Generated.schema (fs_refs classify) "EnvironmentTemplate" (JObj ms)); [reflexivity|discriminate].
Qed.

(* decode(export(decode j)) = decode j for every template class, the two roots included *)
Theorem roundtrip_all_templates : forall classify root j v,
  In root template_classes ->
  parse_any classify root j = Ok v ->
  snd (roundtrip classify root v) = true.
Proof.
  intros classify root j v Hroot Hp. eapply roundtrip_live; try eassumption. apply prevalidate_stable_holds.
Qed.

Theorem roundtrip_template_roots : forall classify root j v,
  In root ["JobTemplate"; "EnvironmentTemplate"] ->
  parse_any classify root j = Ok v ->
  snd (roundtrip classify root v) = true.
Proof.
  intros classify root j v Hroot Hp. eapply roundtrip_all_templates; [|exact Hp].
  assert (Hs : forallb (fun c => mem_s c template_classes) ["JobTemplate"; "EnvironmentTemplate"] = true)
    by (vm_compute; reflexivity).
  rewrite forallb_forall in Hs. apply mem_s_In. apply Hs. exact Hroot.
Qed.
