(* props/C03.v — variable references are accepted exactly where the variable is in scope.

   Model: ScopeWalk.v (generic pre-validation walk, run on Generated.schema, i.e. the metadata the
   code has now).  Specification: ScopeSpec.v (document-level, written from the property text).
   Proofs: ScopeLib.v (schema-independent lemmas), ScopeProofs.v (one lemma per model class). *)
From Coq Require Import List NArith ZArith String.
Import ListNotations.
Require Import OJD.Base OJD.Lexer OJD.FsRefs OJD.Json OJD.Schema OJD.Generated OJD.ScopeWalk OJD.ScopeSpec
               OJD.ScopeLib OJD.ScopeProofs.
Local Open Scope string_scope.

(* The walker reports, for EVERY json document and every format-string front end [refs], exactly
   the errors of the specification: same references, same locations, same order, one error per
   offending reference (no masking), and never the out-of-fuel marker. *)
Theorem C03_exact_job : forall refs j,
  prevalidate Generated.schema refs "JobTemplate" j = spec_job_template refs j.
Proof. exact exact_job. Qed.
Print Assumptions C03_exact_job.

Theorem C03_exact_env : forall refs j,
  prevalidate Generated.schema refs "EnvironmentTemplate" j = spec_env_template refs j.
Proof. exact exact_env. Qed.
Print Assumptions C03_exact_env.

(* the fuel 4 * depth + 8 of the model always suffices *)
Theorem C03_no_fuel : forall refs j,
  ~ In EFuel (prevalidate Generated.schema refs "JobTemplate" j) /\
  ~ In EFuel (prevalidate Generated.schema refs "EnvironmentTemplate" j).
Proof. exact no_fuel. Qed.
Print Assumptions C03_no_fuel.

(* fields whose kind is not a format string / model / union contribute no reference site
   (any schema): '{{' in a description or a name is not a reference *)
Theorem C03_nonfs : forall SC refs fuel k v sc p syms l,
  match k with KFormat _ _ _ _ | KModel _ | KDisc _ _ | KUnion _ => False | _ => True end ->
  vsingle SC refs (S fuel) k v sc p syms l = [].
Proof. intros SC refs fuel k v sc p syms l H. destruct k; simpl in *; try reflexivity; contradiction. Qed.
Print Assumptions C03_nonfs.

(* meaning of a reference site of the specification: a well-formed format string reports exactly
   the referenced names that are not visible there, each occurrence once, in order *)
Theorem C03_spec_visible : forall refs vis l s names,
  refs s = Some names ->
  chk refs vis l (JStr s) = map (ERef l) (filter (fun n => negb (vis n)) names).
Proof. exact spec_visible. Qed.
Print Assumptions C03_spec_visible.

(* a malformed format string is not a reference site (pydantic flags it later) *)
Theorem C03_spec_malformed : forall refs vis l s, refs s = None -> chk refs vis l (JStr s) = [].
Proof. intros refs vis l s H. cbn [chk]. rewrite H. reflexivity. Qed.

(* ------------------------------------------------------------------ non-vacuity *)
Definition js (x : string) : json := JStr (str_of_string x).
Definition jo (l : list (string * json)) : json := JObj (map (fun kv => (str_of_string (fst kv), snd kv)) l).

(* 2 steps, an INT and a PATH job parameter, a task parameter, an embedded file, a step environment *)
Definition example_template (job_name : string) (step_b_arg : string) : json :=
  jo [("specificationVersion", js "jobtemplate-2023-09");
      ("name", js job_name);
      ("parameterDefinitions",
       JArr [jo [("name", js "Frames"); ("type", js "INT")];
             jo [("name", js "Out"); ("type", js "PATH")]]);
      ("steps",
       JArr [jo [("name", js "A");
                 ("parameterSpace",
                  jo [("taskParameterDefinitions",
                       JArr [jo [("name", js "X"); ("type", js "INT"); ("range", js "1-{{Param.Frames}}")]])]);
                 ("script",
                  jo [("actions",
                       jo [("onRun", jo [("command", js "{{Task.File.run}}");
                                         ("args", JArr [js "{{Task.Param.X}}"; js "{{Param.Out}}";
                                                        js "{{RawParam.Out}}"])])]);
                      ("embeddedFiles",
                       JArr [jo [("name", js "run"); ("type", js "TEXT");
                                 ("data", js "cd {{Session.WorkingDirectory}}; echo {{Task.RawParam.X}}")]])]);
                 ("stepEnvironments",
                  JArr [jo [("name", js "E");
                            ("variables", jo [("OUT", js "{{Param.Out}}")]);
                            ("script",
                             jo [("actions", jo [("onEnter", jo [("command", js "{{Env.File.setup}}")])]);
                                 ("embeddedFiles",
                                  JArr [jo [("name", js "setup"); ("type", js "TEXT");
                                            ("data", js "{{Param.Frames}}")]])])]])];
             jo [("name", js "B");
                 ("script",
                  jo [("actions", jo [("onRun", jo [("command", js "render");
                                                    ("args", JArr [js step_b_arg])])])])]])].

Definition real_refs := fs_refs ascii_class.

(* (a) every reference in scope: accepted *)
Example C03_accepts_in_scope :
  prevalidate Generated.schema real_refs "JobTemplate"
              (example_template "Job {{Param.Frames}} {{RawParam.Out}}" "{{Param.Out}}") = [].
Proof. vm_compute. reflexivity. Qed.

(* (b) a task parameter of the sibling step A is not visible in step B's script *)
Example C03_rejects_sibling_task_param :
  prevalidate Generated.schema real_refs "JobTemplate"
              (example_template "Job {{Param.Frames}}" "{{Task.Param.X}}")
  = [ERef [key "steps"; LIdx 1; key "script"; key "actions"; key "onRun"; key "args"; LIdx 0]
          (str_of_string "Task.Param.X")].
Proof. vm_compute. reflexivity. Qed.

(* (c) a PATH parameter's Param.<name> is rejected in the job name but accepted inside scripts and
       environments (same document: step A's script and environment use Param.Out) *)
Example C03_rejects_path_param_in_name :
  prevalidate Generated.schema real_refs "JobTemplate"
              (example_template "Job {{Param.Out}}" "{{Param.Out}}")
  = [ERef [key "name"] (str_of_string "Param.Out")].
Proof. vm_compute. reflexivity. Qed.

(* the specification gives the same verdicts on the same documents (instances of C03_exact_job) *)
Example C03_spec_nonvacuous :
  spec_job_template real_refs (example_template "Job {{Param.Out}}" "{{Task.Param.X}}")
  = [ERef [key "name"] (str_of_string "Param.Out");
     ERef [key "steps"; LIdx 1; key "script"; key "actions"; key "onRun"; key "args"; LIdx 0]
          (str_of_string "Task.Param.X")].
Proof. vm_compute. reflexivity. Qed.

(* an environment template: Env.File of the environment itself is visible, Task.* is not *)
Example C03_env_template_nonvacuous :
  prevalidate Generated.schema real_refs "EnvironmentTemplate"
    (jo [("specificationVersion", js "environment-2023-09");
         ("parameterDefinitions", JArr [jo [("name", js "Out"); ("type", js "PATH")]]);
         ("environment",
          jo [("name", js "E");
              ("variables", jo [("A", js "{{Param.Out}}"); ("B", js "{{Task.Param.X}}")]);
              ("script",
               jo [("actions", jo [("onEnter", jo [("command", js "{{Env.File.f}}");
                                                   ("args", JArr [js "{{Session.WorkingDirectory}}";
                                                                  js "{{Env.File.g}}"])])]);
                   ("embeddedFiles", JArr [jo [("name", js "f"); ("type", js "TEXT"); ("data", js "x")]])])])])
  = [ERef [key "environment"; key "script"; key "actions"; key "onEnter"; key "args"; LIdx 1]
          (str_of_string "Env.File.g");
     ERef [key "environment"; key "variables"; LKey (str_of_string "B")] (str_of_string "Task.Param.X")].
Proof. vm_compute. reflexivity. Qed.

(* C03_spec_visible has a hypothesis: a concrete well-formed site meets it *)
Example C03_spec_visible_nonvacuous :
  real_refs (str_of_string "{{Param.A}} and {{Task.Param.B}}")
  = Some [str_of_string "Param.A"; str_of_string "Task.Param.B"].
Proof. vm_compute. reflexivity. Qed.
