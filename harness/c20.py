"""C20 — 'Did you mean' suggestions are in-scope nearest names.

Correspondence between /repo (the working tree) and the extracted Coq model OJD.EditDist:

  dist      _edit_distance(a, b)                       vs  edit_distance a b   (and the spec oracle lev)
  closest   closest(set(syms), m) -> (d, sorted set)   vs  closest syms m      (and nearest_oracle)
  validate  FullNameNode(m).validate_symbol_refs(S)    vs  validate_symbol_refs S m
            (no error | the set of names after "Did you mean")
  decode    decode_job_template / decode_environment_template on templates with misspelt
            references: the names after "Did you mean" in the DecodeValidationError text vs
            validate_symbol_refs S_loc m, where S_loc comes from THIS FILE's scope table
            (written from the property text, not read from the package's metadata).
  threshold MAX_MATCH_DISTANCE_THRESHOLD               vs  Generated.max_match_distance

Only these observables are compared: never messages (beyond the suggested names), set order, reprs.
"""
import itertools
import random
import re
import sys
from pathlib import Path

sys.path.insert(0, str(Path(__file__).resolve().parent))
import core  # noqa: E402

from openjd.model import (  # noqa: E402
    DecodeValidationError,
    decode_environment_template,
    decode_job_template,
)
from openjd.model._format_strings import _nodes  # noqa: E402
from openjd.model._format_strings._edit_distance import _edit_distance, closest  # noqa: E402
from openjd.model._format_strings._nodes import FullNameNode  # noqa: E402

ALPHA4 = "abcd"
# the spec oracle lev is the plain three-way recursion (exponential): only asked on short pairs
ORACLE_MAXLEN = 7
# "suggestions are made only when that distance is below 5" (property text; C20_threshold pins the live constant to it)
PROPERTY_THRESHOLD = 5
NONASCII = [0xE9, 0xDF, 0x3A9, 0x416, 0x5D0, 0x663, 0x301, 0x3042, 0x4E2D, 0xFF21, 0x1F600, 0x10FFFF, 0x80, 0xA0, 0x2028]

SESSION = ["Session.WorkingDirectory", "Session.HasPathMappingRules", "Session.PathMappingRulesFile"]


# ------------------------------------------------------------------ templates and the scope table
def _env(name, files, slots, key):
    return {
        "name": name,
        "variables": {"V1": slots.get(key + ".var", "lit")},
        "script": {
            "actions": {
                "onEnter": {"command": slots.get(key + ".cmd", "c"), "args": [slots.get(key + ".arg", "a")]},
                "onExit": {"command": slots.get(key + ".exit", "c")},
            },
            "embeddedFiles": [
                {"name": f, "type": "TEXT", "data": slots.get(key + ".data", "d") if i == 0 else "d"} for i, f in enumerate(files)
            ],
        },
    }


def _step(name, tparams, files, slots, key, step_envs=None):
    tdefs = []
    for i, t in enumerate(tparams):
        if i == 0:
            tdefs.append({"name": t, "type": "STRING", "range": [slots.get(key + ".range", "x")]})
        elif i % 2 == 1:
            tdefs.append({"name": t, "type": "INT", "range": [1, 2]})
        else:
            tdefs.append({"name": t, "type": "PATH", "range": ["y"]})
    st = {
        "name": name,
        "parameterSpace": {"taskParameterDefinitions": tdefs},
        "script": {
            "actions": {"onRun": {"command": slots.get(key + ".cmd", "c"), "args": [slots.get(key + ".arg", "a")]}},
            "embeddedFiles": [
                {"name": f, "type": "TEXT", "data": slots.get(key + ".data", "d") if i == 0 else "d"} for i, f in enumerate(files)
            ],
        },
    }
    if step_envs:
        st["stepEnvironments"] = step_envs
    return st


def build_job(cfg, slots):
    return {
        "specificationVersion": "jobtemplate-2023-09",
        "name": slots.get("name", "N"),
        "parameterDefinitions": [{"name": n, "type": t} for n, t in cfg["params"]],
        "jobEnvironments": [_env("JE0", cfg["envfiles"]["je0"], slots, "je0"), _env("JE1", cfg["envfiles"]["je1"], slots, "je1")],
        "steps": [
            _step("S0", cfg["steps"][0]["tparams"], cfg["steps"][0]["files"], slots, "s0",
                  [_env("SE", cfg["envfiles"]["se"], slots, "se")]),
            _step("S1", cfg["steps"][1]["tparams"], cfg["steps"][1]["files"], slots, "s1"),
        ],
    }


def build_env(cfg, slots):
    return {
        "specificationVersion": "environment-2023-09",
        "parameterDefinitions": [{"name": n, "type": t} for n, t in cfg["params"]],
        "environment": _env("E", cfg["envfiles"]["je0"], slots, "je0"),
    }


# location id -> (kind, which).  Written from the property text (C03's statement of visibility):
#   template : job name, task-parameter range                 -> job parameters only (no PATH Param.*)
#   envvar   : environment variable value                     -> job parameters
#   envscript: environment actions / embedded file data       -> + Session.*, + Env.File of THAT environment
#   stepscript: step actions / embedded file data             -> + Session.*, + Task.* of THAT step
JOB_LOCS = {
    "name": ("template", None),
    "s0.range": ("template", None),
    "s1.range": ("template", None),
    "je0.var": ("envvar", "je0"), "je0.cmd": ("envscript", "je0"), "je0.arg": ("envscript", "je0"),
    "je0.exit": ("envscript", "je0"), "je0.data": ("envscript", "je0"),
    "je1.var": ("envvar", "je1"), "je1.cmd": ("envscript", "je1"), "je1.data": ("envscript", "je1"),
    "se.var": ("envvar", "se"), "se.cmd": ("envscript", "se"), "se.data": ("envscript", "se"),
    "s0.cmd": ("stepscript", 0), "s0.arg": ("stepscript", 0), "s0.data": ("stepscript", 0),
    "s1.cmd": ("stepscript", 1), "s1.arg": ("stepscript", 1), "s1.data": ("stepscript", 1),
}
ENV_LOCS = {k: v for k, v in JOB_LOCS.items() if k.startswith("je0.")}


def visible_set(cfg, kind, which):
    s = []
    for n, t in cfg["params"]:
        s.append("RawParam." + n)
        if t != "PATH" or kind != "template":
            s.append("Param." + n)
    if kind in ("envscript", "stepscript"):
        s += SESSION
    if kind == "envscript":
        s += ["Env.File." + f for f in cfg["envfiles"][which]]
    if kind == "stepscript":
        st = cfg["steps"][which]
        for t in st["tparams"]:
            s += ["Task.Param." + t, "Task.RawParam." + t]
        s += ["Task.File." + f for f in st["files"]]
    return s


def all_symbols(cfg):
    s = set(SESSION)
    for n, _ in cfg["params"]:
        s |= {"RawParam." + n, "Param." + n}
    for fs in cfg["envfiles"].values():
        s |= {"Env.File." + f for f in fs}
    for st in cfg["steps"]:
        for t in st["tparams"]:
            s |= {"Task.Param." + t, "Task.RawParam." + t}
        s |= {"Task.File." + f for f in st["files"]}
    return sorted(s)


_VALID_REF = re.compile(r"[^\W\d]\w*(?:\.[^\W\d]\w*)*\Z")
_IDENT = re.compile(r"[A-Za-z_][A-Za-z0-9_]*\Z")
WORDS = ["Frame", "Frames", "File", "Foo", "Fob", "Bar", "Scene", "Out", "OutDir", "X", "Xy", "a", "ab", "In", "Input", "F"]


def rand_ident(rng):
    if rng.random() < 0.6:
        w = rng.choice(WORDS)
        if rng.random() < 0.4:
            w = edit(rng, w, rng.randint(1, 2), "aAbB_1Fe")
        if _IDENT.match(w) and len(w) <= 12:
            return w
    return rng.choice("aAbBF_") + "".join(rng.choice("aAbB_1") for _ in range(rng.randint(0, 4)))


def rand_idents(rng, lo, hi):
    out = []
    want = rng.randint(lo, hi)
    while len(out) < want:
        w = rand_ident(rng)
        if w not in out:
            out.append(w)
    return out


def rand_cfg(rng):
    ps = rand_idents(rng, 1, 5)
    params = [(p, rng.choice(["STRING", "INT", "FLOAT", "PATH", "PATH"])) for p in ps]
    return {
        "params": params,
        "envfiles": {k: rand_idents(rng, 1, 2) for k in ("je0", "je1", "se")},
        "steps": [{"tparams": rand_idents(rng, 1, 4), "files": rand_idents(rng, 1, 2)} for _ in range(2)],
    }


def edit(rng, s, k, alphabet):
    s = list(s)
    for _ in range(k):
        op = rng.random()
        if op < 0.3 and s:
            del s[rng.randrange(len(s))]
        elif op < 0.6:
            s.insert(rng.randint(0, len(s)), rng.choice(alphabet))
        elif op < 0.85 and s:
            s[rng.randrange(len(s))] = rng.choice(alphabet)
        elif len(s) >= 2:
            i = rng.randrange(len(s) - 1)
            s[i], s[i + 1] = s[i + 1], s[i]
    return "".join(s)


def misspell(rng, cfg, visible):
    syms = all_symbols(cfg)
    for _ in range(30):
        r = rng.random()
        if r < 0.45:
            base = rng.choice(visible)
        elif r < 0.75:
            base = rng.choice(syms)
        elif r < 0.85:
            base = rng.choice(["Param", "Task", "Session", "Foo", "Job.Name", "Step.Name", "Env.Name", "P", "Pa"])
        else:
            base = rng.choice(["Param.", "RawParam.", "Task.Param.", "Task.File.", "Env.File.", "Session."]) + rand_ident(rng)
        k = rng.choice([0, 1, 1, 1, 2, 2, 3, 4, 4, 5, 5, 6, 7])
        m = edit(rng, base, k, "aAbB_1.Fexé" if rng.random() < 0.2 else "aAbB_1.Fex")
        if _VALID_REF.match(m) and len(m) <= 60:
            return m
    return "Param.Zz"


def rand_decode_case(rng):
    cfg = rand_cfg(rng)
    tpl = "env" if rng.random() < 0.2 else "job"
    locs = sorted(ENV_LOCS if tpl == "env" else JOB_LOCS)
    chosen = rng.sample(locs, rng.randint(1, min(4, len(locs))))
    refs, used = [], set()
    for loc in chosen:
        m = misspell(rng, cfg, visible_set(cfg, *JOB_LOCS[loc]))
        if m in used:
            continue
        used.add(m)
        style = rng.choice(["{{%s}}", "{{ %s }}", "pre {{%s}} post", "{{  %s}}x"])
        refs.append([loc, m, style])
    return {"k": "decode", "tpl": tpl, "cfg": cfg, "refs": refs}


def tie_decode_case(rng):
    """many long names at the same minimum distance from the misspelt reference: the suggestion list is long (the whole
    message runs to kilobytes) and must still be complete"""
    n = rng.choice([13, 16, 24, 40, 50])
    L = rng.choice([40, 60, 63, 64])
    prefix = "N" + "".join(rng.choice("abcXYZ_019") for _ in range(L - 2))
    tails = rng.sample("ABCDEFGHIJKLMNOPQRSTUVWXYZabcdefghijklmnopqrstuvwxyz", n + 1)
    params = [(prefix + t, rng.choice(["STRING", "INT", "FLOAT", "PATH"])) for t in tails[:n]]
    cfg = {"params": params, "envfiles": {k: rand_idents(rng, 1, 2) for k in ("je0", "je1", "se")},
           "steps": [{"tparams": rand_idents(rng, 1, 2), "files": rand_idents(rng, 1, 2)} for _ in range(2)]}
    locs = sorted(JOB_LOCS)
    loc = rng.choice(locs)
    kind = rng.choice(["Param.", "RawParam."])
    m = kind + prefix + (tails[n] if rng.random() < 0.7 else "")
    return {"k": "decode", "tpl": "job", "cfg": cfg, "refs": [[loc, m, "{{%s}}"]]}


def crowded_decode_case(rng):
    """17-50 job parameters (so 34-100 names are visible everywhere) and references whose nearest visible name is in
    ANOTHER namespace than the one they are written in: 'Param.X' for a PATH parameter where only 'RawParam.X' is visible
    (template scope), 'Task.Param.X' for a job parameter, a job parameter's name under 'Session.' ..."""
    n = rng.choice([17, 20, 33, 40, 50])
    names = []
    while len(names) < n:
        w = rand_ident(rng) + (str(len(names)) if rng.random() < 0.7 else "")
        if w not in names and _IDENT.match(w):
            names.append(w)
    params = [(p, rng.choice(["STRING", "INT", "FLOAT", "PATH", "PATH"])) for p in names]
    cfg = {"params": params, "envfiles": {k: rand_idents(rng, 1, 2) for k in ("je0", "je1", "se")},
           "steps": [{"tparams": rand_idents(rng, 1, 3), "files": rand_idents(rng, 1, 2)} for _ in range(2)]}
    tpl = "env" if rng.random() < 0.15 else "job"
    locs = sorted(ENV_LOCS if tpl == "env" else JOB_LOCS)
    refs, used = [], set()
    for loc in rng.sample(locs, min(len(locs), rng.randint(2, 5))):
        kind = JOB_LOCS[loc][0]
        nm, ty = rng.choice(params)
        r = rng.random()
        if r < 0.35:
            paths = [q for q, t in params if t == "PATH"]
            m = "Param." + (rng.choice(paths) if paths and kind == "template" else nm)
        elif r < 0.5:
            m = rng.choice(["Task.Param.", "Task.RawParam.", "Session.", "Env.File.", "Task.File.", "Raw.", "Params."]) + nm
        elif r < 0.6:
            m = nm
        else:
            m = misspell(rng, cfg, visible_set(cfg, *JOB_LOCS[loc]))
        if m in used or not _VALID_REF.match(m):
            continue
        used.add(m)
        refs.append([loc, m, rng.choice(["{{%s}}", "{{ %s }}", "pre {{%s}} post"])])
    return {"k": "decode", "tpl": tpl, "cfg": cfg, "refs": refs}


_ERR = re.compile(r"Variable (\S+) does not exist at this location\.(?: Did you mean: (.*)| Did you mean one of: (.*))?\Z")


def parse_suggestion(msg, name=None):
    """-> (name, [suggested names]) from one 'Variable ... does not exist' message, else None"""
    if name is not None:
        pre = f"Variable {name} does not exist at this location."
        if not msg.startswith(pre):
            return None
        rest = msg[len(pre):]
        if rest == "":
            return name, []
        if rest.startswith(" Did you mean: "):
            return name, [rest[len(" Did you mean: "):]]
        if rest.startswith(" Did you mean one of: "):
            return name, rest[len(" Did you mean one of: "):].split(", ")
        return None
    m = _ERR.match(msg)
    if not m:
        return None
    if m.group(2) is not None:
        return m.group(1), [m.group(2)]
    if m.group(3) is not None:
        return m.group(1), m.group(3).split(", ")
    return m.group(1), []


# ------------------------------------------------------------------ generators for the direct observables
def all_strings(maxlen):
    for n in range(maxlen + 1):
        for t in itertools.product(ALPHA4, repeat=n):
            yield "".join(t)


def rand_cp(rng):
    r = rng.random()
    if r < 0.5:
        return ord(rng.choice("abcdefXYZ._01"))
    if r < 0.8:
        return rng.choice(NONASCII)
    c = rng.randint(0x20, 0x10FFFF)
    return c if not 0xD800 <= c <= 0xDFFF else 0x4E2D


def rand_str(rng, maxlen, small_alpha=False):
    n = rng.randint(0, maxlen)
    if small_alpha:
        return "".join(rng.choice("ab.") for _ in range(n))
    return "".join(chr(rand_cp(rng)) for _ in range(n))


def rand_pair(rng):
    r = rng.random()
    if r < 0.35:
        a = rand_str(rng, 40)
        b = edit(rng, a, rng.randint(0, 8), "abc.Xé中")
    elif r < 0.6:
        a, b = rand_str(rng, 40), rand_str(rng, 40)
    elif r < 0.8:
        a, b = rand_str(rng, 12, True), rand_str(rng, 12, True)
    else:
        a = rng.choice(["Param.", "Task.Param.", "RawParam.", "Task.File.", "Env.File.", "Session."]) + rand_str(rng, 8, True)
        b = edit(rng, a, rng.randint(0, 7), "abP.m")
    return a, b


DOTTED = ["Param.Foo", "Param.Fob", "Param.Bar", "Param.Boo", "RawParam.Foo", "Task.Param.Bar", "Task.Param.Baz",
          "Task.RawParam.Bar", "Task.File.run", "Env.File.run", "Session.WorkingDirectory", "Param.Another", "Param.F", "Param.Frame"]


def rand_symset(rng):
    r = rng.random()
    if r < 0.08:
        return [], rand_str(rng, 7, True)
    if r < 0.5:
        # tiny alphabet: many ties
        syms = [rand_str(rng, 7, True) for _ in range(rng.randint(1, 7))]
        m = rand_str(rng, 7, True)
    elif r < 0.85:
        base = rng.sample(DOTTED, rng.randint(1, 6))
        syms = [edit(rng, s, rng.choice([0, 0, 1, 2]), "aoF.rm") for s in base]
        m = edit(rng, rng.choice(syms + DOTTED), rng.choice([0, 1, 1, 2, 3, 4, 5, 6]), "aoF.rmx")
    else:
        # short names against long symbols (the len(match)+1 initial bound) and non-ASCII
        syms = [rand_str(rng, 9) for _ in range(rng.randint(1, 5))]
        m = rand_str(rng, 3)
    if rng.random() < 0.2 and syms:
        syms.append(rng.choice(syms))      # the model takes a list: duplicates must not matter
    rng.shuffle(syms)
    return syms, m


def ok_for_message(s):
    """symbols / names for which the suggestion text can be parsed back unambiguously"""
    return "," not in s and "\n" not in s


CORPUS_PAIRS = [
    ("", ""), ("", "a"), ("a", ""), ("a", "bc"), ("ab", "bc"), ("abc", "bc"), ("abc", "ac"), ("abc", "ab"), ("abc", "zabc"),
    ("abc", "azbc"), ("abc", "abcz"), ("abcdefghijklmnopqrstuvwxyz", "zyxwvutsrqponmlkjihgfedcba"),
    ("kitten", "sitting"), ("sitting", "kitten"), ("flaw", "lawn"), ("Task.Param.Frame", "Param.Fraem"), ("ab", "ba"),
    ("aaaa", "aa"), ("abab", "baba"), ("é", "e"), ("中文", "中"), ("\U0001F600a", "a\U0001F600"), ("Param.Frame", "Param.Fxxxxx"),
]
CORPUS_CLOSEST = [
    ([], "Param.Foo"), (["Param.Foo", "Param.Boo", "Param.Another"], "Parm.Foo"),
    (["Param.Foo", "Param.Boo", "Param.Another"], "Param.Zoo"),
    (["bbbb"], "a"), (["bbb"], "a"), (["bb"], "a"), (["bbbbb"], "ab"), (["Session.WorkingDirectory"], "x"), ([""], "a"), ([""], ""),
    (["a", "b", "c"], ""), (["Param.Foo", "Param.Foo"], "Param.Fo"), (["Param.Frame"], "Param.Fxxxxx"), (["Param.Frame"], "Param.Fxxxx"),
    (["Param.Foo", "Task.Param.Foo", "RawParam.Foo"], "Pram.Foo"),
]


class C20(core.PropBase):
    id = "C20"
    component = "editdist"
    extract_file = "ExtractEditDist.v"
    uses_table = False
    chunk_size = 1500
    theorem_for_mismatch = "C20_lev / C20_closest / C20_suggest / C20_validate (model = implementation correspondence)"
    assumptions = [
        "array('L') cells never overflow: distances are bounded by the string lengths (nat in the model)",
        "Python str is a sequence of code points and == on 1-character strings is code point equality",
        "the symbol set handed to validate_symbol_refs at a location is the visible set (C03); checked here only through "
        "decoded templates against this harness's own scope table for 20 locations",
        "CPython 3.12 as installed",
    ]

    # ---------------------------------------------------------------- cases
    def corpus_cases(self):
        out = [{"k": "threshold"}]
        out += [{"k": "dist", "a": a, "b": b} for a, b in CORPUS_PAIRS]
        for syms, m in CORPUS_CLOSEST:
            out.append({"k": "closest", "syms": syms, "m": m})
            out.append({"k": "validate", "syms": syms, "m": m})
        cfg = {"params": [("Foo", "STRING"), ("Fob", "INT"), ("Pp", "PATH")],
               "envfiles": {"je0": ["jf0"], "je1": ["jf1"], "se": ["sf"]},
               "steps": [{"tparams": ["Ti", "Tj"], "files": ["tf0"]}, {"tparams": ["U"], "files": ["tf1"]}]}
        fixed = [
            [["name", "Param.Fo", "{{%s}}"]],                       # tie Foo/Fob
            [["name", "Param.Pz", "{{%s}}"]],                       # Param.Pp (PATH) is NOT visible in the job name
            [["je0.var", "Param.Pz", "{{%s}}"]],                    # ... but is in an environment
            [["s1.cmd", "Task.Param.Ti", "{{%s}}"]],                # other step's parameter, exact name
            [["s0.cmd", "Task.Param.Tk", "{{%s}}"]],                # tie Ti/Tj
            [["je1.cmd", "Env.File.jf0", "{{%s}}"]],                # other environment's file
            [["se.data", "Sesion.WorkingDirectory", "{{ %s }}"]],
            [["je0.var", "Session.WorkingDirectory", "{{%s}}"]],    # Session.* not visible in variables
            [["name", "Session.WorkingDirectory", "{{%s}}"]],
            [["s0.range", "Task.Param.Ti", "{{%s}}"]],
            [["name", "Param.Fooooooo", "{{%s}}"]], [["name", "Param.Foooooo", "{{%s}}"]],   # distance 5 / 4
            [["name", "P", "{{%s}}"]], [["name", "Pa", "{{%s}}"]],
            [["name", "Param.Fo", "{{%s}}"], ["s0.cmd", "Task.Param.T", "{{%s}}"], ["je1.data", "Env.File.jf", "x{{%s}}"]],
        ]
        out += [{"k": "decode", "tpl": "job", "cfg": cfg, "refs": r} for r in fixed]
        out += [{"k": "decode", "tpl": "env", "cfg": cfg, "refs": [["je0.cmd", "Env.File.jf1", "{{%s}}"], ["je0.var", "Param.Pq", "{{%s}}"]]}]
        return out

    def cases(self, tier, seed):
        rng = random.Random(seed * 104729 + 20)
        thorough = tier == "thorough"
        n_decode = 60000 if thorough else 4000
        decode_cases = [rand_decode_case(rng) for _ in range(n_decode)]
        decode_cases[1:1] = [tie_decode_case(rng) for _ in range(60 if thorough else 12)]
        decode_cases[1:1] = [crowded_decode_case(rng) for _ in range(600 if thorough else 60)]
        n_decode = len(decode_cases)
        n_rand_pairs = 300000 if thorough else 20000
        n_sets = 300000 if thorough else 20000

        def light():
            # 1. exhaustive: all ordered pairs of strings of length <= 4 (quick) / <= 5 (thorough) over 4 letters
            strs = list(all_strings(5 if thorough else 4))
            for a in strs:
                for b in strs:
                    yield {"k": "dist", "a": a, "b": b}
            # 2. random pairs up to length 40, with non-ASCII / astral code points
            for _ in range(n_rand_pairs):
                a, b = rand_pair(rng)
                yield {"k": "dist", "a": a, "b": b}
            # 3. symbol sets: closest() and FullNameNode.validate_symbol_refs()
            for i in range(n_sets):
                syms, m = rand_symset(rng)
                yield {"k": "closest", "syms": syms, "m": m}
                if ok_for_message(m) and all(ok_for_message(s) for s in syms) and not (set(m) & set(" \t")):
                    yield {"k": "validate", "syms": syms, "m": m}

        # decode cases are ~100x heavier: spread them evenly over the chunks
        total_light = (1365 if thorough else 341) ** 2 + n_rand_pairs + 2 * n_sets
        every = max(1, total_light // max(1, n_decode))
        di = 0
        for i, c in enumerate(light()):
            if i % every == 0 and di < n_decode:
                yield decode_cases[di]
                di += 1
            yield c
        for c in decode_cases[di:]:
            yield c

    def rule(self, tier):
        n = 5 if tier == "thorough" else 4
        return (f"corpus (test_edit_distance.py pairs, threshold boundary 4/5, short-name/initial-bound cases, fixed out-of-scope templates); "
                f"ALL ordered pairs of strings of length <= {n} over {{a,b,c,d}} (exhaustive; model AND spec oracle lev); random pairs to length 40 "
                "incl. non-ASCII/astral code points (oracle lev when both <= 7 long); random symbol sets (3-letter alphabet for ties, dotted "
                "template-style names, short names vs long symbols, empty sets, duplicates, shuffled) through closest() and "
                "FullNameNode.validate_symbol_refs(); random job/environment templates (random near-colliding identifiers, 1-4 misspelt or "
                "out-of-scope references over 20 locations; 13-50 names of 40-64 characters all at distance 1 from the reference) through decode_*_template. distinct = by case content; non-trivial = "
                "dist: a != b both non-empty; closest/validate: >= 2 symbols; decode: always")

    def exhaustive(self, tier):
        return False

    def samples(self, tier, seed):
        rng = random.Random(seed)
        out = [{"k": "dist", "a": a, "b": b} for a, b in (rand_pair(rng) for _ in range(3))]
        for _ in range(3):
            syms, m = rand_symset(rng)
            out.append({"k": "closest", "syms": syms, "m": m})
        for _ in range(3):
            c = rand_decode_case(rng)
            out.append({"k": "decode", "tpl": c["tpl"], "refs": c["refs"], "visible@first": sorted(self._sets(c)[0][1])})
        return out

    def nontrivial(self, case):
        k = case["k"]
        if k == "dist":
            return bool(case["a"]) and bool(case["b"]) and case["a"] != case["b"]
        if k in ("closest", "validate"):
            return len(set(case["syms"])) >= 2
        return k == "decode"

    # ---------------------------------------------------------------- implementation side
    def _sets(self, case):
        """[(name, visible symbol list)] for each reference of a decode case"""
        locs = ENV_LOCS if case["tpl"] == "env" else JOB_LOCS
        return [(m, visible_set(case["cfg"], *locs[loc])) for loc, m, _ in case["refs"]]

    def impl(self, case):
        k = case["k"]
        try:
            if k == "threshold":
                return ["ok", _nodes.MAX_MATCH_DISTANCE_THRESHOLD]
            if k == "dist":
                return ["ok", _edit_distance(case["a"], case["b"])]
            if k == "closest":
                d, t = closest(set(case["syms"]), case["m"])
                return ["ok", d, sorted(t)]
            if k == "validate":
                try:
                    FullNameNode(case["m"]).validate_symbol_refs(symbols=set(case["syms"]))
                except ValueError as e:
                    p = parse_suggestion(str(e), case["m"])
                    if p is None:
                        return ["unparsed", str(e)]
                    return ["error", sorted(p[1])]
                return ["no-error"]
            if k == "decode":
                slots = {loc: style % m for loc, m, style in case["refs"]}
                try:
                    if case["tpl"] == "env":
                        decode_environment_template(template=build_env(case["cfg"], slots))
                    else:
                        decode_job_template(template=build_job(case["cfg"], slots))
                except DecodeValidationError as e:
                    found = []
                    for line in str(e).splitlines():
                        if line.startswith("\t"):
                            p = parse_suggestion(line[1:])
                            if p is not None:
                                found.append([p[0], sorted(p[1])])
                    return ["errors", sorted(found)]
                return ["errors", []]
        except BaseException as e:  # noqa: BLE001
            return ["raise", type(e).__name__]
        return ["bad-case"]

    # ---------------------------------------------------------------- model side
    def requests(self, case):
        k = case["k"]
        if k == "threshold":
            return [["threshold"]]
        if k == "dist":
            o = len(case["a"]) <= ORACLE_MAXLEN and len(case["b"]) <= ORACLE_MAXLEN
            return [["dist", core.cps(case["a"]), core.cps(case["b"]), o]]
        if k == "closest":
            o = all(len(s) <= ORACLE_MAXLEN for s in case["syms"] + [case["m"]])
            return [["closest", [core.cps(s) for s in case["syms"]], core.cps(case["m"]), o]]
        if k == "validate":
            return self._validate_reqs(case["syms"], case["m"])
        if k == "decode":
            return [r for m, syms in self._sets(case) for r in self._validate_reqs(syms, m)]
        return []

    @staticmethod
    def _validate_reqs(syms, m):
        ss, mm = [core.cps(s) for s in syms], core.cps(m)
        return [["validate", ss, mm], ["closest", ss, mm, False]]

    @staticmethod
    def _strs(l):
        return sorted(core.uncps(x) for x in l)

    def model_obs(self, case, replies):
        k = case["k"]
        if k == "threshold":
            return ["ok", replies[0]]
        if k == "dist":
            m, o = replies[0]
            if m[0] != "ok":
                return ["raise", m[1]]
            if o != "none" and o != m[1]:
                return ["MODEL-SPEC-DISAGREE", m[1], o]
            return ["ok", m[1]]
        if k == "closest":
            m, o = replies[0]
            if m[0] != "ok":
                return ["raise", m[1]]
            d, t = m[1]
            if len(t) != len(set(self._strs(t))):
                return ["MODEL-SET-HAS-DUPLICATES", m]
            if o != "none" and (o[0] != d or sorted(set(self._strs(o[1]))) != self._strs(t)):
                return ["MODEL-SPEC-DISAGREE", m, o]
            return ["ok", d, self._strs(t)]
        if k == "validate":
            return self._validate_obs(replies[0], replies[1], case["syms"], case["m"])
        if k == "decode":
            found = []
            for i, (m, syms) in enumerate(self._sets(case)):
                v = self._validate_obs(replies[2 * i], replies[2 * i + 1], syms, m)
                if v[0] == "error":
                    found.append([m] + v[1:])
                elif v[0] != "no-error":
                    return v
            return ["errors", sorted(found)]
        return ["bad-case"]

    def _validate_obs(self, r, rc, syms, m):
        """model observable of validate_symbol_refs, cross-checked against the property text's own
        threshold ("below 5") applied to the model's closest(): the model takes its threshold from
        Generated.max_match_distance (the live constant), so if that constant moves, the property
        expectation is returned (with a note) and the implementation is reported on a concrete input."""
        if r[0] != "ok":
            return ["raise", r[1]]
        v = ["no-error"] if r[1] == "none" else ["error", self._strs(r[1][1])]
        if rc[0][0] == "ok":
            d, t = rc[0][1]
            want = ["no-error"] if m in syms else ["error", self._strs(t) if d < PROPERTY_THRESHOLD else []]
            if want != v:
                return want + [f"expected by the property text (threshold {PROPERTY_THRESHOLD}); the model with the live threshold gives", v]
        return v

    # ---------------------------------------------------------------- bookkeeping
    def classify_case(self, case, obs):
        k = case["k"]
        ks = [k]
        if k == "dist" and obs[0] == "ok":
            ks.append("dist:maxlen=" + ("0-5" if max(len(case["a"]), len(case["b"])) <= 5 else "6-15" if max(len(case["a"]), len(case["b"])) <= 15 else "16-40+"))
            ks.append("dist:d=" + (str(obs[1]) if obs[1] < 6 else "6+"))
            if any(ord(c) > 127 for c in case["a"] + case["b"]):
                ks.append("dist:non-ascii")
        elif k == "closest" and obs[0] == "ok":
            ks.append("closest:|T|=" + (str(len(obs[2])) if len(obs[2]) < 3 else "3+"))
            if not case["syms"]:
                ks.append("closest:empty-symbols")
            elif not obs[2]:
                ks.append("closest:all-beyond-initial-bound")
        elif k == "validate":
            ks.append("validate:" + (obs[0] if obs[0] != "error" else "suggest=" + (str(len(obs[1])) if len(obs[1]) < 3 else "3+")))
            if obs[0] == "error" and case["syms"]:
                dmin = min(_edit_distance(s, case["m"]) for s in case["syms"])
                ks.append("validate:min=" + (str(dmin) if dmin < 7 else "7+"))
        elif k == "decode" and obs[0] == "errors":
            ks.append("decode:" + case["tpl"])
            ks.append(f"decode:refs={len(case['refs'])}")
            ks.append(f"decode:errors={len(obs[1])}")
            for (m, syms), (loc, _, _) in zip(self._sets(case), case["refs"]):
                kind = (ENV_LOCS if case["tpl"] == "env" else JOB_LOCS)[loc][0]
                ks.append("decode:loc=" + kind)
                if m in syms:
                    ks.append("decode:ref-in-scope")
                else:
                    dmin = min(_edit_distance(s, m) for s in syms)
                    ks.append("decode:min=" + (str(dmin) if dmin < 7 else "7+"))
                    out_of_scope = [s for s in all_symbols(case["cfg"]) if s not in syms and _edit_distance(s, m) < dmin]
                    if out_of_scope:
                        ks.append("decode:nearer-name-exists-out-of-scope")
            for name, sug in obs[1]:
                ks.append("decode:suggest=" + (str(len(sug)) if len(sug) < 3 else "3+"))
        return ks

    def spec_obs(self, case):
        """what the specification says: lev / nearest_oracle for the direct observables; for
        validate/decode the model value (proved equal to the spec by C20_suggest*, C20_validate)"""
        drv = core.Driver(self.component)
        k = case["k"]
        if k == "dist":
            if max(len(case["a"]), len(case["b"])) > 10:
                return ["lev not evaluated (exponential oracle); the model equals lev by C20_lev"]
            r, _ = drv.ask([["dist", core.cps(case["a"]), core.cps(case["b"]), True]])
            return ["lev", r[0][1]]
        if k == "closest":
            if any(len(s) > 10 for s in case["syms"] + [case["m"]]):
                return ["nearest_oracle not evaluated (exponential lev); the model equals it by C20_closest"]
            r, _ = drv.ask([self.requests(case)[0][:3] + [True]])
            return ["capped minimum, members at that distance", r[0][1][0], sorted(set(self._strs(r[0][1][1])))]
        r, _ = drv.ask(self.requests(case))
        return ["model (= spec by C20_suggest_iff / C20_validate)", self.model_obs(case, r)]

    def shrink_candidates(self, case):
        k = case["k"]
        if k == "dist":
            for f in ("a", "b"):
                s = case[f]
                for i in range(len(s)):
                    yield dict(case, **{f: s[:i] + s[i + 1:]})
        elif k in ("closest", "validate"):
            syms = case["syms"]
            for i in range(len(syms)):
                yield dict(case, syms=syms[:i] + syms[i + 1:])
            m = case["m"]
            for i in range(len(m)):
                yield dict(case, m=m[:i] + m[i + 1:])
        elif k == "decode":
            refs = case["refs"]
            if len(refs) > 1:
                for i in range(len(refs)):
                    yield dict(case, refs=refs[:i] + refs[i + 1:])


PROP = C20()

if __name__ == "__main__":
    sys.exit(core.main(PROP, sys.argv[1:]))
