(* AcceptDeps.v — C01/C02 part B: the acyclicity clause of [DepsRule] (stated with C15's [acyclic]
   on the position graph [dep_job]) says the same as the name-level statement [NameAcyclic] of
   WF.v, whenever step names are pairwise distinct. *)
From Coq Require Import List NArith ZArith Bool String Lia.
Import ListNotations.
Require Import OJD.Base OJD.Json OJD.Schema OJD.CreateJob OJD.CombProofs OJD.DepGraph OJD.DepGraphSpec
               OJD.Validators OJD.WF OJD.AcceptRules.
Local Open Scope string_scope.
Local Open Scope list_scope.

Lemma index_of_nth_error x l : forall p i,
  NoDup l -> nth_error l p = Some x -> index_of x l i = Some (i + N.of_nat p)%N.
Proof.
  induction l as [|y r IH]; intros p i ND Hn; [destruct p; discriminate Hn|].
  inversion ND as [|? ? Hy NDr]. subst. cbn [index_of]. destruct p as [|p'].
  - cbn in Hn. inversion Hn. subst y. rewrite (proj2 (str_eqb_eq x x) eq_refl). f_equal. lia.
  - cbn in Hn. destruct (str_eqb x y) eqn:E.
    + apply str_eqb_eq in E. subst y. exfalso. apply Hy. eapply nth_error_In. exact Hn.
    + rewrite (IH p' (i + 1)%N NDr Hn). f_equal. lia.
Qed.

Lemma index_of_Some x l : forall i k,
  index_of x l i = Some k -> exists p, k = (i + N.of_nat p)%N /\ nth_error l p = Some x.
Proof.
  induction l as [|y r IH]; intros i k H; [discriminate H|]. cbn [index_of] in H.
  destruct (str_eqb x y) eqn:E.
  - apply str_eqb_eq in E. subst y. inversion H. subst k. exists 0. split; [lia|reflexivity].
  - destruct (IH _ _ H) as (p & Hk & Hn). exists (S p). split; [lia|exact Hn].
Qed.

Lemma combine_seq_fwd {A} (l : list A) : forall s i x,
  In (i, x) (combine (seq s (List.length l)) l) -> s <= i /\ nth_error l (i - s) = Some x.
Proof.
  induction l as [|a r IH]; intros s i x Hin; [contradiction|]. cbn in Hin. destruct Hin as [E|Hin].
  - inversion E. subst. split; [lia|]. rewrite Nat.sub_diag. reflexivity.
  - destruct (IH _ _ _ Hin) as [Hle Hn]. split; [lia|].
    replace (i - s) with (S (i - S s)) by lia. exact Hn.
Qed.

Lemma combine_seq_bwd {A} (l : list A) : forall s p x,
  nth_error l p = Some x -> In (s + p, x) (combine (seq s (List.length l)) l).
Proof.
  induction l as [|a r IH]; intros s p x Hn; [destruct p; discriminate Hn|]. cbn. destruct p as [|p'].
  - cbn in Hn. inversion Hn. subst. left. f_equal. lia.
  - right. cbn in Hn. replace (s + S p') with (S s + p') by lia. apply IH. exact Hn.
Qed.

Section Names.
Variable steps : mval.
Let names := names_of steps.
Let items := mitems steps.
Let n := N.of_nat (List.length names).
Let idx (d : str) : N := match index_of d names 0 with Some k => k | None => n end.
Let j := dep_job steps.

Lemma names_map : names = map step_name items.
Proof. reflexivity. Qed.

Lemma dep_job_entries : j = map (fun iv => (N.of_nat (fst iv), map idx (dep_names (snd iv))))
                               (combine (seq 0 (List.length items)) items).
Proof. unfold j, dep_job, idx, n, names, items. rewrite !names_of_length. reflexivity. Qed.

Lemma depends_iff i k :
  depends j i k <-> exists e, In e j /\ fst e = i /\ In k (snd e).
Proof.
  unfold depends, deps_of. rewrite in_flat_map. split; intros (e & He & H); exists e.
  - cbv beta in H. destruct (N.eqb (fst e) i) eqn:E; [|contradiction]. apply N.eqb_eq in E. auto.
  - destruct H as [E Hk]. split; [exact He|]. cbv beta. subst i. rewrite N.eqb_refl. exact Hk.
Qed.

Hypothesis ND : NoDup names.

Lemma idx_at p a : nth_error names p = Some a -> idx a = N.of_nat p.
Proof. intros H. unfold idx. rewrite (index_of_nth_error a names p 0%N ND H). lia. Qed.

Lemma K1 a b : StepDependsOn steps a b -> depends j (idx a) (idx b).
Proof.
  intros (st & Hst & Ha & Hb). apply In_nth_error in Hst. destruct Hst as (p & Hp).
  apply depends_iff. exists (N.of_nat p, map idx (dep_names st)). split; [|split].
  - rewrite dep_job_entries. apply in_map_iff. exists (p, st). split; [reflexivity|].
    exact (combine_seq_bwd items 0 p st Hp).
  - cbn [fst]. symmetry. apply idx_at. rewrite names_map. rewrite <- Ha. apply map_nth_error. exact Hp.
  - cbn [snd]. apply in_map. exact Hb.
Qed.

Lemma K2 i k : depends j i k ->
  exists a b, StepDependsOn steps a b /\ idx a = i /\ idx b = k /\ In a names.
Proof.
  intros H. apply depends_iff in H. destruct H as (e & He & Hi & Hk).
  rewrite dep_job_entries in He. apply in_map_iff in He. destruct He as ([p st] & Ee & Hc). subst e.
  cbn [fst snd] in Hi, Hk. apply combine_seq_fwd in Hc. destruct Hc as [_ Hp]. rewrite Nat.sub_0_r in Hp.
  apply in_map_iff in Hk. destruct Hk as (b & Eb & Hb).
  assert (Hst : In st items) by (eapply nth_error_In; exact Hp).
  exists (step_name st), b. split; [exists st; repeat split; assumption|]. split; [|split].
  - rewrite <- Hi. apply idx_at. rewrite names_map. apply map_nth_error. exact Hp.
  - exact Eb.
  - rewrite names_map. apply in_map. exact Hst.
Qed.

Lemma K3 a' b : In a' names -> idx b = idx a' -> b = a'.
Proof.
  intros Hin E. destruct (index_of_In a' names 0%N Hin) as (k & Hk & _ & Hlt).
  unfold idx in E. rewrite Hk in E.
  destruct (index_of b names 0) as [k'|] eqn:Hb.
  - subst k'. destruct (index_of_Some _ _ _ _ Hk) as (p & E1 & H1).
    destruct (index_of_Some _ _ _ _ Hb) as (p' & E2 & H2).
    assert (p = p') by lia. subst p'. rewrite H1 in H2. inversion H2. reflexivity.
  - exfalso. unfold n in E. lia.
Qed.

Lemma path_fwd a b : DepPath steps a b -> dpath j (idx a) (idx b).
Proof.
  induction 1 as [a b H|a b c H _ IH].
  - apply dpath_one. apply K1. exact H.
  - eapply dpath_cons; [apply K1; exact H|exact IH].
Qed.

Lemma path_bwd i k : dpath j i k ->
  exists a b, DepPath steps a b /\ idx a = i /\ idx b = k /\ In a names.
Proof.
  induction 1 as [i k H|i m k H _ IH].
  - destruct (K2 i k H) as (a & b & Hs & Ea & Eb & Hin). exists a, b. split; [apply DepPath_one; exact Hs|auto].
  - destruct (K2 i m H) as (a & b & Hs & Ea & Eb & Hin).
    destruct IH as (a' & c & Hp & Ea' & Ec & Hin').
    assert (b = a') by (apply K3; [exact Hin'|congruence]). subst a'.
    exists a, c. split; [eapply DepPath_cons; [exact Hs|exact Hp]|auto].
Qed.

Lemma acyclic_names_iff : acyclic j <-> NameAcyclic steps.
Proof.
  split.
  - intros Ha a Hp. exact (Ha (idx a) (path_fwd a a Hp)).
  - intros Hn i Hp. destruct (path_bwd i i Hp) as (a & b & Hd & Ea & Eb & Hin).
    assert (b = a) by (apply K3; [exact Hin|congruence]). subst b. exact (Hn a Hd).
Qed.
End Names.

Theorem deps_rule_names_iff : forall steps, DepsRule steps <-> DepsRuleNames steps.
Proof.
  intros steps. unfold DepsRule, DepsRuleNames. split; intros (ND & Hc & Ha); (split; [exact ND|split; [exact Hc|]]).
  - apply (acyclic_names_iff steps ND). exact Ha.
  - apply (acyclic_names_iff steps ND). exact Ha.
Qed.

(* the validator as coded <-> the name-level rule *)
Theorem deps_names_rule_iff : forall steps,
  (nodupb (names_of steps)
   && negb (DepGraph.has_cycle (dep_job steps))
   && forallb (fun st => forallb (fun d => mem_str d (names_of steps)) (dep_names st)) (mitems steps)) = true
  <-> DepsRuleNames steps.
Proof. intros steps. rewrite deps_rule_iff. apply deps_rule_names_iff. Qed.
