"""C11 — PATH defaults cannot escape the template directory; joining is as documented.

POSIX flavour only (the sandbox is Linux; PureWindowsPath semantics are not modelled).

Two ties, both on every run:
  1. stdlib tie (pre-flight, run from corpus_cases()): the model's re-implementation of
     pathlib / posixpath (parts, str, normpath, is_absolute, join, `/`, is_relative_to and the
     exact composite `Path(normpath(dir / default)).is_relative_to(dir)`) is compared with the
     CPython that runs /repo on the whole spelling sweep.  A disagreement there is a MODEL
     error, not a property violation: it is printed as MODEL-ERROR and the process exits 2.
  2. correspondence: preprocess_job_parameters (and what create_job then stores in
     Job.parameters) against the extracted model on path spellings x directories x flag.
"""
import itertools
import multiprocessing as mp
import os
import posixpath
import random
import sys
import time
from pathlib import Path

sys.path.insert(0, str(Path(__file__).resolve().parent))
import core  # noqa: E402

from openjd.model import (  # noqa: E402
    DecodeValidationError,
    ParameterValue,
    ParameterValueType,
    create_job,
    decode_job_template,
    preprocess_job_parameters,
)

assert os.name == "posix" and os.path is posixpath, "C11 models the POSIX flavour only"

COMPS = ["..", ".", "", " ", "a", "é", "..a", "a.."]
DIRS = ["/t/dir", "/t/dir2", "/", "//net/x", "rel/dir", "/t/../u"]
CWDS = ["/cwd", "/", "//n/c", "rel/c", "", "/c/../d"]
EXTRA_DIRS = ["", ".", "///t/dir", "/t/dir/", "/t//dir/.", "//", "/t/dir/..", "t", "/é/ a"]

RAND_COMPS = COMPS + [
    "...", "b", "dir", "dir2", "t", "x", "u", "net", "~", "-", "a b", "a:b", "\\", "C:", "ü", "日本",
    "‮", "a\tb", "\x7f", "\x01", "​", "%2e%2e", ". .", ".. ", " ..", "．．", "∕",
    "․․", "a\x00b", "..\x00", "\U0001F600", "x" * 40,
]


def spellings(maxc):
    """All paths of <= maxc components over COMPS with single/double joiners, 0-3 leading and
    0-1 trailing separators (deduplicated, sorted)."""
    out = set()
    for k in range(0, maxc + 1):
        for cs in itertools.product(COMPS, repeat=k):
            for j in ("/", "//") if k >= 2 else ("/",):
                body = j.join(cs)
                for pre in ("", "/", "//", "///"):
                    for suf in ("", "/"):
                        out.add(pre + body + suf)
    return sorted(out)


def rand_path(rng, maxk=10):
    k = rng.randint(0, maxk)
    s = "/" * rng.choice([0, 0, 0, 1, 1, 2, 3, 4])
    for i in range(k):
        s += rng.choice(RAND_COMPS if rng.random() < 0.6 else COMPS)
        if i < k - 1 or rng.random() < 0.3:
            s += "/" * rng.choice([1, 1, 1, 2, 3])
    return s


def rand_dir(rng):
    r = rng.random()
    if r < 0.5:
        return rng.choice(DIRS + EXTRA_DIRS)
    p = rand_path(rng, 4)
    if r < 0.85 and not p.startswith("/"):
        p = "/" + p
    return p


# ---------------------------------------------------------------- implementation side
_TMPL = {}


def tmpl(ps):
    """Decoded job template with one PATH parameter per entry of ps (default where 'd').
    None when the decoder rejects it (out of scope: skipped and counted)."""
    key = tuple((p[0], p[1]) if p[0] == "d" else (p[0],) for p in ps)
    if key in _TMPL:
        return _TMPL[key]
    if len(_TMPL) > 4000:
        _TMPL.clear()
    pds = []
    for i, p in enumerate(ps):
        pd = {"name": f"P{i}", "type": "PATH"}
        if p[0] == "d":
            pd["default"] = p[1]
        pds.append(pd)
    t = {"specificationVersion": "jobtemplate-2023-09", "name": "J",
         "steps": [{"name": "S", "script": {"actions": {"onRun": {"command": "e"}}}}]}
    if pds:
        t["parameterDefinitions"] = pds
    try:
        jt = decode_job_template(template=t)
    except DecodeValidationError:
        jt = None
    _TMPL[key] = jt
    return jt


_TMPL2 = {}


def tmpl_placed(ps, where):
    """(job template, [environment templates]) with the PATH parameters of ps defined in the job template
    ('job'), only in an environment template ('env': the job template then has NO parameterDefinitions), or the
    first in the job template and the rest in an environment template ('split').  None when undecodable."""
    from openjd.model import decode_environment_template
    key = (tuple((p[0], p[1]) if p[0] == "d" else (p[0],) for p in ps), where)
    if key in _TMPL2:
        return _TMPL2[key]
    if len(_TMPL2) > 4000:
        _TMPL2.clear()
    pds = []
    for i, p in enumerate(ps):
        pd = {"name": f"P{i}", "type": "PATH"}
        if p[0] == "d":
            pd["default"] = p[1]
        pds.append(pd)
    cut = 0 if where == "env" else 1
    t = {"specificationVersion": "jobtemplate-2023-09", "name": "J", "steps": [{"name": "S", "script": {"actions": {"onRun": {"command": "e"}}}}]}
    if pds[:cut]:
        t["parameterDefinitions"] = pds[:cut]
    e = {"specificationVersion": "environment-2023-09", "environment": {"name": "E", "variables": {"A": "b"}}}
    if pds[cut:]:
        e["parameterDefinitions"] = pds[cut:]
    try:
        r = (decode_job_template(template=t), [decode_environment_template(template=e)])
    except DecodeValidationError:
        r = None
    _TMPL2[key] = r
    return r


def fam(e):
    return type(e).__name__


def job_values(job, names):
    params = job.parameters or {}
    if sorted(params) != sorted(names):
        return ["bad-names", sorted(params)]
    for n in names:
        if str(params[n].type.value) != "PATH":
            return ["bad-type", n]
    return ["ok", [params[n].value for n in names]]


def stdlib_obs(a, b):
    pa = Path(a)
    nj = os.path.normpath(pa / b)          # exactly the call in _collect_defaults_2023_09
    return [
        list(pa.parts), str(pa), os.path.normpath(a), pa.is_absolute(), posixpath.join(a, b),
        str(pa / b), pa.is_relative_to(Path(b)), nj, Path(nj).is_relative_to(pa), list(pa.parts),
    ]


def stdlib_model(reply):
    r = reply
    S = core.uncps
    return [[S(x) for x in r[0]], S(r[1]), S(r[2]), r[3] == "true", S(r[4]), S(r[5]), r[6] == "true",
            S(r[7]), r[8] == "true", [S(x) for x in r[9]]]


def _stdlib_worker(pairs):
    drv = core.Driver("paths")
    replies, _ = drv.ask([["stdlib", core.cps(a), core.cps(b)] for a, b in pairs])
    bad = []
    for (a, b), rep in zip(pairs, replies):
        try:
            io = stdlib_obs(a, b)
        except BaseException as e:  # noqa: BLE001
            io = ["raise", fam(e)]
        mo = stdlib_model(rep) if isinstance(rep, list) and len(rep) == 10 else ["driver", rep]
        if io != mo:
            bad.append({"a": a, "b": b, "cpython": io, "model": mo})
            if len(bad) > 5:
                break
    return len(pairs), bad


def stdlib_pairs(tier, seed):
    sp = spellings(4 if tier == "thorough" else 3)
    others = DIRS + CWDS + EXTRA_DIRS
    for p in sp:
        for d in others:
            yield (d, p)
            yield (p, d)
    rng = random.Random(seed * 1009 + 11)
    for _ in range(200000 if tier == "thorough" else 15000):
        yield (rand_path(rng), rand_path(rng))
    for _ in range(20000 if tier == "thorough" else 3000):
        a = rand_path(rng, 5)
        yield (a, a + "/" * rng.randint(0, 2) + rand_path(rng, 3))     # genuine prefixes
        yield (a + "/" + rand_path(rng, 3), a)


CORPUS_PATHS = [
    "a/../../x", "b/../..", "..a", "a..", "x/..", "a/b/..", "a/b/../..", "a/b/../../..", "..", "../", "../..",
    "../x", "../dir/x", "../dir2/x", "../dir2", "../dir", "../../t/dir/x", "../../t/dir2", "../../../t/dir",
    "/abs", "/t/dir/x", "/t/dir", "//t/dir/x", "///t/dir/x", "a/b", "a", "", ".", "./", "./a", "a/.", "a//b",
    "a/b/", "a/./b", " ", " /..", ". ./x", "...", ".../..", "é/../é", "x/../../dir/y", "x/../../dir2/y",
    "../u/x", "../../u/x", "../x/../dir/y", "net/../..", "../../net/x/y", "//", "/", "/..", "/.", "//..",
]


class C11(core.PropBase):
    id = "C11"
    component = "paths"
    extract_file = "ExtractPaths.v"
    chunk_size = 300
    theorem_for_mismatch = ("C11_contained / C11_default_exact / C11_supplied / C11_server / C11_idempotent "
                            "(model = implementation correspondence)")
    assumptions = [
        "POSIX flavour only: PureWindowsPath / ntpath are not modelled (not reachable in this sandbox)",
        "containment is lexical (no symlink resolution), as in the code (os.path.normpath, not Path.resolve)",
        "a pathlib Path argument is represented by one raw string (Path(s)); Path() == Path('')",
        "CPython 3.12 pathlib/posixpath as installed; the model of these is tied to them by the pre-flight stdlib sweep of every run",
        "PATH parameters without minLength/maxLength/allowedValues (constraints are C10's subject)",
    ]
    trusted_extra = ["stdlib pre-flight comparison (harness/c11.py: stdlib_obs vs driver 'stdlib')"]
    pre = {"n": 0, "wall": 0.0}

    # ---- stdlib tie (pre-flight).  core.main calls corpus_cases() once, after the build.
    def preflight(self, tier, seed):
        t0 = time.time()
        n = 0
        ctx = mp.get_context("fork")
        with ctx.Pool(core.NPROC) as pool:
            for cnt, bad in pool.imap_unordered(_stdlib_worker, core.chunks(stdlib_pairs(tier, seed), 2000)):
                n += cnt
                if bad:
                    print("MODEL-ERROR property=C11 the stdlib path model (coq/theories/Paths.v) disagrees with "
                          f"CPython pathlib/posixpath: {bad[0]!r}", file=sys.stderr)
                    pool.terminate()
                    sys.exit(2)
        self.pre = {"n": n, "wall": round(time.time() - t0, 1)}

    def corpus_cases(self):
        argv = sys.argv[1:]
        tier = argv[0] if argv and not argv[0].startswith("-") else os.environ.get("VERIF_TIER", "quick")
        seed = int(os.environ.get("VERIF_SEED", "0"))
        if not (argv and argv[0] == "--replay"):
            self.preflight(tier, seed)
        out = []
        for p in CORPUS_PATHS:
            for d in DIRS:
                for walk in (False, True):
                    out.append({"k": "pre", "dir": d, "cwd": "/cwd", "walk": walk, "ps": [["d", p]]})
            for c in CWDS:
                out.append({"k": "pre", "dir": "/t/dir", "cwd": c, "walk": False, "ps": [["s", p]]})
            out.append({"k": "job", "ps": [["d", p]]})
            out.append({"k": "job", "ps": [["s", p]]})
        return out

    def cases(self, tier, seed):
        thorough = tier == "thorough"
        rng = random.Random(seed * 7919 + 11)
        sp = spellings(4 if thorough else 3)
        # 1. exhaustive: every spelling as a default x 6 directories x both flags;
        #    as a supplied value x 6 working directories; through create_job directly
        for i, p in enumerate(sp):
            for d in DIRS:
                for walk in (False, True):
                    yield {"k": "pre", "dir": d, "cwd": CWDS[i % len(CWDS)], "walk": walk, "ps": [["d", p]]}
            for j, c in enumerate(CWDS):
                yield {"k": "pre", "dir": "/t/dir" if (i + j) % 7 else "rel/dir", "cwd": c,
                       "walk": bool((i + j) % 3 == 0), "ps": [["s", p]]}
            yield {"k": "job", "ps": [["d", p]]}
            yield {"k": "job", "ps": [["s", p]]}
        # 1b. the same parameters defined only by an environment template (job template without any
        #     parameterDefinitions) or split between job and environment template: the merged definitions are
        #     what counts, in particular for the relative-template-directory rule
        for i, p in enumerate(sp if thorough else rng.sample(sp, 1200)):
            for where in ("env", "split"):
                d = DIRS[i % len(DIRS)] if i % 3 else "rel/dir"
                ps = [["d", p]] if where == "env" else [["s", "x"], ["d", p]]
                yield {"k": "pre", "dir": d, "cwd": CWDS[i % len(CWDS)], "walk": bool(i % 2), "ps": ps, "where": where}
                yield {"k": "pre", "dir": "rel/dir" if i % 2 else "", "cwd": "/cwd", "walk": False, "ps": ps, "where": where}
        # 2. extra directory spellings (trailing '/', '.', '///', '', '//') x a sample of spellings
        for d in EXTRA_DIRS:
            for p in (sp if thorough else rng.sample(sp, 1500)):
                yield {"k": "pre", "dir": d, "cwd": "/cwd", "walk": False, "ps": [["d", p]]}
        # 3. seeded random: longer paths, mixed separator runs, odd characters, several parameters
        for _ in range(120000 if thorough else 6000):
            n = rng.choice([1, 1, 1, 2, 3, 4])
            ps = []
            for _ in range(n):
                r = rng.random()
                if r < 0.55:
                    ps.append(["d", rand_path(rng)])
                elif r < 0.95:
                    ps.append(["s", rand_path(rng)])
                else:
                    ps.append(["r"])
            if rng.random() < 0.15:
                yield {"k": "job", "ps": ps}
            else:
                yield {"k": "pre", "dir": rand_dir(rng), "cwd": rng.choice(CWDS) if rng.random() < 0.6 else rand_dir(rng),
                       "walk": rng.random() < 0.4, "ps": ps}
        # 4. malformed stream: no parameters at all, missing required values, over-long defaults
        #    (rejected by the decoder: skipped and counted), over-long supplied values
        for _ in range(3000 if thorough else 300):
            r = rng.random()
            if r < 0.1:
                ps = []
            elif r < 0.3:
                ps = [["r"]] + ([["d", rand_path(rng)]] if rng.random() < 0.5 else [])
            elif r < 0.55:
                ps = [["d", rng.choice(["a/", "../", "./", "/"]) * rng.randint(340, 700)]]
            elif r < 0.8:
                ps = [["s", rng.choice(["a/", "../", "./", "/"]) * rng.randint(340, 700)]]
            else:
                ps = [["d", rng.choice(["a/", "../", "./"]) * rng.randint(300, 340) + "x"]]
            yield {"k": "pre", "dir": rand_dir(rng), "cwd": rng.choice(CWDS), "walk": rng.random() < 0.4, "ps": ps}

    def rule(self, tier):
        k = 4 if tier == "thorough" else 3
        return (f"pre-flight stdlib tie: {self.pre['n']} (a,b) pairs compared with CPython pathlib/posixpath in {self.pre['wall']} s "
                f"(all spellings <= {k} components x 21 directory spellings, both operand orders, + random pairs and genuine-prefix pairs); "
                f"then corpus ({len(CORPUS_PATHS)} named spellings x 6 dirs x 2 flags); EXHAUSTIVE: every path of <= {k} components over "
                "{'..','.','',' ','a','é','..a','a..'} with '/' or '//' joiners, 0-3 leading and 0-1 trailing separators "
                "as a default x 6 directories x both walk-up flags, as a supplied value x 6 working directories, and through create_job; "
                "extra directory spellings; seeded random 0-10 component paths with separator runs, odd/unicode/control characters, 1-4 parameters; "
                "malformed stream (no parameters, missing values, > 1024 characters). "
                "observables: returned PATH values or exception family, and Job.parameters values after create_job. "
                "distinct = by whole case; non-trivial = some path with >= 2 components or a '..'")

    def exhaustive(self, tier):
        return True

    def samples(self, tier, seed):
        rng = random.Random(seed)
        return CORPUS_PATHS[:5] + [rand_path(rng) for _ in range(6)]

    def nontrivial(self, case):
        for p in case["ps"]:
            if len(p) > 1 and (".." in p[1] or p[1].strip("/").count("/") >= 1):
                return True
        return False

    # ---- implementation
    def impl(self, case):
        ps = case["ps"]
        if case.get("where", "job") != "job" and case["k"] == "pre":
            placed = tmpl_placed(ps, case["where"])
            if placed is None:
                return ["undecodable"]
            jt, envs = placed
            names = [f"P{i}" for i in range(len(ps))]
            vals = {f"P{i}": p[1] for i, p in enumerate(ps) if p[0] == "s"}
            try:
                r = preprocess_job_parameters(job_template=jt, job_parameter_values=vals, job_template_dir=Path(case["dir"]),
                                              current_working_dir=Path(case["cwd"]), allow_job_template_dir_walk_up=case["walk"],
                                              environment_templates=envs)
            except BaseException as e:  # noqa: BLE001
                return ["raise", fam(e)]
            if sorted(r) != sorted(names) or any(str(r[n].type.value) != "PATH" or not isinstance(r[n].value, str) for n in names):
                return ["bad-result", sorted(r)]
            return ["ok", [r[n].value for n in names], ["n/a"]]
        jt = tmpl(ps)
        if jt is None:
            return ["undecodable"]
        names = [f"P{i}" for i in range(len(ps))]
        vals = {f"P{i}": p[1] for i, p in enumerate(ps) if p[0] == "s"}
        if case["k"] == "job":
            try:
                job = create_job(job_template=jt, job_parameter_values={
                    n: ParameterValue(type=ParameterValueType.PATH, value=v) for n, v in vals.items()})
            except BaseException as e:  # noqa: BLE001
                return ["raise", fam(e)]
            return job_values(job, names)
        try:
            r = preprocess_job_parameters(job_template=jt, job_parameter_values=vals,
                                          job_template_dir=Path(case["dir"]), current_working_dir=Path(case["cwd"]),
                                          allow_job_template_dir_walk_up=case["walk"])
        except BaseException as e:  # noqa: BLE001
            return ["raise", fam(e)]
        if sorted(r) != sorted(names) or any(str(r[n].type.value) != "PATH" or not isinstance(r[n].value, str) for n in names):
            return ["bad-result", sorted(r)]
        try:
            job = create_job(job_template=jt, job_parameter_values=r)
            jv = job_values(job, names)
        except BaseException as e:  # noqa: BLE001
            jv = ["raise", fam(e)]
        return ["ok", [r[n].value for n in names], jv]

    # ---- model
    @staticmethod
    def _ps(ps):
        return [[p[0], core.cps(p[1])] if len(p) > 1 else "r" for p in ps]

    def requests(self, case):
        if case["k"] == "job":
            return [["job", self._ps(case["ps"])]]
        return [["pre", core.cps(case["dir"]), core.cps(case["cwd"]), case["walk"], self._ps(case["ps"])]]

    def model_obs(self, case, replies):
        placed_elsewhere = case.get("where", "job") != "job" and case["k"] == "pre"
        if (tmpl_placed(case["ps"], case["where"]) if placed_elsewhere else tmpl(case["ps"])) is None:
            return ["undecodable"]
        r = replies[0]
        S = core.uncps
        if not isinstance(r, list):
            return ["driver", r]
        if case["k"] == "job":
            if r[0] == "raise":      # create_job turns the ValueError into DecodeValidationError
                return ["raise", "DecodeValidationError" if r[1] == "ValueError" else r[1]]
            return ["ok", [S(x) for x in r[1]]] if r[0] == "ok" else ["driver", r]
        if r[0] == "raise":
            return ["raise", r[1]]
        if r[0] == "ok":
            j = r[2]
            jv = ["ok", [S(x) for x in j[1]]] if j[0] == "ok" else ["raise", "DecodeValidationError" if j[1] == "ValueError" else j[1]]
            if placed_elsewhere:
                jv = ["n/a"]      # a Job holds only the job template's own parameters
            return ["ok", [S(x) for x in r[1]], jv]
        return ["driver", r]

    def classify_case(self, case, obs):
        ks = [f"{case['k']}:{obs[0]}" + (":" + obs[1] if obs[0] == "raise" else "")]
        if case["k"] == "pre":
            ks.append(("walkup" if case["walk"] else "nowalk") + (":absdir" if case["dir"].startswith("/") else ":reldir"))
            if obs[0] == "ok" and not case["walk"]:
                for p, v in zip(case["ps"], obs[1]):
                    if p[0] == "d" and v != "":
                        ks.append("contained-default-returned")
        return ks

    def spec_obs(self, case):
        if case["k"] != "pre":
            return None
        drv = core.Driver(self.component)
        replies, _ = drv.ask([["spec", core.cps(case["dir"]), core.cps(case["cwd"]), case["walk"], self._ps(case["ps"])]])
        r = replies[0]
        if isinstance(r, list) and r[0] == "ok":
            return ["ok", [core.uncps(x) for x in r[1]], "contained-in-dir:", r[2], "job values:", [core.uncps(x) for x in r[3]]]
        return r

    def shrink_candidates(self, case):
        ps = case["ps"]
        if len(ps) > 1:
            for i in range(len(ps)):
                yield dict(case, ps=ps[:i] + ps[i + 1:])
        for i, p in enumerate(ps):
            if len(p) > 1:
                s = p[1]
                parts = s.split("/")
                for j in range(len(parts)):
                    yield dict(case, ps=ps[:i] + [[p[0], "/".join(parts[:j] + parts[j + 1:])]] + ps[i + 1:])
        if case["k"] == "pre":
            for key in ("dir", "cwd"):
                parts = case[key].split("/")
                for j in range(len(parts)):
                    yield dict(case, **{key: "/".join(parts[:j] + parts[j + 1:])})


PROP = C11()

if __name__ == "__main__":
    sys.exit(core.main(PROP, sys.argv[1:]))
