"""C06 — job creation fails only with documented errors, never for a missing variable."""
import random
import sys
from pathlib import Path

sys.path.insert(0, str(Path(__file__).resolve().parent))
import core  # noqa: E402
import gen_template as G  # noqa: E402
import mutate as M  # noqa: E402

from openjd.model import (  # noqa: E402
    DecodeValidationError, ParameterValue, ParameterValueType, StepDependencyGraph, StepParameterSpaceIterator, create_job,
    decode_environment_template, decode_job_template, preprocess_job_parameters,
)

_SRC_CHARS = "".join(sorted({c for p in (G.__file__, M.__file__) for c in Path(p).read_text() if ord(c) > 127}))

ADVERSARIAL = ["", " ", "0", "-0", "5", "-5", "007", "1_0", " 7 ", "+3", "1.5", "1e2", "1E-3", ".5", "5.", "NaN", "nan", "sNaN", "Infinity", "-Infinity", "inf", "abc", "True",
               "9" * 40, "1" + "0" * 300, "9223372036854775807", "9223372036854775806", "-9223372036854775808", "18446744073709551616", "{{Param.X}}", "{{ RawParam.Y }}", "{{", "}}", "{{a}}", "1-3", "5-3", "1-2:0", "1,2", "a,b", "*", "(A,B)", "é", "x" * 1024, "x" * 1025,
               "/abs/path", "rel/path", "../up", "a b", "amount.x", "linux", "windows", "v1", "9x", "\n", "\t", "\x00", "٣", "１２"]


def clashing_env(rng, doc):
    """an environment template that re-defines some of the job template's parameters, compatibly or not"""
    e = G.gen_env_template(rng)
    mine = [p for p in doc.get("parameterDefinitions") or [] if isinstance(p, dict)]
    out = []
    for p in mine:
        k = rng.random()
        if k < 0.4:
            continue
        q = {"name": p["name"], "type": p["type"]}
        if k < 0.55:
            q["type"] = rng.choice(["STRING", "INT", "FLOAT", "PATH"])          # incompatible when different
        elif k < 0.8:
            if q["type"] in ("INT", "FLOAT"):
                q.update(rng.choice([{"minValue": 0}, {"maxValue": 0}, {"minValue": 5, "maxValue": 9}, {"allowedValues": [1, 2]}, {"minValue": 100}, {"default": 3}]))
            else:
                q.update(rng.choice([{"minLength": 2}, {"maxLength": 3}, {"allowedValues": ["a", "abc"]}, {"minLength": 5, "maxLength": 6}, {"default": "abc"}]))
                if q["type"] == "PATH" and rng.random() < 0.5:
                    q.update(rng.choice([{"objectType": "FILE"}, {"objectType": "DIRECTORY"}, {"dataFlow": "IN"}, {"dataFlow": "OUT"}]))
        out.append(q)
    others = [p for p in (e.get("parameterDefinitions") or []) if p["name"] not in {q["name"] for q in out}]
    if out or others:
        e["parameterDefinitions"] = (out + others)[:50]
    return e


def _jt(params, extra_step=None):
    st = {"name": "s", "script": {"actions": {"onRun": {"command": "x"}}}}
    if extra_step:
        st.update(extra_step)
    d = {"specificationVersion": "jobtemplate-2023-09", "name": "n", "steps": [st]}
    if params:
        d["parameterDefinitions"] = params
    return d


def _et(params):
    return {"specificationVersion": "environment-2023-09", "parameterDefinitions": params, "environment": {"name": "e", "variables": {"A": "b"}}}


# historical failing inputs (KNOWN_FINDINGS.txt) and neighbours: run first on every run
CORPUS = [
    {"doc": _jt([{"name": "F", "type": "FLOAT", "minValue": 0}]), "envs": [], "vals": {"F": "NaN"}},
    {"doc": _jt([{"name": "F", "type": "FLOAT", "allowedValues": [1, 2]}]), "envs": [], "vals": {"F": "sNaN"}},
    {"doc": _jt([{"name": "F", "type": "FLOAT", "maxValue": "2.5"}]), "envs": [], "vals": {"F": "-Infinity"}},
    {"doc": _jt([{"name": "F", "type": "FLOAT"}]), "envs": [], "vals": {"F": "NaN"}},
    {"doc": _jt([{"name": "F", "type": "FLOAT"}]), "envs": [], "vals": {"F": "Infinity"}},
    {"doc": _jt([{"name": "I", "type": "INT", "maxValue": 3}]), "envs": [_et([{"name": "I", "type": "INT", "minValue": 5}])], "vals": {"I": "4"}},
    {"doc": _jt([{"name": "I", "type": "FLOAT", "minValue": 3}]), "envs": [_et([{"name": "I", "type": "FLOAT", "maxValue": 1}])], "vals": {}},
    {"doc": _jt([{"name": "S", "type": "STRING", "minLength": 5}]), "envs": [_et([{"name": "S", "type": "STRING", "maxLength": 2}])], "vals": {"S": "abc"}},
    {"doc": _jt([{"name": "I", "type": "INT", "allowedValues": [1]}]), "envs": [_et([{"name": "I", "type": "INT", "allowedValues": [2]}]), _et([{"name": "I", "type": "INT", "allowedValues": [3]}])], "vals": {"I": "3"}},
    {"doc": _jt([{"name": "I", "type": "INT", "minValue": 0}]), "envs": [], "vals": {"I": "-5"}},
    {"doc": _jt([], {"parameterSpace": {"taskParameterDefinitions": [{"name": "A", "type": "INT", "range": [1]}, {"name": "B", "type": "INT", "range": [1]}], "combination": "A * C"}}), "envs": [], "vals": {}},
    {"doc": _jt([], {"parameterSpace": {"taskParameterDefinitions": [{"name": "A", "type": "INT", "range": [1, 2]}, {"name": "B", "type": "INT", "range": [1]}], "combination": "(A, B)"}}), "envs": [], "vals": {}},
    {"doc": _jt([{"name": "S", "type": "STRING"}], {"parameterSpace": {"taskParameterDefinitions": [{"name": "T", "type": "INT", "range": ["{{Param.S}}"]}]}}), "envs": [], "vals": {"S": "abc"}},
    {"doc": _jt([{"name": "S", "type": "STRING"}], {"parameterSpace": {"taskParameterDefinitions": [{"name": "T", "type": "FLOAT", "range": ["{{Param.S}}"]}]}}), "envs": [], "vals": {"S": "NaN"}},
    {"doc": _jt([{"name": "S", "type": "STRING"}], {"parameterSpace": {"taskParameterDefinitions": [{"name": "T", "type": "INT", "range": "1-{{Param.S}}"}]}}), "envs": [], "vals": {"S": "0"}},
    {"doc": _jt([{"name": "S", "type": "STRING"}], {"parameterSpace": {"taskParameterDefinitions": [{"name": "A", "type": "INT", "range": "1-{{Param.S}}"}, {"name": "B", "type": "INT", "range": [1, 2]}], "combination": "(A, B)"}}), "envs": [], "vals": {"S": "3"}},
    {"doc": _jt([{"name": "S", "type": "STRING"}], {"hostRequirements": {"amounts": [{"name": "amount.{{Param.S}}", "min": 1}]}}), "envs": [], "vals": {"S": "worker.x"}},
    {"doc": _jt([{"name": "S", "type": "STRING"}], {"hostRequirements": {"attributes": [{"name": "attr.worker.os.family", "anyOf": ["{{Param.S}}"]}]}}), "envs": [], "vals": {"S": "beos"}},
    {"doc": dict(_jt([{"name": "S", "type": "STRING"}]), name="{{Param.S}}"), "envs": [], "vals": {"S": ""}},
    {"doc": _jt([{"name": "S", "type": "STRING"}, {"name": "E", "type": "STRING"}], {"parameterSpace": {"taskParameterDefinitions": [{"name": "T", "type": "INT", "range": "{{Param.S}}-{{Param.E}}"}]}}), "envs": [], "vals": {"S": "0", "E": "9223372036854775807"}},
    {"doc": _jt([{"name": "S", "type": "STRING"}, {"name": "E", "type": "STRING"}], {"parameterSpace": {"taskParameterDefinitions": [{"name": "T", "type": "INT", "range": "{{Param.S}}-{{Param.E}}"}]}}), "envs": [], "vals": {"S": "1", "E": "9223372036854775807"}},
    {"doc": _jt([{"name": "S", "type": "STRING"}, {"name": "E", "type": "STRING"}], {"parameterSpace": {"taskParameterDefinitions": [{"name": "T", "type": "INT", "range": "{{Param.S}}-{{Param.E}}"}]}}), "envs": [], "vals": {"S": "-9223372036854775808", "E": "2"}},
    {"doc": _jt([{"name": "S", "type": "STRING"}, {"name": "E", "type": "STRING"}], {"parameterSpace": {"taskParameterDefinitions": [{"name": "T", "type": "INT", "range": "{{Param.S}}-{{Param.E}}"}]}}), "envs": [], "vals": {"S": "0", "E": "18446744073709551616"}},
    {"doc": _jt([{"name": "S", "type": "STRING"}, {"name": "E", "type": "STRING"}], {"parameterSpace": {"taskParameterDefinitions": [{"name": "T", "type": "INT", "range": "{{Param.S}}-{{Param.E}}"}]}}), "envs": [], "vals": {"S": "5", "E": "3"}},
    {"doc": _jt([{"name": "S", "type": "STRING"}, {"name": "E", "type": "STRING"}], {"parameterSpace": {"taskParameterDefinitions": [{"name": "T", "type": "INT", "range": "{{Param.S}}-{{Param.E}}"}], "combination": "T"}}), "envs": [], "vals": {"S": "0", "E": "9223372036854775807"}},
    {"doc": _jt([{"name": "S", "type": "STRING"}, {"name": "E", "type": "STRING"}], {"parameterSpace": {"taskParameterDefinitions": [{"name": "T", "type": "INT", "range": "{{Param.S}}-{{Param.E}}"}], "combination": "T"}}), "envs": [], "vals": {"S": "1", "E": "9223372036854775807"}},
    {"doc": _jt([{"name": "S", "type": "STRING"}, {"name": "E", "type": "STRING"}], {"parameterSpace": {"taskParameterDefinitions": [{"name": "T", "type": "INT", "range": "{{Param.S}}-{{Param.E}}"}], "combination": "T"}}), "envs": [], "vals": {"S": "-9223372036854775808", "E": "2"}},
    {"doc": _jt([{"name": "S", "type": "STRING"}, {"name": "E", "type": "STRING"}], {"parameterSpace": {"taskParameterDefinitions": [{"name": "T", "type": "INT", "range": "{{Param.S}}-{{Param.E}}"}], "combination": "T"}}), "envs": [], "vals": {"S": "0", "E": "18446744073709551616"}},
    {"doc": _jt([{"name": "S", "type": "STRING"}, {"name": "E", "type": "STRING"}], {"parameterSpace": {"taskParameterDefinitions": [{"name": "T", "type": "INT", "range": "{{Param.S}}-{{Param.E}}"}], "combination": "T"}}), "envs": [], "vals": {"S": "5", "E": "3"}},

    {"doc": dict(_jt([{"name": "S", "type": "STRING"}]), name="{{Param.S}}"), "envs": [], "vals": {"S": "a\nb"}},
    {"doc": dict(_jt([{"name": "S", "type": "STRING"}]), name="{{Param.S}}"), "envs": [], "vals": {"S": "x" * 129}},
]


# references that are not defined / not in scope inside range LISTS and range expressions of every type: the decoder refuses
# them (C03); one that does not lets create_job fail for a missing variable (seed C06-7)
for _ty, _ok in (("INT", 1), ("FLOAT", 1.5), ("STRING", "a"), ("PATH", "a")):
    for _bad in ("{{Param.Nope}}", "{{RawParam.Nope}}", "{{Task.Param.T}}", "{{ Session.WorkingDirectory }}", "x{{Param.Nope}}"):
        for _rng in ([_ok, _bad], [_bad], [_bad, _ok, _ok]):
            CORPUS.append({"doc": _jt([{"name": "S", "type": "STRING"}], {"parameterSpace": {"taskParameterDefinitions": [{"name": "T", "type": _ty, "range": _rng}]}}), "envs": [], "vals": {"S": "1"}})
CORPUS.append({"doc": _jt([{"name": "S", "type": "STRING"}], {"parameterSpace": {"taskParameterDefinitions": [{"name": "T", "type": "INT", "range": "1-{{Param.Nope}}"}]}}), "envs": [], "vals": {"S": "1"}})
# vast spaces inside an association (each operand a product of 2**64 sets): the Job is returned and can be walked (seed C06-8)
for _comb in ("(A * B, C * D)", "(A * B, C * D) * E", "A * B * C * D", "(A, B) * (C, D)", None):
    _tp = [{"name": n, "type": "INT", "range": "{{Param.R}}"} for n in "ABCD"] + [{"name": "E", "type": "INT", "range": [1, 2]}]
    _ps = {"taskParameterDefinitions": _tp}
    if _comb:
        _ps["combination"] = _comb if "E" in _comb else _comb + " * E"
    CORPUS.append({"doc": _jt([{"name": "R", "type": "STRING"}], {"parameterSpace": _ps}), "envs": [], "vals": {"R": "1-4294967296"}})


# several pieces that only TOGETHER exceed what a container can hold (each below 2**63 values, the sum not), with and
# without a combination (seed C06-4); one value below the limit for contrast
for _r in ("1-5000000000000000000,6000000000000000000-11000000000000000000", "0-4611686018427387903,4611686018427387905-9223372036854775808",
           "0-4611686018427387903,4611686018427387905-9223372036854775806", "1-4000000000000000000:2,5000000000000000000-9000000000000000001:3,-9000000000000000000--1"):
    for _comb in (None, "T"):
        _ps = {"taskParameterDefinitions": [{"name": "T", "type": "INT", "range": "{{Param.R}}"}]}
        if _comb:
            _ps["combination"] = _comb
        CORPUS.append({"doc": _jt([{"name": "R", "type": "STRING"}], {"parameterSpace": _ps}), "envs": [], "vals": {"R": _r}})
        _ps2 = dict(_ps, taskParameterDefinitions=[{"name": "T", "type": "INT", "range": _r}])
        CORPUS.append({"doc": _jt([], {"parameterSpace": _ps2}), "envs": [], "vals": {}})


def conflicting_env(rng, p):
    """an environment definition of parameter p whose constraints cannot be met together with p's"""
    q = {"name": p["name"], "type": p["type"]}
    if p["type"] in ("INT", "FLOAT"):
        hi = p.get("maxValue")
        lo = p.get("minValue")
        if hi is not None and rng.random() < 0.5:
            q["minValue"] = int(float(hi)) + rng.choice([1, 5])
        elif lo is not None:
            q["maxValue"] = int(float(lo)) - rng.choice([1, 5])
        else:
            q["minValue"], q["maxValue"] = 5, 9
            p["maxValue"] = 3
            for k in ("allowedValues", "default", "minValue", "userInterface"):
                p.pop(k, None)
    else:
        q["minLength"] = 7
        p["maxLength"] = 3
        for k in ("allowedValues", "default", "minLength", "userInterface"):
            p.pop(k, None)
    return q


class C06(core.PropBase):
    id = "C06"
    component = "export"
    extract_file = "ExtractExport.v"
    chars = _SRC_CHARS + "".join(chr(i) for i in range(128, 256)) + "٣　 ²１２"
    uses_table = True
    chunk_size = 30
    theorem_for_mismatch = "C06_preprocess_exn / C06_create_exn / C06_no_missing_var / C06_job_usable; create_job verdict model = implementation correspondence"
    assumptions = [
        "the verdict model takes the implementation's own preprocessed values as input (C10/C12 decide preprocessing itself)",
        "iteration of a returned Job's parameter spaces is capped at 20000 task parameter sets per step",
    ]

    def corpus_cases(self):
        return [G.deep(c) for c in CORPUS]

    def cases(self, tier, seed):
        rng = random.Random(seed * 7919 + 6)
        n = 9000 if tier == "thorough" else 1000
        # parameter spaces with nested combinations (associations inside associations / products) whose operand
        # lengths depend on job parameters: balanced and off-by-one after substitution (the trees of the C14 check)
        import c14
        for _ in range(n // 5):
            dc = c14.PROP.rand_dims(rng)
            params = [tuple(p) for p in dc["params"]]
            if rng.random() < 0.7:
                params = [(nm, "INTP" if kind in ("INT", "INTX") and rng.random() < 0.7 else kind, ln) for nm, kind, ln in params]
            t, jv = c14.skeleton(params, dc["s"])
            yield {"doc": t, "envs": [], "vals": {k: v.value for k, v in jv.items()}}
        for i in range(n):
            doc = G.gen_job_template(rng, full=(i % 7 == 0))
            if i % 5 == 0:
                # rule-typed mutations of the creation-time fields; kept only if the decoder still accepts the template
                # (a decoder that wrongly accepts e.g. a combination naming an undeclared parameter shows up here)
                M.mutate(rng, doc, n=1, only=["combination", "task_range", "amount_req", "attribute_req", "host_presence", "job_name"])
            params = [p for p in doc.get("parameterDefinitions") or [] if isinstance(p, dict)]
            envs = []
            k = i % 4
            if k == 1:
                envs = [G.gen_env_template(rng) for _ in range(rng.choice([1, 2]))]
            elif k == 2:
                envs = [clashing_env(rng, doc) for _ in range(rng.choice([1, 2, 3]))]
            elif k == 3 and params and i % 8 == 3:
                # constraints that are individually fine but unsatisfiable together (merge must be refused as ValueError / DVE)
                p = rng.choice(params)
                e = G.gen_env_template(rng)
                e["parameterDefinitions"] = [conflicting_env(rng, p)]
                envs = [e]
            vals = {}
            allp = params + [p for e in envs for p in e.get("parameterDefinitions") or []]
            for p in allp:
                r = rng.random()
                if r < 0.08:
                    continue
                if p["type"] in ("FLOAT", "INT") and rng.random() < 0.12:
                    vals[p["name"]] = rng.choice(["NaN", "sNaN", "Infinity", "-Infinity", "nan", "1.5", "1e2", "-0", " 3 ", "3.0"])
                elif r < 0.85:
                    try:
                        vals[p["name"]] = G.value_for(rng, p)
                    except Exception:  # noqa: BLE001
                        vals[p["name"]] = rng.choice(ADVERSARIAL)
                else:
                    vals[p["name"]] = rng.choice(ADVERSARIAL)
            if rng.random() < 0.1:
                vals["NoSuchParameter"] = rng.choice(ADVERSARIAL)
            yield {"doc": doc, "envs": envs, "vals": vals}

    def rule(self, tier):
        return ("parameter spaces with nested combinations whose operand lengths come from job parameters (balanced / off by one); accepted generated job templates x 0-3 environment templates (plain, or re-defining the job's parameters compatibly / incompatibly) x value maps "
                "mixing accepted values, omissions, unknown names and an adversarial string pool (non-numerals, NaN/Infinity, -0, empty, 300 digits, brace and "
                "reference-looking text, range / combination-looking text, control characters, non-ASCII digits). Observables: exception family of "
                "preprocess_job_parameters (client and server mode) and create_job, success of full iteration and dependency graph / topological sort on returned "
                "Jobs; create_job's verdict is compared with the Coq verdict model (instantiate + target-model validation). distinct = by (document, envs, values)")

    def samples(self, tier, seed):
        rng = random.Random(seed)
        return [{"values": {f"P{i}": rng.choice(ADVERSARIAL)[:40] for i in range(4)}}]

    def prepare(self, case):
        if "_prep" in case:
            return case["_prep"]
        prep = {"skip": None}
        try:
            prep["jt"] = decode_job_template(template=G.deep(case["doc"]))
            prep["ets"] = [decode_environment_template(template=G.deep(e)) for e in case["envs"]]
        except DecodeValidationError:
            prep["skip"] = "template-rejected"
        case["_prep"] = prep
        return prep

    @staticmethod
    def fam(e):
        return type(e).__name__

    def impl(self, case):
        prep = self.prepare(case)
        if prep["skip"]:
            return ["skip", prep["skip"]]
        jt, ets = prep["jt"], prep["ets"] or None
        out = {}
        final = None
        for mode, kw in (("client", dict(job_template_dir=Path("/t/dir"), current_working_dir=Path("/c/wd"))),
                         ("server", dict(job_template_dir=Path(), current_working_dir=Path(), allow_job_template_dir_walk_up=True))):
            try:
                r = preprocess_job_parameters(job_template=jt, job_parameter_values=dict(case["vals"]), environment_templates=ets, **kw)
                out["pre_" + mode] = "ok"
                if mode == "server":
                    final = r
            except ValueError:
                out["pre_" + mode] = "ValueError"
            except BaseException as e:  # noqa: BLE001
                out["pre_" + mode] = "other:" + self.fam(e)
        types = {}
        for src in [case["doc"]] + case["envs"]:
            for p in src.get("parameterDefinitions") or []:
                types.setdefault(p["name"], p["type"])
        pv = {k: ParameterValue(type=ParameterValueType(types.get(k, "STRING")), value=v) for k, v in case["vals"].items()}
        job = None
        try:
            job = create_job(job_template=jt, job_parameter_values=pv, environment_templates=ets)
            out["create"] = "ok"
        except DecodeValidationError:
            out["create"] = "DecodeValidationError"
        except BaseException as e:  # noqa: BLE001
            out["create"] = "other:" + self.fam(e)
        usable = True
        if job is not None:
            try:
                for st in job.steps:
                    it = StepParameterSpaceIterator(space=st.parameterSpace)
                    try:
                        n = len(it)
                    except OverflowError:
                        n = None        # 2**63 sets or more: no Python container can say so (DESIGN 0.4); building and iterating still work
                    cnt = 0
                    for ps in it:
                        cnt += 1
                        if cnt >= 20000:
                            break
                    if cnt != min(n if n is not None else 20000, 20000):
                        usable = f"len {n} but {cnt} sets"
                    if n:
                        it[0], it[-1]        # (indexing needs len(): not asked of a space that cannot say its length)
                g = StepDependencyGraph(job=job)
                order = g.topo_sorted()
                if len(order) != len(job.steps):
                    usable = "topo order incomplete"
            except BaseException as e:  # noqa: BLE001
                usable = "raised:" + self.fam(e)
        out["usable"] = usable
        prep["final"] = final
        return ["ok", out]

    def requests(self, case):
        io = self.impl(case)
        case["_io"] = io
        prep = case["_prep"]
        if io[0] != "ok" or prep.get("final") is None:
            return []
        missing = (core.doc_chars(case["doc"]) | core.doc_chars(case["vals"])) - set(self.chars)
        for e in case["envs"]:
            missing |= core.doc_chars(e) - set(self.chars)
        if missing:
            return []
        final = [[core.cps(k), core.cps(v.type.value), core.cps(v.value)] for k, v in prep["final"].items()]
        return [["create_verdict", final, core.mval_sx(prep["jt"])]]

    def run_chunk(self, chunk):
        res = super().run_chunk(chunk)
        for c in chunk:
            c.pop("_prep", None)
            c.pop("_io", None)
        for m in res.get("mismatches", []):
            m["case"].pop("_prep", None)
            m["case"].pop("_io", None)
        return res

    def model_obs(self, case, replies):
        io = case.get("_io") or self.impl(case)
        if io[0] != "ok":
            return io
        o = io[1]
        exp = {}
        for k in ("pre_client", "pre_server"):
            exp[k] = o[k] if o[k] in ("ok", "ValueError") else "ok-or-ValueError"
        # create_job preprocesses in server mode: a ValueError there is a DecodeValidationError here
        if o["pre_server"] == "ValueError":
            exp["create"] = "DecodeValidationError"
        elif replies:
            r = replies[0]
            if r[0] == "ok":
                exp["create"] = "ok" if r[1] == "true" else "DecodeValidationError"
            elif r[1] == "RuntimeError":
                exp["create"] = o["create"] if o["create"] in ("ok", "DecodeValidationError") else "ok-or-DecodeValidationError"
            else:
                exp["create"] = "model-says-escape:" + r[1]
        else:
            exp["create"] = o["create"] if o["create"] in ("ok", "DecodeValidationError") else "ok-or-DecodeValidationError"
        exp["usable"] = True
        return ["ok", exp]

    def classify_case(self, case, obs):
        if obs[0] != "ok":
            return ["skip:" + obs[1]]
        o = obs[1]
        return ["pre_server:" + o["pre_server"], "create:" + o["create"], "envs=%d" % len(case["envs"])]

    def still_fails(self, case):
        case = {k: v for k, v in case.items() if not k.startswith("_")}
        drv = core.Driver(self.component)
        replies, _ = drv.ask(self.requests(case), self.prelude())
        return case["_io"] != self.model_obs(case, replies)

    def shrink_candidates(self, case):
        for k in list(case["vals"]):
            v = dict(case["vals"])
            del v[k]
            yield dict(case, vals=v)
        for i in range(len(case["envs"])):
            yield dict(case, envs=case["envs"][:i] + case["envs"][i + 1:])
        import c05
        for c in c05.PROP.shrink_candidates(dict(case)):
            yield c


PROP = C06()

if __name__ == "__main__":
    # second stream: ONE Coq function for all of create_job (CreateJobFull.v), fed only the raw documents and the
    # caller's values, against the real create_job (props/C06x.v: C06_full_exn / C06_full_total)
    import c06full  # noqa: E402  (imports this module's generators: attach it here, not at import time)
    PROP.also = [c06full.PROP]
    sys.exit(core.main(PROP, sys.argv[1:]))
