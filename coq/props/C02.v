(* props/C02.v — Well-formed templates are accepted (no false rejections).

   Mirror of props/C01.v (read its header).  C02_table: the frozen 2023-09 table is below the
   live table ("the code accepts no less": a limit TIGHTENED in the code breaks C02_table and
   leaves C01_table alone).  One theorem per validator: whenever the declarative rule of WF.v
   holds, the validator as coded answers true (it is no stricter than the rule).
   C02_complete: a well-formed document is accepted; C02_flip: a document on which some rule
   fails at some visited object (or that does not fit the table) is rejected. *)
From Coq Require Import List NArith ZArith Bool String Permutation.
Import ListNotations.
Require Import OJD.Base OJD.Lexer OJD.Json OJD.Schema OJD.Generated OJD.SchemaSpec OJD.SchemaOrder
               OJD.Charsets OJD.Numerals OJD.FsRefs OJD.CreateJob OJD.RangeExpr OJD.Comb OJD.ScopeWalk
               OJD.DepGraph OJD.DepGraphSpec OJD.Parse OJD.Validators OJD.Accept
               OJD.WF OJD.AcceptMono OJD.AcceptRules OJD.AcceptCap OJD.AcceptDeps OJD.AcceptProofs OJD.AcceptComplete.
Require Import OJDProps.C01rules.
Local Open Scope string_scope.
Local Open Scope list_scope.

(* ---------------------------------------------------------------- 1. the table *)
Theorem C02_table : schema_le spec_schema Generated.schema = true.
Proof. exact table_le_spec_code. Qed.
Print Assumptions C02_table.

Theorem C02_structural : forall classify j v,
  decode_job_on spec_schema classify j = Ok v -> decode_job classify j = Ok v.
Proof. exact structural_spec_code. Qed.
Print Assumptions C02_structural.

Theorem C02_structural_env : forall classify j v,
  decode_env_on spec_schema classify j = Ok v -> decode_env classify j = Ok v.
Proof. exact structural_env_spec_code. Qed.
Print Assumptions C02_structural_env.

(* the structural engine reads its hooks only through their values *)
Theorem C02_hooks_ext : forall SC, self_closed SC = true ->
  forall classify pre1 pre2 post1 post2,
    (forall c raw, pre1 c raw = pre2 c raw) ->
    (forall c raw fs, post1 c raw fs = post2 c raw fs) ->
    forall fuel root j,
      parse_cls SC classify pre1 post1 fuel root j = parse_cls SC classify pre2 post2 fuel root j.
Proof. exact parse_cls_hooks_ext. Qed.
Print Assumptions C02_hooks_ext.

(* ---------------------------------------------------------------- 2. the validators *)
Theorem C02_nodup : forall l, NoDup l -> nodupb l = true.
Proof. exact (fun l => proj2 (nodupb_iff l)). Qed.
Print Assumptions C02_nodup.

Theorem C02_unique_names : forall v, UniqueNames v -> unique_names v = true.
Proof. exact (fun v => proj2 (unique_names_iff v)). Qed.
Print Assumptions C02_unique_names.

Theorem C02_embedded_files : forall fs, EmbeddedFilesRule fs -> unique_names (fget "embeddedFiles" fs) = true.
Proof. exact (fun fs => proj2 (embedded_files_rule_iff fs)). Qed.
Print Assumptions C02_embedded_files.

Theorem C02_deps : forall steps,
  DepsRule steps ->
  (nodupb (names_of steps)
   && negb (DepGraph.has_cycle (dep_job steps))
   && forallb (fun st => forallb (fun d => mem_str d (names_of steps)) (dep_names st)) (mitems steps)) = true.
Proof. exact (fun s => proj2 (deps_rule_iff s)). Qed.
Print Assumptions C02_deps.

Theorem C02_deps_names : forall steps,
  DepsRuleNames steps ->
  (nodupb (names_of steps)
   && negb (DepGraph.has_cycle (dep_job steps))
   && forallb (fun st => forallb (fun d => mem_str d (names_of steps)) (dep_names st)) (mitems steps)) = true.
Proof. exact (fun s => proj2 (deps_names_rule_iff s)). Qed.
Print Assumptions C02_deps_names.

Theorem C02_step : forall c fs,
  StepRule fs ->
  (nodupb (dep_names (MModel c fs)) && unique_names (fget "stepEnvironments" fs)
   && negb (mem_str (mstr (fget "name" fs)) (dep_names (MModel c fs)))) = true.
Proof. exact (fun c fs => proj2 (step_rule_iff c fs)). Qed.
Print Assumptions C02_step.

Theorem C02_env_disjoint : forall fs,
  EnvDisjointRule fs ->
  (let jenv := env_names (fget "jobEnvironments" fs) in
   forallb (fun st => forallb (fun e => negb (mem_str e jenv)) (env_names (fget "stepEnvironments" (model_fields st))))
           (mitems (fget "steps" fs))) = true.
Proof. exact (fun fs => proj2 (env_disjoint_rule_iff fs)). Qed.
Print Assumptions C02_env_disjoint.

Theorem C02_job_template : forall classify raw fs,
  JobTemplateRule classify raw fs -> job_template_ok classify raw fs = true.
Proof. exact (fun cl raw fs => proj2 (job_template_rule_iff cl raw fs)). Qed.
Print Assumptions C02_job_template.

Theorem C02_combination : forall classify fs,
  CombinationRule classify fs ->
  (nodupb (names_of (fget "taskParameterDefinitions" fs))
   && match fget "combination" fs with
      | MStr s => match Comb.parse_str classify s with
                  | Ok t => Comb.accounting false (names_of (fget "taskParameterDefinitions" fs)) (Comb.collect_ids t)
                  | Raise _ => false
                  end
      | _ => true
      end) = true.
Proof. exact (fun cl fs => proj2 (combination_rule_iff cl fs)). Qed.
Print Assumptions C02_combination.

Theorem C02_string_param : forall fs, StringParamRule fs -> string_param_ok fs = true.
Proof. exact (fun fs => proj2 (string_param_rule_iff fs)). Qed.
Print Assumptions C02_string_param.

Theorem C02_num_param : forall fs, NumParamRule fs -> num_param_ok fs = true.
Proof. exact (fun fs => proj2 (num_param_rule_iff fs)). Qed.
Print Assumptions C02_num_param.

Theorem C02_string_ui : forall fs, StringUiRule fs -> string_ui_ok fs = true.
Proof. exact (fun fs => proj2 (string_ui_rule_iff fs)). Qed.
Print Assumptions C02_string_ui.

Theorem C02_path_ui : forall fs, PathUiRule fs -> path_ui_ok fs = true.
Proof. exact (fun fs => proj2 (path_ui_rule_iff fs)). Qed.
Print Assumptions C02_path_ui.

Theorem C02_num_ui : forall fs, NumUiRule fs -> num_ui_ok fs = true.
Proof. exact (fun fs => proj2 (num_ui_rule_iff fs)). Qed.
Print Assumptions C02_num_ui.

Theorem C02_capability_name : forall classify standard required_prefix name,
  CapName classify standard required_prefix name ->
  capability_name_ok classify standard required_prefix name = true.
Proof. exact (fun cl st p n => proj2 (capability_name_iff cl st p n)). Qed.
Print Assumptions C02_capability_name.

Theorem C02_amount : forall classify fs,
  AmountRule classify fs ->
  (capability_name_ok classify Generated.std_amount_caps $"amount." (mstr (fget "name" fs))
   && (match num_of (fget "min" fs) with Some v => num_leb (num_of_Z 0) v | None => true end)
   && (match num_of (fget "max" fs) with Some v => num_ltb (num_of_Z 0) v | None => true end)
   && opt_le (fget "min" fs) (fget "max" fs)) = true.
Proof. exact (fun cl fs => proj2 (amount_rule_iff cl fs)). Qed.
Print Assumptions C02_amount.

Theorem C02_attribute_list : forall classify name v is_allof,
  AttrListRule classify name v is_allof -> attribute_list_ok classify name v is_allof = true.
Proof. exact (fun cl n v a => proj2 (attribute_list_rule_iff cl n v a)). Qed.
Print Assumptions C02_attribute_list.

Theorem C02_attribute : forall classify fs,
  AttributeRule classify fs ->
  (capability_name_ok classify (map fst Generated.std_attr_caps) $"attr." (mstr (fget "name" fs))
   && attribute_list_ok classify (fget "name" fs) (fget "anyOf" fs) false
   && attribute_list_ok classify (fget "name" fs) (fget "allOf" fs) true) = true.
Proof. exact (fun cl fs => proj2 (attribute_rule_iff cl fs)). Qed.
Print Assumptions C02_attribute.

Theorem C02_host_req : forall fs,
  HostReqRule fs ->
  ((match fget "amounts" fs with MList [] => false | _ => true end)
   && (match fget "attributes" fs with MList [] => false | _ => true end)
   && negb (is_none (fget "amounts" fs) && is_none (fget "attributes" fs))
   && N.leb (N.of_nat (List.length (mitems (fget "amounts" fs)) + List.length (mitems (fget "attributes" fs))))
            Generated.max_requirements) = true.
Proof. exact (fun fs => proj2 (host_req_rule_iff fs)). Qed.
Print Assumptions C02_host_req.

Theorem C02_env : forall fs,
  EnvRule fs -> (match fget "variables" fs with MDict [] => false | _ => true end) = true.
Proof. exact (fun fs => proj2 (env_rule_iff fs)). Qed.
Print Assumptions C02_env.

Theorem C02_int_range : forall classify fs,
  IntRangeRule classify fs ->
  (match fget "range" fs with
   | MList items => forallb (fun it => match it with MFmt s => has_refs classify s | _ => true end) items
   | MFmt s => if has_refs classify s then true
               else range_expr_ok classify s
   | _ => true
   end) = true.
Proof. exact (fun cl fs => proj2 (int_range_rule_iff cl fs)). Qed.
Print Assumptions C02_int_range.

Theorem C02_float_range : forall classify fs,
  FloatRangeRule classify fs ->
  forallb (fun it => match it with MFmt s => has_refs classify s | _ => true end) (mitems (fget "range" fs)) = true.
Proof. exact (fun cl fs => proj2 (float_range_rule_iff cl fs)). Qed.
Print Assumptions C02_float_range.

Theorem C02_post_hook : forall classify c raw fs, Rule classify c raw fs -> post_hook classify c raw fs = true.
Proof. exact (fun cl c raw fs => proj2 (post_hook_iff cl c raw fs)). Qed.
Print Assumptions C02_post_hook.

Theorem C02_pre_hook : forall c raw, PreRule c raw -> pre_hook c raw = true.
Proof. exact (fun c raw => proj2 (pre_hook_iff c raw)). Qed.
Print Assumptions C02_pre_hook.

(* ---------------------------------------------------------------- 3. documents *)
Theorem C02_complete : forall classify j,
  WFdoc classify "JobTemplate" j -> exists v, decode_job classify j = Ok v.
Proof. exact job_complete. Qed.
Print Assumptions C02_complete.

Theorem C02_complete_env : forall classify j,
  WFdoc classify "EnvironmentTemplate" j -> exists v, decode_env classify j = Ok v.
Proof. exact env_complete. Qed.
Print Assumptions C02_complete_env.


(* ---------------------------------------------------------------- non-vacuity *)
(* the example template of C01.v is well-formed; each of its mutations is not *)
Example C02_complete_nonvacuous : WFdoc ascii_class "JobTemplate" ex_good.
Proof.
  apply WFdoc_iff_spec_parse. eexists. vm_compute. reflexivity.
Qed.

Example C02_structural_nonvacuous : is_ok (decode_job_on spec_schema ascii_class ex_good) = true.
Proof. vm_compute. reflexivity. Qed.

Lemma rejected_not_wf j e : decode_job ascii_class j = Raise e -> ~ WFdoc ascii_class "JobTemplate" j.
Proof. intros H W. destruct (C02_complete ascii_class j W) as (v & E). rewrite E in H. discriminate H. Qed.

Example C02_flip_nonvacuous :
  ~ WFdoc ascii_class "JobTemplate" (ex_doc "(A, B_1)" "A" "A") /\        (* duplicate step name *)
  ~ WFdoc ascii_class "JobTemplate" (ex_doc "(A, B_1)" "B" "C") /\        (* dangling dependency *)
  ~ WFdoc ascii_class "JobTemplate" (ex_doc "A * C" "B" "A").             (* unknown + missing identifier *)
Proof. repeat split; apply (rejected_not_wf _ ValueError); vm_compute; reflexivity. Qed.

(* a tightened limit is seen only by C02_table *)
Example C02_table_nonvacuous :
  schema_le spec_schema (dep_len 63 Generated.schema) = false /\
  schema_le spec_schema (dep_len 65 Generated.schema) = true /\
  schema_le spec_schema (int_range_len 1000 Generated.schema) = false /\
  schema_le spec_schema (int_range_len 2000 Generated.schema) = true.
Proof. vm_compute. repeat split. Qed.

Example C02_hooks_ext_nonvacuous : self_closed spec_schema = true /\ self_closed Generated.schema = true.
Proof. vm_compute. split; reflexivity. Qed.

(* the rules hold of the inputs the C01 examples use (so the hypotheses below are satisfiable) *)
Example C02_nodup_nonvacuous : NoDup [$"A"; $"B_1"].
Proof. apply C01_nodup. vm_compute. reflexivity. Qed.
Example C02_unique_names_nonvacuous : UniqueNames (MList [named "A"; named "B"]).
Proof. apply C01_unique_names. vm_compute. reflexivity. Qed.
Example C02_embedded_files_nonvacuous : EmbeddedFilesRule [("embeddedFiles", MList [named "f1"; named "f2"])].
Proof. apply C01_embedded_files. vm_compute. reflexivity. Qed.
Example C02_deps_nonvacuous : DepsRule ex_steps /\ ~ DepsRule ex_steps_cyclic.
Proof.
  split; [apply C01_deps; vm_compute; reflexivity|].
  intros H. apply C02_deps in H. vm_compute in H. discriminate H.
Qed.
Example C02_deps_names_nonvacuous : DepsRuleNames ex_steps.
Proof. apply C01_deps_names. vm_compute. reflexivity. Qed.
Example C02_step_nonvacuous : StepRule (model_fields (ex_step "C" ["A"; "B"])).
Proof. apply (C01_step "StepTemplate"). vm_compute. reflexivity. Qed.
Example C02_env_disjoint_nonvacuous : EnvDisjointRule (ex_env_fs "E1" "E2").
Proof. apply C01_env_disjoint. vm_compute. reflexivity. Qed.
Example C02_job_template_nonvacuous : JobTemplateRule ascii_class (JObj []) [("steps", ex_steps)].
Proof. apply C01_job_template. vm_compute. reflexivity. Qed.
Example C02_combination_nonvacuous :
  CombinationRule ascii_class (ex_space "(A, B_1) * C") /\ ~ CombinationRule ascii_class (ex_space "A * C").
Proof.
  split; [apply C01_combination; vm_compute; reflexivity|].
  intros H. apply C02_combination in H. vm_compute in H. discriminate H.
Qed.
Example C02_string_param_nonvacuous : StringParamRule (ex_sparam 2 3 "abc") /\ ~ StringParamRule (ex_sparam 3 2 "abc").
Proof.
  split; [apply C01_string_param; vm_compute; reflexivity|].
  intros H. apply C02_string_param in H. vm_compute in H. discriminate H.
Qed.
Example C02_num_param_nonvacuous : NumParamRule (ex_nparam 0 (MDec 150 (-2))) /\ ~ NumParamRule (ex_nparam 1 (MInt 0)).
Proof.
  split; [apply C01_num_param; vm_compute; reflexivity|].
  intros H. apply C02_num_param in H. vm_compute in H. discriminate H.
Qed.
Example C02_string_ui_nonvacuous : StringUiRule (ex_sui "CHECK_BOX" (MList [MStr $"True"; MStr $"false"])).
Proof. apply C01_string_ui. vm_compute. reflexivity. Qed.
Example C02_path_ui_nonvacuous : PathUiRule (ex_pui "CHOOSE_INPUT_FILE" "FILE" (MList [named "f"])).
Proof. apply C01_path_ui. vm_compute. reflexivity. Qed.
Example C02_num_ui_nonvacuous : NumUiRule (ex_nui "SPIN_BOX" (MInt 2) MNone).
Proof. apply C01_num_ui. vm_compute. reflexivity. Qed.
Example C02_capability_name_nonvacuous :
  CapName ascii_class Generated.std_amount_caps $"amount." $"Acme:amount.license.maya_2" /\
  ~ CapName ascii_class Generated.std_amount_caps $"amount." $"amount.worker.x".
Proof.
  split; [apply C01_capability_name; vm_compute; reflexivity|].
  intros H. apply C02_capability_name in H. vm_compute in H. discriminate H.
Qed.
Example C02_amount_nonvacuous : AmountRule ascii_class (ex_amount "amount.worker.vcpu" (MInt 0) (MDec 5 (-1))).
Proof. apply C01_amount. vm_compute. reflexivity. Qed.
Example C02_attribute_list_nonvacuous :
  AttrListRule ascii_class (MFmt $"attr.worker.os.family") (MList [MFmt $"linux"]) true.
Proof. apply C01_attribute_list. vm_compute. reflexivity. Qed.
Example C02_attribute_nonvacuous :
  AttributeRule ascii_class [("name", MFmt $"attr.worker.cpu.arch"); ("anyOf", MList [MFmt $"x86_64"; MFmt $"arm64"])].
Proof. apply C01_attribute. vm_compute. reflexivity. Qed.
Example C02_host_req_nonvacuous : HostReqRule [("amounts", MList [named "a"])] /\ ~ HostReqRule [].
Proof.
  split; [apply C01_host_req; vm_compute; reflexivity|].
  intros H. apply C02_host_req in H. vm_compute in H. discriminate H.
Qed.
Example C02_env_nonvacuous : EnvRule [("variables", MDict [($"K", MFmt $"v")])].
Proof. apply C01_env. vm_compute. reflexivity. Qed.
Example C02_int_range_nonvacuous : IntRangeRule ascii_class [("range", MFmt $"1-10:2,20")].
Proof. apply C01_int_range. vm_compute. reflexivity. Qed.
Example C02_float_range_nonvacuous : FloatRangeRule ascii_class [("range", MList [MDec 15 (-1); MFmt $"{{Param.P}}"])].
Proof. apply C01_float_range. vm_compute. reflexivity. Qed.
Example C02_post_hook_nonvacuous :
  Rule ascii_class "JobStringParameterDefinition" JNull
    (ex_sparam 2 3 "abc" ++ [("userInterface", MModel "UI" [("control", MStr $"DROPDOWN_LIST")])]).
Proof. apply C01_post_hook. vm_compute. reflexivity. Qed.
Example C02_pre_hook_nonvacuous :
  PreRule "AmountRequirementTemplate" (JObj [($"name", JStr $"amount.x.y"); ($"min", JInt 1)]) /\
  ~ PreRule "AmountRequirementTemplate" (JObj [($"name", JStr $"amount.x.y"); ($"min", JNull)]).
Proof.
  split; [apply C01_pre_hook; vm_compute; reflexivity|].
  intros H. apply C02_pre_hook in H. vm_compute in H. discriminate H.
Qed.
