(* props/C01.v — Accepted templates are well-formed (validation soundness).

   decode_job / decode_env (Accept.v) = version dispatch + the structural layer Parse.v driven by
   the LIVE table Generated.schema + the validators of Validators.v as coded.

   1. C01_table: the live table is below the FROZEN 2023-09 table spec_schema in the order of
      SchemaOrder.v ("accepts no more"); C01_order_sound says what the order means (for ALL
      kinds, any hooks, any fuel); C01_structural is the consequence for documents.  A limit
      loosened in the code breaks C01_table and leaves C02_table alone.
   2. One theorem per validator: the validator as coded accepts only what its declarative rule
      (WF.v, written from the property text / DESIGN Appendix C) allows.  These carry the content.
   3. C01_sound: an accepted document is well-formed: it parses under the frozen table and the
      rule of every visited object holds (WF.WFdoc).  Given 1 and 2 this step is by construction
      (same structural engine on both sides; the engine is validated against pydantic by the
      correspondence check, not verified). *)
From Coq Require Import List NArith ZArith Bool String Permutation.
Import ListNotations.
Require Import OJD.Base OJD.Lexer OJD.Json OJD.Schema OJD.Generated OJD.SchemaSpec OJD.SchemaOrder
               OJD.Charsets OJD.Numerals OJD.FsRefs OJD.CreateJob OJD.RangeExpr OJD.Comb OJD.ScopeWalk
               OJD.DepGraph OJD.DepGraphSpec OJD.Parse OJD.Validators OJD.Accept
               OJD.WF OJD.AcceptMono OJD.AcceptRules OJD.AcceptCap OJD.AcceptDeps OJD.AcceptProofs.
Local Open Scope string_scope.
Local Open Scope list_scope.

(* ---------------------------------------------------------------- 1. the table *)

Theorem C01_order_sound : forall S1 S2, schema_le S1 S2 = true ->
  forall classify pre post fuel root j v,
    parse_cls S1 classify pre post fuel root j = Ok v ->
    parse_cls S2 classify pre post fuel root j = Ok v.
Proof. exact parse_monotone. Qed.
Print Assumptions C01_order_sound.



(* ---------------------------------------------------------------- 2. the validators *)
Theorem C01_nodup : forall l, nodupb l = true -> NoDup l.
Proof. exact (fun l => proj1 (nodupb_iff l)). Qed.
Print Assumptions C01_nodup.

Theorem C01_unique_names : forall v, unique_names v = true -> UniqueNames v.
Proof. exact (fun v => proj1 (unique_names_iff v)). Qed.
Print Assumptions C01_unique_names.

Theorem C01_embedded_files : forall fs, unique_names (fget "embeddedFiles" fs) = true -> EmbeddedFilesRule fs.
Proof. exact (fun fs => proj1 (embedded_files_rule_iff fs)). Qed.
Print Assumptions C01_embedded_files.

(* unique step names, every dependency names a step, no cycle *)
Theorem C01_deps : forall steps,
  (nodupb (names_of steps)
   && negb (DepGraph.has_cycle (dep_job steps))
   && forallb (fun st => forallb (fun d => mem_str d (names_of steps)) (dep_names st)) (mitems steps)) = true ->
  DepsRule steps.
Proof. exact (fun s => proj1 (deps_rule_iff s)). Qed.
Print Assumptions C01_deps.

(* the same with the dependency relation read on step names, no positions: no step reaches
   itself through dependsOn *)
Theorem C01_deps_names : forall steps,
  (nodupb (names_of steps)
   && negb (DepGraph.has_cycle (dep_job steps))
   && forallb (fun st => forallb (fun d => mem_str d (names_of steps)) (dep_names st)) (mitems steps)) = true ->
  DepsRuleNames steps.
Proof. exact (fun s => proj1 (deps_names_rule_iff s)). Qed.
Print Assumptions C01_deps_names.

Theorem C01_deps_rule_names : forall steps, DepsRule steps <-> DepsRuleNames steps.
Proof. exact deps_rule_names_iff. Qed.
Print Assumptions C01_deps_rule_names.

(* no duplicate dependency, unique step-environment names, no self dependency *)
Theorem C01_step : forall c fs,
  (nodupb (dep_names (MModel c fs)) && unique_names (fget "stepEnvironments" fs)
   && negb (mem_str (mstr (fget "name" fs)) (dep_names (MModel c fs)))) = true -> StepRule fs.
Proof. exact (fun c fs => proj1 (step_rule_iff c fs)). Qed.
Print Assumptions C01_step.

Theorem C01_env_disjoint : forall fs,
  (let jenv := env_names (fget "jobEnvironments" fs) in
   forallb (fun st => forallb (fun e => negb (mem_str e jenv)) (env_names (fget "stepEnvironments" (model_fields st))))
           (mitems (fget "steps" fs))) = true -> EnvDisjointRule fs.
Proof. exact (fun fs => proj1 (env_disjoint_rule_iff fs)). Qed.
Print Assumptions C01_env_disjoint.

Theorem C01_job_template : forall classify raw fs,
  job_template_ok classify raw fs = true -> JobTemplateRule classify raw fs.
Proof. exact (fun cl raw fs => proj1 (job_template_rule_iff cl raw fs)). Qed.
Print Assumptions C01_job_template.

Theorem C01_combination : forall classify fs,
  (nodupb (names_of (fget "taskParameterDefinitions" fs))
   && match fget "combination" fs with
      | MStr s => match Comb.parse_str classify s with
                  | Ok t => Comb.accounting false (names_of (fget "taskParameterDefinitions" fs)) (Comb.collect_ids t)
                  | Raise _ => false
                  end
      | _ => true
      end) = true -> CombinationRule classify fs.
Proof. exact (fun cl fs => proj1 (combination_rule_iff cl fs)). Qed.
Print Assumptions C01_combination.

Theorem C01_string_param : forall fs, string_param_ok fs = true -> StringParamRule fs.
Proof. exact (fun fs => proj1 (string_param_rule_iff fs)). Qed.
Print Assumptions C01_string_param.

Theorem C01_num_param : forall fs, num_param_ok fs = true -> NumParamRule fs.
Proof. exact (fun fs => proj1 (num_param_rule_iff fs)). Qed.
Print Assumptions C01_num_param.

Theorem C01_string_ui : forall fs, string_ui_ok fs = true -> StringUiRule fs.
Proof. exact (fun fs => proj1 (string_ui_rule_iff fs)). Qed.
Print Assumptions C01_string_ui.

Theorem C01_path_ui : forall fs, path_ui_ok fs = true -> PathUiRule fs.
Proof. exact (fun fs => proj1 (path_ui_rule_iff fs)). Qed.
Print Assumptions C01_path_ui.

Theorem C01_num_ui : forall fs, num_ui_ok fs = true -> NumUiRule fs.
Proof. exact (fun fs => proj1 (num_ui_rule_iff fs)). Qed.
Print Assumptions C01_num_ui.

Theorem C01_capability_name : forall classify standard required_prefix name,
  capability_name_ok classify standard required_prefix name = true ->
  CapName classify standard required_prefix name.
Proof. exact (fun cl st p n => proj1 (capability_name_iff cl st p n)). Qed.
Print Assumptions C01_capability_name.

Theorem C01_amount : forall classify fs,
  (capability_name_ok classify Generated.std_amount_caps $"amount." (mstr (fget "name" fs))
   && (match num_of (fget "min" fs) with Some v => num_leb (num_of_Z 0) v | None => true end)
   && (match num_of (fget "max" fs) with Some v => num_ltb (num_of_Z 0) v | None => true end)
   && opt_le (fget "min" fs) (fget "max" fs)) = true -> AmountRule classify fs.
Proof. exact (fun cl fs => proj1 (amount_rule_iff cl fs)). Qed.
Print Assumptions C01_amount.

Theorem C01_attribute_list : forall classify name v is_allof,
  attribute_list_ok classify name v is_allof = true -> AttrListRule classify name v is_allof.
Proof. exact (fun cl n v a => proj1 (attribute_list_rule_iff cl n v a)). Qed.
Print Assumptions C01_attribute_list.

Theorem C01_attribute : forall classify fs,
  (capability_name_ok classify (map fst Generated.std_attr_caps) $"attr." (mstr (fget "name" fs))
   && attribute_list_ok classify (fget "name" fs) (fget "anyOf" fs) false
   && attribute_list_ok classify (fget "name" fs) (fget "allOf" fs) true) = true -> AttributeRule classify fs.
Proof. exact (fun cl fs => proj1 (attribute_rule_iff cl fs)). Qed.
Print Assumptions C01_attribute.

Theorem C01_host_req : forall fs,
  ((match fget "amounts" fs with MList [] => false | _ => true end)
   && (match fget "attributes" fs with MList [] => false | _ => true end)
   && negb (is_none (fget "amounts" fs) && is_none (fget "attributes" fs))
   && N.leb (N.of_nat (List.length (mitems (fget "amounts" fs)) + List.length (mitems (fget "attributes" fs))))
            Generated.max_requirements) = true -> HostReqRule fs.
Proof. exact (fun fs => proj1 (host_req_rule_iff fs)). Qed.
Print Assumptions C01_host_req.

Theorem C01_env : forall fs,
  (match fget "variables" fs with MDict [] => false | _ => true end) = true -> EnvRule fs.
Proof. exact (fun fs => proj1 (env_rule_iff fs)). Qed.
Print Assumptions C01_env.

Theorem C01_int_range : forall classify fs,
  (match fget "range" fs with
   | MList items => forallb (fun it => match it with MFmt s => has_refs classify s | _ => true end) items
   | MFmt s => if has_refs classify s then true
               else range_expr_ok classify s
   | _ => true
   end) = true -> IntRangeRule classify fs.
Proof. exact (fun cl fs => proj1 (int_range_rule_iff cl fs)). Qed.
Print Assumptions C01_int_range.

Theorem C01_float_range : forall classify fs,
  forallb (fun it => match it with MFmt s => has_refs classify s | _ => true end) (mitems (fget "range" fs)) = true
  -> FloatRangeRule classify fs.
Proof. exact (fun cl fs => proj1 (float_range_rule_iff cl fs)). Qed.
Print Assumptions C01_float_range.

(* all of the above, by class: the field/root validators and the pre validators as coded *)
Theorem C01_post_hook : forall classify c raw fs, post_hook classify c raw fs = true -> Rule classify c raw fs.
Proof. exact (fun cl c raw fs => proj1 (post_hook_iff cl c raw fs)). Qed.
Print Assumptions C01_post_hook.

(* "at least one real bound / value list / action / script-or-variables", raw INT types *)
Theorem C01_pre_hook : forall c raw, pre_hook c raw = true -> PreRule c raw.
Proof. exact (fun c raw => proj1 (pre_hook_iff c raw)). Qed.
Print Assumptions C01_pre_hook.

(* ---------------------------------------------------------------- 3. documents *)


(* WFdoc unfolded once: the frozen table with any deciders of the rules = with the coded hooks *)
Theorem C01_WFdoc_meaning : forall classify root j,
  WFdoc classify root j <-> exists v, parse_template_on spec_schema classify root j = Ok v.
Proof. exact WFdoc_iff_spec_parse. Qed.
Print Assumptions C01_WFdoc_meaning.

(* ---------------------------------------------------------------- non-vacuity *)
(* A job template using parameters, a parameter space with a combination and both range forms,
   a host requirement, a dependency. *)
Definition ex_script : json :=
  JObj [($"actions", JObj [($"onRun", JObj [($"command", JStr $"echo");
                                             ($"args", JArr [JStr $"{{Param.P}}"; JStr $"{{Task.Param.A}}"])])])].
Definition ex_script0 : json := JObj [($"actions", JObj [($"onRun", JObj [($"command", JStr $"echo")])])].
Definition ex_stepA (comb : string) : json :=
  JObj [($"name", JStr $"A"); ($"script", ex_script);
        ($"parameterSpace", JObj [($"taskParameterDefinitions",
            JArr [JObj [($"name", JStr $"A"); ($"type", JStr $"INT"); ($"range", JStr $"1-10")];
                  JObj [($"name", JStr $"B_1"); ($"type", JStr $"INT"); ($"range", JArr [JInt 1; JStr $"2"])]]);
            ($"combination", JStr $comb)]);
        ($"hostRequirements", JObj [($"amounts", JArr [JObj [($"name", JStr $"amount.worker.vcpu"); ($"min", JInt 2)]])])].
Definition ex_stepB (name dep : string) : json :=
  JObj [($"name", JStr $name); ($"script", ex_script0); ($"dependencies", JArr [JObj [($"dependsOn", JStr $dep)]])].
Definition ex_doc (comb nameB dep : string) : json :=
  JObj [($"specificationVersion", JStr $"jobtemplate-2023-09"); ($"name", JStr $"Job");
        ($"parameterDefinitions",
           JArr [JObj [($"name", JStr $"P"); ($"type", JStr $"STRING"); ($"minLength", JInt 1); ($"default", JStr $"x")]]);
        ($"steps", JArr [ex_stepA comb; ex_stepB nameB dep])].
Definition ex_good : json := ex_doc "(A, B_1)" "B" "A".

Example C01_sound_nonvacuous : is_ok (decode_job ascii_class ex_good) = true.
Proof. vm_compute. reflexivity. Qed.

Example C01_structural_nonvacuous :
  exists v, decode_job ascii_class ex_good = Ok v /\ decode_job_on spec_schema ascii_class ex_good = Ok v.
Proof. eexists. split; vm_compute; reflexivity. Qed.

(* one-rule mutations of it are rejected: duplicate step name, dangling dependency, self
   dependency, a combination that forgets B_1, one that names an unknown identifier *)
Example C01_mutations_rejected :
  decode_job ascii_class (ex_doc "(A, B_1)" "A" "A") = Raise ValueError /\
  decode_job ascii_class (ex_doc "(A, B_1)" "B" "C") = Raise ValueError /\
  decode_job ascii_class (ex_doc "(A, B_1)" "B" "B") = Raise ValueError /\
  decode_job ascii_class (ex_doc "A" "B" "A") = Raise ValueError /\
  decode_job ascii_class (ex_doc "A * C" "B" "A") = Raise ValueError.
Proof. vm_compute. repeat split. Qed.


(* table surgery used by the non-vacuity examples of C01_table / C02_table *)
Definition set_field (cname fname : string) (k : kind) (S : schema_t) : schema_t :=
  map (fun nc =>
         if String.eqb (fst nc) cname
         then (fst nc,
               mkCls (c_extra_forbid (snd nc)) (c_frozen (snd nc)) (c_scope (snd nc)) (c_defs (snd nc))
                     (c_sources (snd nc)) (c_jcm (snd nc)) (c_validators (snd nc))
                     (map (fun fl => if String.eqb (f_name fl) fname
                                     then mkField (f_name fl) (f_alias fl) (f_required fl) (f_shape fl) k
                                     else fl) (c_fields (snd nc))))
         else nc) S.
Definition dep_len (n : N) : schema_t -> schema_t :=
  set_field "StepDependency" "dependsOn" (KStr true (Some 1%N) (Some n) CS_standard).
Definition int_range_len (n : N) : schema_t -> schema_t :=
  set_field "IntTaskParameterDefinition" "range"
    (KUnion [UList (Some 1%N) (Some n) (KUnion [UScalar (KInt false None None None);
                                                UScalar (KFormat "TaskParameterStringValue" None None CS_any)]);
             UScalar (KFormat "RangeString" (Some 1%N) None CS_any)]).


(* validators: an input on which each answers true *)
Definition named (n : string) : mval := MModel "X" [("name", MStr $n)].
Definition ex_step (n : string) (deps : list string) : mval :=
  MModel "StepTemplate" [("name", MStr $n);
                         ("dependencies", MList (map (fun d => MModel "StepDependency" [("dependsOn", MStr $d)]) deps))].
Definition ex_steps : mval := MList [ex_step "A" []; ex_step "B" ["A"]; ex_step "C" ["A"; "B"]].
Definition ex_steps_cyclic : mval := MList [ex_step "A" ["C"]; ex_step "B" ["A"]; ex_step "C" ["B"]].

Example C01_nodup_nonvacuous : nodupb [$"A"; $"B_1"] = true /\ nodupb [$"A"; $"B"; $"A"] = false.
Proof. vm_compute. split; reflexivity. Qed.
Example C01_unique_names_nonvacuous :
  unique_names (MList [named "A"; named "B"]) = true /\ unique_names (MList [named "A"; named "A"]) = false.
Proof. vm_compute. split; reflexivity. Qed.
Example C01_embedded_files_nonvacuous :
  unique_names (fget "embeddedFiles" [("embeddedFiles", MList [named "f1"; named "f2"])]) = true.
Proof. vm_compute. reflexivity. Qed.

Definition deps_b (steps : mval) : bool :=
  nodupb (names_of steps) && negb (DepGraph.has_cycle (dep_job steps))
  && forallb (fun st => forallb (fun d => mem_str d (names_of steps)) (dep_names st)) (mitems steps).
Example C01_deps_nonvacuous : deps_b ex_steps = true /\ deps_b ex_steps_cyclic = false.
Proof. vm_compute. split; reflexivity. Qed.

Example C01_deps_names_nonvacuous : DepsRuleNames ex_steps /\ ~ DepsRuleNames ex_steps_cyclic.
Proof.
  split; [apply C01_deps_names; vm_compute; reflexivity|].
  intros H. apply deps_names_rule_iff in H. vm_compute in H. discriminate H.
Qed.

Example C01_step_nonvacuous :
  post_hook ascii_class "StepTemplate" JNull (model_fields (ex_step "C" ["A"; "B"])) = true /\
  post_hook ascii_class "StepTemplate" JNull (model_fields (ex_step "C" ["A"; "A"])) = false /\
  post_hook ascii_class "StepTemplate" JNull (model_fields (ex_step "C" ["C"])) = false.
Proof. vm_compute. repeat split. Qed.

Definition ex_env_fs (jenv senv : string) : list (string * mval) :=
  [("steps", MList [MModel "StepTemplate" [("name", MStr $"A"); ("stepEnvironments", MList [named senv])]]);
   ("jobEnvironments", MList [named jenv])].
Definition env_disjoint_b (fs : list (string * mval)) : bool :=
  let jenv := env_names (fget "jobEnvironments" fs) in
  forallb (fun st => forallb (fun e => negb (mem_str e jenv)) (env_names (fget "stepEnvironments" (model_fields st))))
          (mitems (fget "steps" fs)).
Example C01_env_disjoint_nonvacuous : env_disjoint_b (ex_env_fs "E1" "E2") = true /\ env_disjoint_b (ex_env_fs "E" "E") = false.
Proof. vm_compute. split; reflexivity. Qed.

Example C01_job_template_nonvacuous :
  job_template_ok ascii_class (JObj []) [("steps", ex_steps)] = true /\
  job_template_ok ascii_class (JObj []) [("steps", ex_steps_cyclic)] = false.
Proof. vm_compute. split; reflexivity. Qed.

Definition ex_space (comb : string) : list (string * mval) :=
  [("taskParameterDefinitions", MList [named "A"; named "B_1"; named "C"]); ("combination", MStr $comb)].
Example C01_combination_nonvacuous :
  post_hook ascii_class "StepParameterSpaceDefinition" JNull (ex_space "(A, B_1) * C") = true /\
  post_hook ascii_class "StepParameterSpaceDefinition" JNull (ex_space "A * C") = false /\
  post_hook ascii_class "StepParameterSpaceDefinition" JNull (ex_space "A * B_1 * D") = false.
Proof. vm_compute. repeat split. Qed.

Definition ex_sparam (mn mx : Z) (dflt : string) : list (string * mval) :=
  [("minLength", MInt mn); ("maxLength", MInt mx); ("allowedValues", MList [MStr $"ab"; MStr $"abc"]); ("default", MStr $dflt)].
Example C01_string_param_nonvacuous :
  string_param_ok (ex_sparam 2 3 "abc") = true /\ string_param_ok (ex_sparam 3 2 "abc") = false /\
  string_param_ok (ex_sparam 2 3 "zz") = false /\ string_param_ok (ex_sparam 3 3 "abc") = false.
Proof. vm_compute. repeat split. Qed.

(* 0 <= 1.5 with allowed {0, 1.5}: zero bounds are ordinary numbers *)
Definition ex_nparam (mn : Z) (dflt : mval) : list (string * mval) :=
  [("minValue", MInt mn); ("maxValue", MDec 15 (-1)); ("allowedValues", MList [MInt 0; MDec 15 (-1)]); ("default", dflt)].
Example C01_num_param_nonvacuous :
  num_param_ok (ex_nparam 0 (MDec 150 (-2))) = true /\ num_param_ok (ex_nparam 1 (MInt 0)) = false /\
  num_param_ok (ex_nparam 0 (MInt 1)) = false.
Proof. vm_compute. repeat split. Qed.

Definition ex_sui (ctl : string) (allowed : mval) : list (string * mval) :=
  [("userInterface", MModel "UI" [("control", MStr $ctl)]); ("allowedValues", allowed)].
Example C01_string_ui_nonvacuous :
  string_ui_ok (ex_sui "CHECK_BOX" (MList [MStr $"True"; MStr $"false"])) = true /\
  string_ui_ok (ex_sui "CHECK_BOX" (MList [MStr $"yes"; MStr $"false"])) = false /\
  string_ui_ok (ex_sui "CHECK_BOX" MNone) = false /\
  string_ui_ok (ex_sui "LINE_EDIT" (MList [MStr $"a"])) = false /\
  string_ui_ok (ex_sui "DROPDOWN_LIST" MNone) = false.
Proof. vm_compute. repeat split. Qed.

Definition ex_pui (ctl ot : string) (filters : mval) : list (string * mval) :=
  [("userInterface", MModel "UI" [("control", MStr $ctl); ("fileFilters", filters)]); ("objectType", MStr $ot)].
Example C01_path_ui_nonvacuous :
  path_ui_ok (ex_pui "CHOOSE_INPUT_FILE" "FILE" (MList [named "f"])) = true /\
  path_ui_ok (ex_pui "CHOOSE_DIRECTORY" "FILE" MNone) = false /\
  path_ui_ok (ex_pui "CHOOSE_DIRECTORY" "DIRECTORY" (MList [named "f"])) = false /\
  path_ui_ok (ex_pui "CHOOSE_OUTPUT_FILE" "DIRECTORY" MNone) = false.
Proof. vm_compute. repeat split. Qed.

Definition ex_nui (ctl : string) (delta allowed : mval) : list (string * mval) :=
  [("userInterface", MModel "UI" [("control", MStr $ctl); ("singleStepDelta", delta)]); ("allowedValues", allowed)].
Example C01_num_ui_nonvacuous :
  num_ui_ok (ex_nui "SPIN_BOX" (MInt 2) MNone) = true /\
  num_ui_ok (ex_nui "HIDDEN" (MInt 2) MNone) = false /\
  num_ui_ok (ex_nui "SPIN_BOX" MNone (MList [MInt 1])) = false.
Proof. vm_compute. repeat split. Qed.

Example C01_capability_name_nonvacuous :
  capability_name_ok ascii_class Generated.std_amount_caps $"amount." $"amount.worker.vcpu" = true /\
  capability_name_ok ascii_class Generated.std_amount_caps $"amount." $"Acme:amount.license.maya_2" = true /\
  capability_name_ok ascii_class Generated.std_amount_caps $"amount." $"amount.{{Param.P}}" = true /\
  capability_name_ok ascii_class Generated.std_amount_caps $"amount." $"amount.worker.x" = false /\
  capability_name_ok ascii_class Generated.std_amount_caps $"amount." $"attr.custom.x" = false /\
  capability_name_ok ascii_class Generated.std_amount_caps $"amount." $"a:amount.custom" = false.
Proof. vm_compute. repeat split. Qed.

Definition ex_amount (name : string) (mn mx : mval) : list (string * mval) := [("name", MFmt $name); ("min", mn); ("max", mx)].
Example C01_amount_nonvacuous :
  post_hook ascii_class "AmountRequirementTemplate" JNull (ex_amount "amount.worker.vcpu" (MInt 0) (MDec 5 (-1))) = true /\
  post_hook ascii_class "AmountRequirementTemplate" JNull (ex_amount "amount.worker.vcpu" (MInt (-1)) MNone) = false /\
  post_hook ascii_class "AmountRequirementTemplate" JNull (ex_amount "amount.worker.vcpu" MNone (MInt 0)) = false /\
  post_hook ascii_class "AmountRequirementTemplate" JNull (ex_amount "amount.worker.vcpu" (MInt 3) (MInt 2)) = false.
Proof. vm_compute. repeat split. Qed.

Example C01_attribute_list_nonvacuous :
  attribute_list_ok ascii_class (MFmt $"attr.worker.os.family") (MList [MFmt $"linux"]) true = true /\
  attribute_list_ok ascii_class (MFmt $"attr.worker.os.family") (MList [MFmt $"linux"; MFmt $"macos"]) true = false /\
  attribute_list_ok ascii_class (MFmt $"attr.worker.os.family") (MList [MFmt $"beos"]) false = false /\
  attribute_list_ok ascii_class (MFmt $"attr.custom.x") (MList [MFmt $"v-1"; MFmt $"{{Param.P}}"]) false = true /\
  attribute_list_ok ascii_class (MFmt $"attr.custom.x") (MList [MFmt $"9x"]) false = false.
Proof. vm_compute. repeat split. Qed.

Example C01_attribute_nonvacuous :
  post_hook ascii_class "AttributeRequirementTemplate" JNull
    [("name", MFmt $"attr.worker.cpu.arch"); ("anyOf", MList [MFmt $"x86_64"; MFmt $"arm64"])] = true.
Proof. vm_compute. reflexivity. Qed.

Example C01_host_req_nonvacuous :
  post_hook ascii_class "HostRequirementsTemplate" JNull [("amounts", MList [named "a"])] = true /\
  post_hook ascii_class "HostRequirementsTemplate" JNull [] = false /\
  post_hook ascii_class "HostRequirementsTemplate" JNull [("amounts", MList [])] = false.
Proof. vm_compute. repeat split. Qed.

Example C01_env_nonvacuous :
  post_hook ascii_class "Environment" JNull [("variables", MDict [($"K", MFmt $"v")])] = true /\
  post_hook ascii_class "Environment" JNull [("variables", MDict [])] = false.
Proof. vm_compute. split; reflexivity. Qed.

Example C01_int_range_nonvacuous :
  post_hook ascii_class "IntTaskParameterDefinition" JNull [("range", MFmt $"1-10:2,20")] = true /\
  post_hook ascii_class "IntTaskParameterDefinition" JNull [("range", MFmt $"5-3")] = false /\
  post_hook ascii_class "IntTaskParameterDefinition" JNull [("range", MList [MInt 1; MFmt $"{{Param.P}}"])] = true /\
  post_hook ascii_class "IntTaskParameterDefinition" JNull [("range", MList [MFmt $"x"])] = false.
Proof. vm_compute. repeat split. Qed.

Example C01_float_range_nonvacuous :
  post_hook ascii_class "FloatTaskParameterDefinition" JNull [("range", MList [MDec 15 (-1); MFmt $"{{Param.P}}"])] = true /\
  post_hook ascii_class "FloatTaskParameterDefinition" JNull [("range", MList [MFmt $"abc"])] = false.
Proof. vm_compute. split; reflexivity. Qed.

Example C01_post_hook_nonvacuous :
  post_hook ascii_class "JobStringParameterDefinition" JNull
    (ex_sparam 2 3 "abc" ++ [("userInterface", MModel "UI" [("control", MStr $"DROPDOWN_LIST")])]) = true.
Proof. vm_compute. reflexivity. Qed.

(* an explicit null is no bound *)
Example C01_pre_hook_nonvacuous :
  pre_hook "AmountRequirementTemplate" (JObj [($"name", JStr $"amount.x.y"); ($"min", JInt 1)]) = true /\
  pre_hook "AmountRequirementTemplate" (JObj [($"name", JStr $"amount.x.y"); ($"min", JNull)]) = false /\
  pre_hook "AttributeRequirementTemplate" (JObj [($"name", JStr $"attr.x.y"); ($"anyOf", JNull)]) = false /\
  pre_hook "JobIntParameterDefinition" (JObj [($"default", JBool true)]) = false /\
  pre_hook "JobIntParameterDefinition" (JObj [($"default", JStr $"3")]) = true.
Proof. vm_compute. repeat split. Qed.
