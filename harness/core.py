"""core.py — shared machinery of /verif/check.

A property module (harness/cXX.py) provides a `Prop` object; this file builds the Coq
development and the extracted OCaml driver from the *current* /repo working tree, runs the
differential correspondence on all cores, decides, writes the evidence file and prints the
VIOLATION / KNOWN-FINDING lines.  See DESIGN.md §2.3/§2.4.
"""
from __future__ import annotations

import copy
import fcntl
import hashlib
import json
import multiprocessing as mp
import os
import re
import subprocess
import sys
import time
import traceback
from collections import Counter
from pathlib import Path

VERIF = Path(__file__).resolve().parent.parent
REPO = Path(os.environ.get("VERIF_REPO", "/repo"))
BUILD = VERIF / "_build"
COQ = VERIF / "coq"
PY = "/venv/bin/python"
NPROC = int(os.environ.get("VERIF_JOBS", "16"))

# the implementation under test is always the working tree, never the installed copy
sys.path.insert(0, str(REPO / "src"))
os.environ["PYTHONPATH"] = str(REPO / "src")
os.environ.setdefault("PYTHONHASHSEED", "0")

TRUSTED_BASE = [
    "coq-kernel-8.16.1 (coqc; coqchk in the thorough tier)",
    "ExtrOcamlBasic extraction (no other Extract directive) + ocaml-4.13.1",
    "hand-written OCaml driver and s-expression wire conversion (ocaml/*.ml)",
    "python harness: generators, canonicalisers, conversion of Python values to the wire format",
    "tools/regen.py introspection translator (Generated.v)",
]


# ---------------------------------------------------------------- s-expressions
def sx_dumps(x) -> str:
    if isinstance(x, bool):
        return "true" if x else "false"
    if isinstance(x, int):
        if -(2 ** 61) < x < 2 ** 61:
            return str(x)
        return ("b-" if x < 0 else "b") + bin(abs(x))[2:]      # beyond OCaml's native int: binary digits (ocaml/conv.ml)
    if isinstance(x, str):
        return x
    if x is None:
        return "none"
    return "(" + " ".join(sx_dumps(y) for y in x) + ")"


_tok = re.compile(r"[()]|[^\s()]+")
_bits = re.compile(r"b-?[01]+\Z")


def sx_loads(s: str):
    stack = [[]]
    for m in _tok.finditer(s):
        t = m.group()
        if t == "(":
            stack.append([])
        elif t == ")":
            top = stack.pop()
            stack[-1].append(top)
        else:
            try:
                stack[-1].append(int(t))
            except ValueError:
                stack[-1].append(int(t[1:], 2) if _bits.match(t) else t)
    assert len(stack) == 1 and len(stack[0]) == 1, s[:200]
    return stack[0][0]


def cps(s: str):
    """Python str -> list of code points (the model's string type)."""
    return [ord(c) for c in s]


def uncps(l) -> str:
    return "".join(chr(c) for c in l)


def json_sx(x):
    """Python JSON/YAML value -> wire form of the model's [json] type (string keys only)."""
    from decimal import Decimal
    if x is None:
        return "null"
    if isinstance(x, bool):
        return "true" if x else "false"
    if isinstance(x, int):
        return ["i", x]
    if isinstance(x, float):
        x = Decimal(str(x))
    if isinstance(x, Decimal):
        if not x.is_finite():
            raise ValueError("non-finite number is outside the model's json type")
        sign, digits, exp = x.as_tuple()
        m = int("".join(map(str, digits)) or "0")
        return ["d", -m if sign else m, exp]
    if isinstance(x, str):
        return ["s"] + [ord(c) for c in x]
    if isinstance(x, (list, tuple)):
        return ["a"] + [json_sx(y) for y in x]
    if isinstance(x, dict):
        out = ["o"]
        for k, v in x.items():
            if not isinstance(k, str):
                raise ValueError("non-string key is outside the model's json type")
            out.append([[ord(c) for c in k], json_sx(v)])
        return out
    raise ValueError(f"not a JSON value: {type(x)}")


def doc_chars(x, acc=None):
    """all non-ASCII characters occurring in string values/keys of a document"""
    acc = set() if acc is None else acc
    if isinstance(x, str):
        acc.update(c for c in x if ord(c) > 127)
    elif isinstance(x, (list, tuple)):
        for y in x:
            doc_chars(y, acc)
    elif isinstance(x, dict):
        for k, v in x.items():
            doc_chars(k, acc)
            doc_chars(v, acc)
    return acc


def mval_sx(v):
    """pydantic model instance -> wire form of the model's [mval]"""
    from decimal import Decimal
    from enum import Enum
    from openjd.model._format_strings import FormatString
    from openjd.model._types import OpenJDModel
    if v is None:
        return "none"
    if isinstance(v, bool):
        return ["b", v]
    if isinstance(v, int):
        return ["i", v]
    if isinstance(v, (float, Decimal)):
        tag = "fl" if isinstance(v, float) else "d"
        sign, digits, exp = Decimal(str(v)).as_tuple() if isinstance(v, float) else v.as_tuple()
        m = int("".join(map(str, digits)) or "0")
        return [tag, -m if sign else m, exp]
    if isinstance(v, FormatString):
        return ["f"] + cps(str.__str__(v))
    if isinstance(v, Enum):
        return ["s"] + cps(v.value)
    if isinstance(v, str):
        return ["s"] + cps(v)
    if isinstance(v, (list, tuple)):
        return ["l"] + [mval_sx(x) for x in v]
    if isinstance(v, dict):
        return ["m"] + [[cps(k), mval_sx(x)] for k, x in v.items()]
    if isinstance(v, OpenJDModel):
        return ["M", type(v).__name__] + [[name, mval_sx(getattr(v, name))] for name in v.__fields__]
    raise ValueError(f"unexpected value in a model: {type(v)}")


def from_wire(j):
    """wire json -> python value"""
    if j == "null":
        return None
    if j == "true":
        return True
    if j == "false":
        return False
    t = j[0]
    if t == "i":
        return j[1]
    if t == "d":
        return ["DEC", j[1], j[2]]
    if t == "s":
        return uncps(j[1:])
    if t == "a":
        return [from_wire(x) for x in j[1:]]
    if t == "o":
        return {uncps(k): from_wire(v) for k, v in j[1:]}
    raise ValueError(j)



def run_preempted(call_a, call_b, want_b, max_points=200, lines=False):
    """Deterministic pre-emption: call_a() runs traced, and at evenly spread trace points inside the package's own code
    (function entries; with lines=True also lines) call_b() — another party's whole call — runs before A continues.
    -> (what call_a returned or ["raise", class], the first result of call_b that differs from want_b or None, points used).
    Whatever B leaves in shared, non-thread-local state (a module-level parser, a scratch slot) reaches A, and vice versa."""
    import openjd.model as _pkg
    root = str(Path(_pkg.__file__).resolve().parent)
    events = ("call", "line") if lines else ("call",)
    count = [0]

    def counter(frame, event, arg):
        if frame.f_code.co_filename.startswith(root):
            if event in events:
                count[0] += 1
            return counter if lines else None
        return None
    sys.settrace(counter)
    try:
        try:
            call_a()
        except BaseException:  # noqa: BLE001
            pass
    finally:
        sys.settrace(None)
    stride = max(1, count[0] // max_points)
    seen, busy, odd = [0], [False], [None]

    def tracer(frame, event, arg):
        if not frame.f_code.co_filename.startswith(root):
            return None
        if event in events:
            seen[0] += 1
            if seen[0] % stride == 0 and not busy[0]:
                busy[0] = True
                sys.settrace(None)
                try:
                    try:
                        rb = call_b()
                    except BaseException as e:  # noqa: BLE001
                        rb = ["raise", type(e).__name__]
                    if rb != want_b and odd[0] is None:
                        odd[0] = [seen[0], rb]
                finally:
                    busy[0] = False
                    sys.settrace(tracer)
        return tracer if lines else None
    sys.settrace(tracer)
    try:
        try:
            ra = call_a()
        except BaseException as e:  # noqa: BLE001
            ra = ["raise", type(e).__name__]
    finally:
        sys.settrace(None)
    return ra, odd[0], min(count[0], max_points)


class Driver:
    """One extracted-model process; batch request/reply."""

    def __init__(self, component: str):
        self.exe = str(BUILD / "gen" / component / f"{component}_driver")

    def ask(self, requests, prelude=()):
        lines = [sx_dumps(r) for r in list(prelude) + list(requests)]
        p = subprocess.run(
            ["bash", "-c", f"ulimit -s unlimited 2>/dev/null; exec {self.exe}"],
            input="\n".join(lines) + "\n",
            capture_output=True,
            text=True,
            timeout=int(os.environ.get("VERIF_DRIVER_TIMEOUT", "900")),
        )
        out = p.stdout.splitlines()
        if p.returncode != 0 or len(out) != len(lines):
            raise RuntimeError(
                f"driver {self.exe} failed rc={p.returncode} replies={len(out)}/{len(lines)} stderr={p.stderr[:500]}"
            )
        return [sx_loads(l) for l in out[len(prelude):]], [sx_loads(l) for l in out[: len(prelude)]]


# ---------------------------------------------------------------- character classes (§3.1)
_re_space = re.compile(r"\s")
_re_word = re.compile(r"\w")
_re_digit = re.compile(r"\d")
_PUNCT = {".": "dot", "*": "star", "(": "lparen", ")": "rparen", ",": "comma", "-": "hyphen", ":": "colon"}


def char_class(ch: str) -> str:
    """Class of one character computed with Python's own `re` (never transcribed)."""
    if _re_space.fullmatch(ch):
        return "space"
    if ch in _PUNCT:
        return _PUNCT[ch]
    if "0" <= ch <= "9":
        return "digit"
    if _re_digit.fullmatch(ch):
        return "udigit"
    if _re_word.fullmatch(ch):
        return "namestart"
    return "other"


def class_table(chars) -> list:
    """(table (cp class) ...) request for every ASCII char and every extra char used."""
    allc = {chr(i) for i in range(128)} | set(chars)
    return ["table"] + [[ord(c), char_class(c)] for c in sorted(allc)]


# ---------------------------------------------------------------- build
def sh(cmd, cwd=None, timeout=1800):
    p = subprocess.run(cmd, cwd=cwd, shell=isinstance(cmd, str), capture_output=True, text=True, timeout=timeout)
    return p.returncode, p.stdout + p.stderr


def file_digest(paths) -> str:
    h = hashlib.sha256()
    for p in sorted(str(x) for x in paths):
        h.update(p.encode())
        try:
            h.update(Path(p).read_bytes())
        except OSError:
            h.update(b"<missing>")
    return h.hexdigest()


class BuildResult:
    def __init__(self):
        self.ok_props = False
        self.ok_driver = False
        self.obligations = []      # theorem names stated in props/Cxx.v
        self.discharged = []       # those coqc accepted
        self.assumptions = {}      # theorem -> Print Assumptions text
        self.log = ""
        self.generated_digest = ""
        self.failed_theorem = None
        self.forbidden = []


FORBIDDEN = re.compile(
    r"\b(Admitted|admit|Axiom|Axioms|Parameter|Parameters|Conjecture|Conjectures|Hypothesis|Hypotheses|Variable|Variables)\b|Unset\s+Guard|bypass_check|type-in-type|impredicative-set|Admit\s+Obligations|Unset\s+Universe\s+Checking|Unset\s+Positivity"
)


def strip_coq_comments(text: str) -> str:
    out = []
    depth = 0
    i = 0
    while i < len(text):
        if text.startswith("(*", i):
            depth += 1
            i += 2
        elif text.startswith("*)", i) and depth > 0:
            depth -= 1
            i += 2
        else:
            if depth == 0:
                out.append(text[i])
            i += 1
    return "".join(out)


def forbidden_scan():
    """grep gate over the whole development.  Variable/Hypothesis are allowed only inside a
    Section (checked by tracking Section/End nesting)."""
    bad = []
    for f in sorted(list((COQ / "theories").glob("*.v")) + list((COQ / "props").glob("*.v")) + list((COQ / "extract").glob("*.v"))):
        text = strip_coq_comments(f.read_text())
        depth = 0
        for ln, line in enumerate(text.splitlines(), 1):
            if re.match(r"\s*Section\b", line):
                depth += 1
            if re.match(r"\s*End\b", line) and depth > 0:
                # Module End also matches; modules are not used in this development
                depth -= 1
            for m in FORBIDDEN.finditer(line):
                w = m.group()
                if w in ("Variable", "Variables", "Hypothesis", "Hypotheses") and depth > 0:
                    continue
                if w in ("Parameter", "Parameters") and False:
                    continue
                bad.append(f"{f.relative_to(VERIF)}:{ln}: {w}")
    return bad


def regen():
    """Translator (T): regenerate coq/theories/Generated.v from the live package."""
    out = COQ / "theories" / "Generated.v"
    env = dict(os.environ, PYTHONPATH=str(REPO / "src"), PYTHONHASHSEED="0")
    p = subprocess.run([PY, str(VERIF / "tools" / "regen.py")], capture_output=True, text=True, env=env)
    if p.returncode != 0:
        return False, p.stdout + p.stderr
    new = p.stdout
    if not out.exists() or out.read_text() != new:
        out.write_text(new)
    return True, ""


def ensure_makefile():
    mk = COQ / "Makefile"
    proj = COQ / "_CoqProject"
    files = sorted(str(p.relative_to(COQ)) for d in ("theories", "props") for p in (COQ / d).glob("*.v"))
    text = "-Q theories OJD\n-Q props OJDProps\n-arg -w -arg -notation-overridden,-deprecated-hint-without-locality,-deprecated-instance-without-locality\n" + "\n".join(files) + "\n"
    if not proj.exists() or proj.read_text() != text:
        proj.write_text(text)
    if not mk.exists() or mk.stat().st_mtime < proj.stat().st_mtime:
        rc, out = sh(["coq_makefile", "-f", "_CoqProject", "-o", "Makefile"], cwd=COQ)
        if rc != 0:
            raise RuntimeError(out)


class build_lock:
    """flock on _build/.lock: one build at a time (checks may run concurrently)."""

    def __enter__(self):
        BUILD.mkdir(exist_ok=True)
        self.f = open(BUILD / ".lock", "w")
        fcntl.flock(self.f, fcntl.LOCK_EX)
        return self

    def __exit__(self, *a):
        fcntl.flock(self.f, fcntl.LOCK_UN)
        self.f.close()
        return False


def build(prop_id: str, component: str, extract_file: str, need_props=True) -> BuildResult:
    """Rebuild, under a lock, everything the check of `prop_id` needs."""
    br = BuildResult()
    with build_lock():
        ok, log = regen()
        br.log += log
        gen = COQ / "theories" / "Generated.v"
        br.generated_digest = "sha256:" + hashlib.sha256(gen.read_bytes()).hexdigest() if gen.exists() else "none"
        ensure_makefile()
        props_v = COQ / "props" / f"{prop_id}.v"
        text = strip_coq_comments(props_v.read_text()) if props_v.exists() else ""
        br.obligations = re.findall(r"^\s*(?:Theorem|Lemma|Corollary)\s+(\w+)", text, re.M)
        rules_v = COQ / "props" / f"{prop_id}rules.v"     # optional second file of the same property (compiled as a dependency)
        if rules_v.exists():
            br.obligations += re.findall(r"^\s*(?:Theorem|Lemma|Corollary)\s+(\w+)", strip_coq_comments(rules_v.read_text()), re.M)
        # optional extension files props/<id>x*.v: further theorems of the same property, built and
        # assumption-printed like the main file (kept apart so that the main file stays small)
        ext_units = []        # (unit name, theorem names)
        for ext_v in sorted((COQ / "props").glob(f"{prop_id}x*.v")):
            ext_units.append((ext_v.stem, re.findall(r"^\s*(?:Theorem|Lemma|Corollary)\s+(\w+)", strip_coq_comments(ext_v.read_text()), re.M)))
        main_obl = list(br.obligations)
        for _, names in ext_units:
            br.obligations += names
        br.forbidden = forbidden_scan()
        if ok and need_props:
            units = [(prop_id, main_obl)] + ext_units
            targets = " ".join(f"props/{u}.vo" for u, _ in units)
            rc, out = sh(f"timeout 1500 make -j{NPROC} {targets} 2>&1 | tail -40", cwd=COQ, timeout=1600)
            rc2 = 0 if all((COQ / "props" / f"{u}.vo").exists() for u, _ in units) and "Error" not in out else 1
            br.log += out
            if rc2 == 0:
                (BUILD / "tmp").mkdir(exist_ok=True)
                # re-run coqc on the small props files to capture Print Assumptions
                good = True
                for u, names in units:
                    rc3, out3 = sh(
                        ["coqc", "-Q", "theories", "OJD", "-Q", "props", "OJDProps", "-o", str(BUILD / "tmp" / f"{u}.vo"), f"props/{u}.v"],
                        cwd=COQ,
                    )
                    br.log += out3
                    if rc3 == 0:
                        br.assumptions.update(parse_assumptions(out3, names))
                    else:
                        good = False
                    for ext in (".vo", ".glob", ".vok", ".vos"):
                        try:
                            (BUILD / "tmp" / f"{u}{ext}").unlink()
                        except OSError:
                            pass
                if good:
                    br.ok_props = True
                    br.discharged = list(br.obligations)
            if not br.ok_props:
                m = re.search(r'File "([^"]+)", line (\d+)', br.log)
                br.failed_theorem = locate_failed(m) if m else None
                # theorems stated before the failure point in props file still count as stated
                br.discharged = []
        elif not ok:
            br.failed_theorem = "tools/regen.py (translator failed closed)"
        # extraction + driver (needs only model/spec files)
        if component:
            br.ok_driver, dlog = build_driver(component, extract_file)
            br.log += dlog
    return br


def locate_failed(m):
    path, line = m.group(1), int(m.group(2))
    try:
        p = (COQ / path) if not os.path.isabs(path) else Path(path)
        lines = p.read_text().splitlines()
        for i in range(min(line, len(lines)) - 1, -1, -1):
            mm = re.match(r"\s*(Theorem|Lemma|Corollary|Example|Definition|Fixpoint)\s+(\w+)", lines[i])
            if mm:
                return f"{path}:{mm.group(2)}"
    except OSError:
        pass
    return f"{path}:{line}"


def parse_assumptions(out: str, names):
    """Split coqc output of a props file into the Print Assumptions answer per theorem (the
    file prints them in order)."""
    res = {}
    chunks = re.split(r"(?=Closed under the global context|Axioms:)", out)
    chunks = [c.strip() for c in chunks if c.strip().startswith(("Closed", "Axioms:"))]
    for n, c in zip(names, chunks):
        res[n] = " ".join(c.split())[:2000]
    return res


def build_driver(component: str, extract_file: str):
    gdir = BUILD / "gen" / component
    gdir.mkdir(parents=True, exist_ok=True)
    exe = gdir / f"{component}_driver"
    # the model/spec files the extraction depends on must be compiled first
    rc, out = sh(f"timeout 1500 make -j{NPROC} $(coqdep -Q theories OJD -Q props OJDProps -sort extract/{extract_file} 2>/dev/null | tr ' ' '\\n' | grep '^theories/' | sed 's/\\.v$/.vo/' | tr '\\n' ' ') 2>&1 | tail -30", cwd=COQ, timeout=1600)
    log = out
    if "Error" in out:
        return False, log
    drv_src = (VERIF / "ocaml" / f"{component}_driver.ml").read_text()
    extra = [VERIF / "ocaml" / "convjson.ml"] if "open Convjson" in drv_src else []
    srcs = [COQ / "extract" / extract_file, VERIF / "ocaml" / "sx.ml", VERIF / "ocaml" / "conv.ml"] + extra + [VERIF / "ocaml" / f"{component}_driver.ml"]
    vos = sorted((COQ / "theories").glob("*.vo"))
    stamp = file_digest(srcs + vos)
    stamp_file = gdir / ".stamp"
    if exe.exists() and stamp_file.exists() and stamp_file.read_text() == stamp:
        return True, log
    rc, out = sh(["coqc", "-Q", str(COQ / "theories"), "OJD", "-o", str(gdir / extract_file.replace(".v", ".vo")), str(COQ / "extract" / extract_file)], cwd=gdir)
    log += out
    if rc != 0:
        return False, log
    for s in srcs[1:]:
        (gdir / s.name).write_text(s.read_text())
    rc, out = sh(["ocamlfind", "ocamlopt", "-O3" if False else "-inline", "100", "-w", "-a", "sx.ml", "Model.mli", "Model.ml", "conv.ml"] + [e.name for e in extra] + [f"{component}_driver.ml", "-o", str(exe)], cwd=gdir)
    log += out
    if rc != 0:
        return False, log
    stamp_file.write_text(stamp)
    return True, log


# ---------------------------------------------------------------- known findings
def load_known_findings():
    """KNOWN_FINDINGS.txt: 'finding: property=Cxx predicate=<name> <text>' lines suppress a
    violation whose case satisfies the named predicate of the property module; 'fixed:' lines
    suppress nothing."""
    res = []
    f = VERIF / "KNOWN_FINDINGS.txt"
    if f.exists():
        for line in f.read_text().splitlines():
            m = re.match(r"finding:\s+property=(\w+)\s+predicate=(\w+)\s+(.*)", line)
            if m:
                res.append((m.group(1), m.group(2), m.group(3)))
    return res


# ---------------------------------------------------------------- running cases
_PROP = None


def _worker(args):
    idx, chunk = args
    prop = _PROP
    try:
        return prop.run_chunk(chunk)
    except Exception:
        return {"error": traceback.format_exc(), "n": 0, "mismatches": [], "stats": {}, "hashes": []}


def chunks(it, size):
    buf = []
    for x in it:
        buf.append(x)
        if len(buf) >= size:
            yield buf
            buf = []
    if buf:
        yield buf


def case_hash(case) -> int:
    try:
        text = json.dumps(case, sort_keys=True, default=str)
    except TypeError:          # e.g. mixed key types in a junk document
        text = repr(case)
    return int.from_bytes(hashlib.blake2b(text.encode(), digest_size=8).digest(), "big")


def run_parallel(prop, case_iter, chunk_size=400, max_mismatch=25):
    """Run prop.run_chunk over all cases on NPROC processes (fork)."""
    global _PROP
    _PROP = prop
    total = 0
    stats = Counter()
    hashes = set()
    mismatches = []
    errors = []
    ctx = mp.get_context("fork")
    with ctx.Pool(NPROC) as pool:
        for res in pool.imap_unordered(_worker, enumerate(chunks(case_iter, chunk_size))):
            if res.get("error"):
                errors.append(res["error"])
                continue
            total += res["n"]
            stats.update(res["stats"])
            hashes.update(res["hashes"])
            for m in res["mismatches"]:
                if len(mismatches) < max_mismatch:
                    mismatches.append(m)
    return total, stats, hashes, mismatches, errors


class PropBase:
    """Default chunk runner: impl observable vs model observable, case by case."""

    id = "C00"
    component = ""
    extract_file = ""
    chars = ""            # non-ASCII characters the generators use (class table)
    uses_table = False

    def cases(self, tier, seed):
        raise NotImplementedError

    def impl(self, case):
        raise NotImplementedError

    def requests(self, case):
        """-> list of driver requests for this case"""
        raise NotImplementedError

    def model_obs(self, case, replies):
        raise NotImplementedError

    def nontrivial(self, case) -> bool:
        return True

    def classify_case(self, case, obs):
        return []

    def prelude(self):
        return [class_table(self.chars)] if self.uses_table else []

    def run_chunk(self, chunk):
        drv = Driver(self.component)
        reqs, spans = [], []
        for c in chunk:
            r = self.requests(c)
            spans.append((len(reqs), len(r)))
            reqs.extend(r)
        replies, pre = drv.ask(reqs, self.prelude())
        if self.uses_table and pre and pre[0] != ["table-ok", "true"]:
            return {"error": f"ascii_ok failed on the shipped class table: {pre[0]}", "n": 0, "mismatches": [], "stats": {}, "hashes": []}
        stats = Counter()
        hashes = []
        mism = []
        firsts = []
        for c, (st, n) in zip(chunk, spans):
            io = self.impl(c)
            mo = self.model_obs(c, replies[st:st + n])
            for k in self.classify_case(c, io):
                stats[k] += 1
            if self.nontrivial(c):
                hashes.append(case_hash(c))
            if io != mo:
                mism.append({"case": c, "impl": io, "model": mo})
            firsts.append(io)
        # the implementation's observable is a function of the case alone: a sample of the chunk is run again, in
        # reverse order, in this same process, after everything else the chunk did (whatever a call leaves behind —
        # a cache, a narrowed list, a half-filled memo — shows up as a different answer to the same question)
        if getattr(self, "rerun_check", True) and len(chunk) > 1:
            step = max(1, len(chunk) // 6)
            for k in range(len(chunk) - 1, -1, -step):
                c = chunk[k]
                try:
                    fresh = {kk: vv for kk, vv in c.items() if not str(kk).startswith("_")}
                    again = self.impl(copy.deepcopy(fresh))
                except Exception:  # noqa: BLE001
                    continue
                if again != firsts[k]:
                    mism.append({"case": fresh, "impl": again, "model": ["the same call earlier in this process answered", firsts[k]]})
                    stats["rerun:differs"] += 1
                else:
                    stats["rerun:same"] += 1
        return {"n": len(chunk), "mismatches": mism, "stats": dict(stats), "hashes": hashes}

    # shrinking: property modules may override
    def shrink_candidates(self, case):
        return []

    def still_fails(self, case):
        drv = Driver(self.component)
        replies, _ = drv.ask(self.requests(case), self.prelude())
        return self.impl(case) != self.model_obs(case, replies)

    def shrink(self, case, budget=300):
        cur = case
        improved = True
        while improved and budget > 0:
            improved = False
            try:
                for cand in self.shrink_candidates(cur):
                    budget -= 1
                    if budget <= 0:
                        break
                    try:
                        if self.still_fails(cand):
                            cur = cand
                            improved = True
                            break
                    except Exception:
                        continue
            except Exception:      # a shrinker that cannot handle this case: report the case unshrunk
                break
        return cur

    def spec_obs(self, case):
        """Spec-oracle observable for the replay file (None if the model *is* the spec)."""
        return None

    known_predicates = {}
    theorem_for_mismatch = "model/implementation correspondence"


# ---------------------------------------------------------------- main
def write_evidence(prop, tier, seed, br, total, hashes, stats, samples, wall, violations, rule, exhaustive, extra=None):
    ev = {
        "property_id": prop.id,
        "tier": tier,
        "seed": seed,
        "level": "proof",
        "wall_s": round(wall, 2),
        "violations": violations,
        "coverage": {
            "obligations": max(1, len(br.obligations)),
            "discharged": len(br.discharged),
            "checker_cmd": f"make -C /verif/coq -j{NPROC} props/{prop.id}.vo  (coqc 8.16.1, full .vo build; then coqc props/{prop.id}.v for Print Assumptions)",
            "trusted_base": TRUSTED_BASE + list(getattr(prop, "trusted_extra", [])),
            "theorems": br.obligations,
            "print_assumptions": br.assumptions,
            "forbidden_constructs_found": br.forbidden,
            "generated_digest": br.generated_digest,
            "repo": str(REPO),
            "evaluations": total,
            "distinct_nontrivial": len(hashes),
            "rule": rule,
            "samples": samples[:12],
            "distribution": dict(stats),
            "exhaustive": bool(exhaustive),
        },
        "assumptions": list(getattr(prop, "assumptions", [])),
    }
    if extra:
        ev["coverage"].update(extra)
    (VERIF / "evidence").mkdir(exist_ok=True)
    (VERIF / "evidence" / f"{prop.id}.json").write_text(json.dumps(ev, indent=1, default=str) + "\n")


def write_replay(prop, payload) -> str:
    d = BUILD / "replay"
    d.mkdir(parents=True, exist_ok=True)
    h = hashlib.sha256(json.dumps(payload, sort_keys=True, default=str).encode()).hexdigest()[:12]
    p = d / f"{prop.id}-{h}.json"
    p.write_text(json.dumps(payload, indent=1, default=str) + "\n")
    return str(p)


def main(prop, argv):
    t0 = time.time()
    if len(argv) >= 2 and argv[0] == "--replay":
        return replay(prop, argv[1])
    tier = argv[0] if argv else os.environ.get("VERIF_TIER", "quick")
    seed = int(os.environ.get("VERIF_SEED", "0"))
    br = build(prop.id, prop.component, prop.extract_file)
    coqchk = None
    if tier == "thorough" and br.ok_props:
        # independent re-check of the compiled property file and everything it depends on, with the axiom list
        with build_lock():
            mods = [f"OJDProps.{prop.id}"] + [f"OJDProps.{q.stem}" for q in sorted((COQ / "props").glob(f"{prop.id}x*.v"))]
            rc, out = sh(["timeout", "1700", "coqchk", "-silent", "-o", "-Q", "theories", "OJD", "-Q", "props", "OJDProps"] + mods, cwd=COQ, timeout=1800)
        coqchk = " ".join(out.split())[-1500:]
        if rc != 0:
            br.ok_props = False
            br.failed_theorem = f"coqchk on OJDProps.{prop.id}"
            br.log += out
    violations = []   # (replay payload, tail)
    known_lines = []
    total, stats, hashes, mismatches, errors = 0, Counter(), set(), [], []
    samples = []
    if br.ok_driver:
        corpus = prop.corpus_cases() if hasattr(prop, "corpus_cases") else []

        def all_cases():
            for c in corpus:
                yield c
            for c in prop.cases(tier, seed):
                yield c

        total, stats, hashes, mismatches, errors = run_parallel(prop, all_cases(), chunk_size=getattr(prop, "chunk_size", 400))
        samples = prop.samples(tier, seed) if hasattr(prop, "samples") else []
        # further correspondence streams of the same property on other extracted components
        # (prop.also = [PropBase objects with their own component / driver / generators])
        for sub in getattr(prop, "also", []):
            with build_lock():
                ok_sub, dlog = build_driver(sub.component, sub.extract_file)
            br.log += dlog
            if not ok_sub:
                br.ok_driver = False
                br.failed_theorem = br.failed_theorem or f"extraction/driver build of component {sub.component}"
                continue

            def sub_cases(sub=sub):
                for c in (sub.corpus_cases() if hasattr(sub, "corpus_cases") else []):
                    yield c
                for c in sub.cases(tier, seed):
                    yield c

            t2, s2, h2, m2, e2 = run_parallel(sub, sub_cases(), chunk_size=getattr(sub, "chunk_size", 400))
            total += t2
            stats.update({f"{sub.component}:{k}": v for k, v in s2.items()})
            hashes |= h2
            for m in m2:
                m["_sub"] = sub.component
            mismatches += m2
            errors += e2
    if errors:
        print("HARNESS-ERROR:\n" + errors[0], file=sys.stderr)
    known = [k for k in load_known_findings() if k[0] == prop.id]
    seen_known = set()
    top = prop
    subs = {sub.component: sub for sub in getattr(top, "also", [])}
    for m in mismatches:
        prop = subs.get(m.get("_sub"), top)
        case = prop.shrink(m["case"])
        if case is not m["case"]:
            drv = Driver(prop.component)
            replies, _ = drv.ask(prop.requests(case), prop.prelude())
            m = {"case": case, "impl": prop.impl(case), "model": prop.model_obs(case, replies), "_sub": m.get("_sub")}
        matched = None
        for (_, pred, text) in known:
            fn = prop.known_predicates.get(pred)
            if fn and fn(m):
                matched = (pred, text)
                break
        if matched:
            if matched[0] not in seen_known:
                seen_known.add(matched[0])
                known_lines.append(f"KNOWN-FINDING: property={prop.id} {matched[1]}")
            continue
        payload = {
            "property": prop.id,
            "kind": "correspondence",
            "theorem": prop.theorem_for_mismatch,
            "case": m["case"],
            "implementation": m["impl"],
            "model": m["model"],
            "spec": prop.spec_obs(m["case"]),
            "how_to_replay": f"./check {top.id} --replay <this file>",
        }
        if m.get("_sub"):
            payload["component"] = m["_sub"]
        violations.append((payload, ""))
        if len(violations) >= 5:
            break
    prop = top
    if not br.ok_props or br.forbidden or not br.ok_driver or errors:
        # an obligation no longer checks; a failing input was searched for above
        if not violations:
            what = br.failed_theorem or ("forbidden construct: " + "; ".join(br.forbidden[:3]) if br.forbidden else ("extraction/driver build" if not br.ok_driver else "harness error"))
            payload = {
                "property": prop.id,
                "kind": "obligation",
                "no_longer_checks": what,
                "log_tail": (br.log[-3000:] if not errors else errors[0][-3000:]),
                "searched": f"{total} correspondence cases, no disagreement with the model",
            }
            violations.append((payload, " no-failing-input-found"))
    for l in known_lines:
        print(l)
    rule = prop.rule(tier) if hasattr(prop, "rule") else ""
    exhaustive = getattr(prop, "exhaustive", lambda tier: False)(tier)
    write_evidence(prop, tier, seed, br, total, hashes, stats, samples, time.time() - t0, len(violations), rule, exhaustive,
                   extra={"harness_errors": len(errors), "known_findings_reported": known_lines, **({"coqchk": coqchk} if coqchk else {})})
    for payload, tail in violations:
        path = write_replay(prop, payload)
        print(f"VIOLATION property={prop.id} replay={path}{tail}")
    print(f"[{prop.id}] tier={tier} seed={seed} obligations={len(br.discharged)}/{len(br.obligations)} cases={total} nontrivial-distinct={len(hashes)} violations={len(violations)} wall={time.time()-t0:.1f}s")
    return 1 if violations else 0


def replay(prop, path):
    payload = json.loads(Path(path).read_text())
    if payload.get("kind") == "obligation":
        print(f"replay: proof obligation / build step that no longer checks: {payload.get('no_longer_checks')}")
        br = build(prop.id, prop.component, prop.extract_file)
        print("now:", "checks" if br.ok_props and br.ok_driver else "still failing")
        print(br.log[-2000:])
        return 0 if br.ok_props and br.ok_driver else 1
    top = prop
    for sub in getattr(top, "also", []):
        if payload.get("component") == sub.component:
            prop = sub
    br = build(top.id, prop.component, prop.extract_file, need_props=False)
    case = payload["case"]
    drv = Driver(prop.component)
    replies, _ = drv.ask(prop.requests(case), prop.prelude())
    io = prop.impl(case)
    mo = prop.model_obs(case, replies)
    print("case:          ", json.dumps(case, default=str))
    print("implementation:", json.dumps(io, default=str))
    print("model:         ", json.dumps(mo, default=str))
    print("spec oracle:   ", json.dumps(prop.spec_obs(case), default=str))
    if io != mo:
        print(f"VIOLATION property={top.id} replay={path}")
        return 1
    print("agree")
    return 0
