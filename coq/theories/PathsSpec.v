(* PathsSpec.v — specification of property C11, written from the property text.

   The reading of a POSIX path string used by the specification is stated here directly
   (it is NOT pathlib's parser of Paths.v; PathsProofs.parts_spec shows they agree):
     - the root is decided by the number of leading '/' : none -> relative, exactly two -> "//",
       otherwise "/";
     - the components are the '/'-separated pieces with "" and "." dropped, ".." kept.
   "Lexically inside" a directory = absolute, the directory's parts are a prefix of the
   value's parts, and the value has no ".." component left. *)
From Coq Require Import List NArith Bool.
Import ListNotations.
Require Import OJD.Base OJD.Paths.

Definition prefix {A : Type} (l1 l2 : list A) : Prop := exists r, l2 = l1 ++ r.

Fixpoint prefixb (l1 l2 : list str) : bool :=
  match l1, l2 with
  | [], _ => true
  | x :: xs, y :: ys => str_eqb x y && prefixb xs ys
  | _ :: _, [] => false
  end.

(* number of leading separators *)
Fixpoint lead (p : str) : nat :=
  match p with
  | c :: r => if is_sep c then S (lead r) else 0
  | [] => 0
  end.

Definition root_of_lead (n : nat) : str :=
  match n with
  | 0 => []
  | 2 => [SEP; SEP]
  | _ => [SEP]
  end.

Definition spec_root (p : str) : str := root_of_lead (lead p).
Definition spec_abs (p : str) : bool := negb (Nat.eqb (lead p) 0).
Definition spec_comps (p : str) : list str := filter keep_comp (split_sep p).
Definition spec_parts (p : str) : list str :=
  if is_nil (spec_root p) then spec_comps p else spec_root p :: spec_comps p.

(* the containment guarantee of the property *)
Definition contained (dir v : str) : Prop :=
  spec_abs v = true /\ prefix (spec_parts dir) (spec_parts v) /\ ~ In s_dotdot (spec_parts v).

Definition containedb (dir v : str) : bool :=
  spec_abs v && prefixb (spec_parts dir) (spec_parts v) && negb (mem_str s_dotdot (spec_parts v)).

(* lexical resolution of ".." below a root: ".." removes the last component, and the parent
   of the root is the root *)
Definition resolve_step (st : list str) (c : str) : list str :=
  if is_dotdot c then removelast st else st ++ [c].
Definition resolve (cs : list str) : list str := fold_left resolve_step cs [].

(* where [dir]/[default] points, and whether that is (lexically) inside [dir] *)
Definition lex_target (dir default : str) : list str :=
  resolve (spec_comps dir ++ spec_comps default).
Definition lex_inside (dir default : str) : Prop :=
  prefix (spec_comps dir) (lex_target dir default).

(* canonical text of (root, components): pathlib's str() *)
Definition canon (root : str) (cs : list str) : str :=
  let s := root ++ join_sep cs in if is_nil s then s_dot else s.

(* what the property promises for a defaulted PATH value, walk-up disallowed *)
Definition spec_default (dir default : str) : outcome str :=
  if negb (spec_abs dir) then Raise ValueError
  else if is_nil default then Ok []
  else if spec_abs default then Raise ValueError
  else if prefixb (spec_comps dir) (lex_target dir default)
       then Ok (canon (spec_root dir) (lex_target dir default))
       else Raise ValueError.

(* supplied values: joined to the working directory when relative and non-empty; '.' and
   repeated/trailing separators disappear, '..' stays *)
Definition spec_supplied (cwd v : str) : str :=
  if is_nil v || spec_abs v then v
  else canon (spec_root cwd) (spec_comps cwd ++ spec_comps v).

(* server mode: absolute and empty verbatim, relative ones tidied *)
Definition spec_server (v : str) : str :=
  if is_nil v || spec_abs v then v else canon [] (spec_comps v).

(* ------------------------------------------------------------------ executable oracle for the
   whole observable (PathsProofs.preprocess_spec proves it equal to the model) *)

Definition spec_default_w (dir : str) (walkup : bool) (default : str) : outcome str :=
  if walkup then
    Ok (if negb (is_nil default) && negb (spec_abs default) && spec_abs dir
        then canon (spec_root dir) (lex_target dir default) else default)
  else spec_default dir default.

Definition spec_one (dir cwd : str) (walkup : bool) (p : pparam) : outcome str :=
  match p with
  | PSupplied v => Ok (spec_supplied cwd v)
  | PDefault d => spec_default_w dir walkup d
  | PRequired => Raise ValueError
  end.

Definition spec_preprocess (dir cwd : str) (walkup : bool) (ps : list pparam) : outcome (list str) :=
  match ps with
  | [] => Ok []
  | _ :: _ =>
    if negb walkup && negb (spec_abs dir) then Raise ValueError
    else match mapM (spec_one dir cwd walkup) ps with
         | Ok l => Ok l
         | Raise _ => Raise ValueError
         end
  end.
