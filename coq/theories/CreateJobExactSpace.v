(* CreateJobExactSpace.v — C05_exact: a step's parameterSpace.  The task parameter definitions become a
   dictionary keyed by name (without the name), their ranges are substituted (format strings) or
   printed (numbers); the combination is carried over.

   Canonical numbers.  A STRING item of an INT (FLOAT) range list that Python's int() (Decimal()) accepts is
   stored in the template as that number and written to the Job as str() of it, whereas the specification
   substitutes into the string as written: the two agree when the string is in the form str() prints
   ("5", not "+5" / " 5" / "0_5"; "1.50", not "1.5e0").  [canon_tp] states exactly that. *)
From Coq Require Import List NArith ZArith Bool String Lia.
Import ListNotations.
Require Import OJD.Base OJD.Lexer OJD.Json OJD.Schema OJD.Generated OJD.Charsets OJD.Numerals OJD.NumPrint OJD.NumRoundtrip
               OJD.FormatStr OJD.CreateJob OJD.CreateJobProofs OJD.CreateJobSpec OJD.Parse OJD.Validators OJD.Accept
               OJD.ExportProofs OJD.AcceptMono OJD.DecodeInv OJD.JsonEquiv OJD.CreateJobExactLib OJD.CreateJobExactCarried
               OJD.CreateJobExactParams OJD.CreateJobExactSteps.
Local Open Scope string_scope.
Local Open Scope list_scope.

(* ------------------------------------------------------------------ canonical numeric strings *)
Definition canon_int_item (it : json) : bool :=
  match it with
  | JStr s => match parse_int s with Some z => str_eqb (print_Z z) s | None => true end
  | _ => true
  end.

Definition canon_dec_item (it : json) : bool :=
  match it with
  | JStr s => match parse_dec s with Some (Fin m e) => str_eqb (print_dec m e) s | _ => true end
  | _ => true
  end.

Definition type_text_is (tp : json) (t : string) : bool :=
  match jget "type" tp with JStr s => str_eqb s (str_of_string t) | _ => false end.

Definition canon_tp (tp : json) : bool :=
  match jget "range" tp with
  | JArr l => if type_text_is tp "INT" then forallb canon_int_item l
              else if type_text_is tp "FLOAT" then forallb canon_dec_item l
              else true
  | _ => true
  end.

Definition canon_space (ps : json) : bool := forallb canon_tp (items (jget "taskParameterDefinitions" ps)).

Definition kdisc_task : kind :=
  KDisc "type" [("INT", "IntTaskParameterDefinition"); ("FLOAT", "FloatTaskParameterDefinition");
                ("STRING", "StringTaskParameterDefinition"); ("PATH", "PathTaskParameterDefinition")].

Section Space.
  Variable classify : N -> cclass.
  Hypothesis Hascii : ascii_ok classify = true.
  Variable sigma : symtab.
  Notation resolve := (CreateJobProofs.fs_resolve classify).
  Notation pk := (parse_kind G classify pre_hook (post_hook classify)).
  Notation pc := (parse_cls G classify pre_hook (post_hook classify)).

  (* how one item of a range list was read, with the canonical-form condition where it matters *)
  Definition item_rel (it : json) (m : mval) : Prop :=
    (exists z, it = JInt z /\ m = MInt z) \/
    (exists z, it = JStr (print_Z z) /\ m = MInt z) \/
    (exists s, it = JStr s /\ m = MFmt s) \/
    (exists z, it = JInt z /\ m = MDec z 0) \/
    (exists a e, it = JDec a e /\ m = MDec a e) \/
    (exists a e, it = JStr (print_dec a e) /\ m = MDec a e).

  Lemma range_items_spec : forall rec its l l2,
    Forall2 item_rel its l -> mapM (res_elem resolve sigma rec) l = Ok l2 ->
    mapM (as_text resolve sigma) its = Ok (map (range_item G) l2).
  Proof.
    intros rec its l l2 HF. revert l2. induction HF as [|it m r r' Hr _ IH]; intros l2 H.
    - injection H as <-. reflexivity.
    - cbn [mapM] in H. destruct (res_elem resolve sigma rec m) as [y|e] eqn:Ey; cbn [bind] in H; [|discriminate H].
      destruct (mapM _ r') as [ys|e] eqn:Er; cbn [bind] in H; [|discriminate H]. injection H as <-.
      cbn [mapM map]. rewrite (IH ys eq_refl).
      destruct Hr as [[z [-> ->]]|[[z [-> ->]]|[[s [-> ->]]|[[z [-> ->]]|[[a [e [-> ->]]]|[a [e [-> ->]]]]]]]];
        cbn [res_elem] in Ey; cbn [as_text CreateJobSpec.subst].
      + injection Ey as <-. reflexivity.
      + injection Ey as <-. rewrite (resolve_plain classify Hascii sigma _ (print_Z_okc z)). reflexivity.
      + destruct (resolve sigma s) as [t|e]; cbn [bind] in Ey |- *; [|discriminate Ey]. injection Ey as <-. reflexivity.
      + injection Ey as <-. cbn [bind]. unfold range_item. cbn [coerce_range_item tobj]. rewrite print_dec_int. reflexivity.
      + injection Ey as <-. reflexivity.
      + injection Ey as <-. rewrite (resolve_plain classify Hascii sigma _ (print_dec_okc a e)). reflexivity.
  Qed.

  (* ---- the item kinds ---- *)
  Definition kint_or_fmt : kind :=
    KUnion [UScalar (KInt false None None None); UScalar (KFormat "TaskParameterStringValue" None None CS_any)].
  Definition kdec_or_fmt : kind :=
    KUnion [UScalar KDec; UScalar (KFormat "TaskParameterStringValue" None None CS_any)].
  Definition kfmt_item : kind := KFormat "TaskParameterStringValue" None None CS_any.

  Lemma fmt_item_inv : forall f c lo hi cs it m, pk f (KFormat c lo hi cs) it = Ok m -> exists s, it = JStr s /\ m = MFmt s.
  Proof.
    intros f c lo hi cs it m H. destruct f as [|f]; [discriminate H|]. rewrite parse_kind_S in H. cbn [parse_scalar] in H.
    destruct it as [| | | |s| |]; try discriminate H.
    destruct (len_ok lo hi s && cs_ok cs s && fs_ok classify s); [|discriminate H]. injection H as <-.
    exists s. split; reflexivity.
  Qed.

  Lemma int_item_rel : forall f it m, pk f kint_or_fmt it = Ok m -> raw_int_or_str it = true -> canon_int_item it = true ->
    item_rel it m.
  Proof.
    intros f it m H Hraw Hc. destruct f as [|f]; [discriminate H|]. unfold kint_or_fmt in H. rewrite parse_kind_S in H.
    apply (DecodeInv.try_alts_ok G classify pre_hook (post_hook classify)) in H. destruct H as [a [Ha H]].
    destruct Ha as [<-|[<-|[]]]; cbn [alt_res] in H.
    - destruct f as [|f]; [discriminate H|]. rewrite parse_kind_S in H. cbn [parse_scalar zopt_ok andb] in H.
      destruct it as [| |z| |s| |]; try discriminate Hraw.
      + injection H as <-. left. exists z. split; reflexivity.
      + destruct (parse_int s) as [z|] eqn:Ep; [|discriminate H]. injection H as <-.
        cbn [canon_int_item] in Hc. rewrite Ep in Hc. apply je_str_eqb_eq in Hc. subst s.
        right. left. exists z. split; reflexivity.
    - apply fmt_item_inv in H. destruct H as [s [-> ->]]. right. right. left. exists s. split; reflexivity.
  Qed.

  Lemma dec_item_rel : forall f it m, pk f kdec_or_fmt it = Ok m -> canon_dec_item it = true -> item_rel it m.
  Proof.
    intros f it m H Hc. destruct f as [|f]; [discriminate H|]. unfold kdec_or_fmt in H. rewrite parse_kind_S in H.
    apply (DecodeInv.try_alts_ok G classify pre_hook (post_hook classify)) in H. destruct H as [a [Ha H]].
    destruct Ha as [<-|[<-|[]]]; cbn [alt_res] in H.
    - destruct f as [|f]; [discriminate H|]. rewrite parse_kind_S in H. cbn [parse_scalar] in H.
      destruct it as [| |z|a e|s| |]; try discriminate H.
      + injection H as <-. right. right. right. left. exists z. split; reflexivity.
      + injection H as <-. right. right. right. right. left. exists a, e. split; reflexivity.
      + destruct (parse_dec s) as [[a e| |]|] eqn:Ep; try discriminate H. injection H as <-.
        cbn [canon_dec_item] in Hc. rewrite Ep in Hc. apply je_str_eqb_eq in Hc. subst s.
        right. right. right. right. right. exists a, e. split; reflexivity.
    - apply fmt_item_inv in H. destruct H as [s [-> ->]]. right. right. left. exists s. split; reflexivity.
  Qed.

  Lemma fmt_item_rel : forall f it m, pk f kfmt_item it = Ok m -> item_rel it m.
  Proof. intros f it m H. apply fmt_item_inv in H. destruct H as [s [-> ->]]. right. right. left. exists s. split; reflexivity. Qed.

  Lemma Forall2_item_rel : forall (P : json -> mval -> Prop) (c : json -> bool) its l,
    (forall it m, P it m -> c it = true -> item_rel it m) ->
    Forall2 P its l -> forallb c its = true -> Forall2 item_rel its l.
  Proof.
    intros P c its l Hi HF. induction HF as [|it m r r' Hp _ IH]; intros Hc; constructor.
    - cbn [forallb] in Hc. apply andb_true_iff in Hc. apply Hi; tauto.
    - cbn [forallb] in Hc. apply andb_true_iff in Hc. apply IH. tauto.
  Qed.

  (* ---- a task parameter whose range is a list, once instantiated into [target] ---- *)
  Lemma task_param_list_equiv : forall rec (tp : json) n t its l l2 target,
    (forall a, alias_of G target a = a) ->
    jget "name" tp = JStr n -> leaf t = true -> tobj G t = jget "type" tp ->
    jget "range" tp = JArr its -> Forall2 item_rel its l -> mapM (res_elem resolve sigma rec) l = Ok l2 ->
    exists s, task_param resolve sigma tp = Ok (n, s) /\
              json_equiv (jobj G (MModel target [("type", t); ("range", MList l2)])) s.
  Proof.
    intros rec tp n t its l l2 target Hal Hn Hlt Ht Hr HF Hm.
    unfold task_param. rewrite Hn, Hr. rewrite (range_items_spec rec its l l2 HF Hm). cbn [bind].
    eexists. split; [reflexivity|].
    apply json_equiv_model. unfold jfields. cbn [map fst snd]. rewrite !Hal. unfold jval. cbn [String.eqb Ascii.eqb Bool.eqb].
    rewrite (leaf_jobj G t Hlt), Ht.
    apply (json_equiv_obj_keys [$"type"; $"range"]); [incl_tac|incl_tac|].
    keys_split; jf; apply onn_equiv; apply json_equiv_refl.
  Qed.

  Lemma type_text_of : forall ims k (c' : string) (mp : list (string * string)) s,
    assoc (str_of_string "type") ims = Some (JStr s) ->
    List.find (fun kc : string * string => str_eqb (str_of_string (fst kc)) s) mp = Some (k, c') ->
    forall t, type_text_is (JObj ims) t = String.eqb k t.
  Proof.
    intros ims k c' mp s Ha Hf t. apply find_some in Hf. destruct Hf as [_ Hs]. cbn [fst] in Hs.
    apply je_str_eqb_eq in Hs. subst s. unfold type_text_is. cbn [jget]. rewrite Ha. apply sos_eqb.
  Qed.

  (* ---- one task parameter definition ---- *)
  Theorem task_param_item : forall f F it m k y,
    pk f kdisc_task it = Ok m -> key_of m "name" = Ok k -> mval_depth m < F -> canon_tp it = true ->
    inst_elem (inst G resolve sigma F) m = Ok y ->
    exists s, task_param resolve sigma it = Ok (k, s) /\ json_equiv (jobj G y) s /\ y <> MNone.
  Proof.
    intros f F it m k y H Hk HF Hc Hy. destruct f as [|f]; [discriminate H|]. unfold kdisc_task in H.
    rewrite parse_kind_S in H. unfold disc_res in H.
    destruct it as [| | | | | |ims]; try discriminate H.
    destruct (assoc (str_of_string "type") ims) as [[| | | |ts| |]|] eqn:Ea; try discriminate H.
    destruct (List.find _ _) as [[k' c']|] eqn:Ef; [|discriminate H].
    pose proof (type_text_of ims k' c' _ ts Ea Ef) as Htt.
    apply find_some in Ef. destruct Ef as [Hin _].
    destruct F as [|F]; [lia|].
    destruct Hin as [E|[E|[E|[E|[]]]]]; injection E as <- <-.
    - (* INT *)
      cls_open H. injection Ev as <-. subst m.
      next_field Hm y1 r1 H1. next_field Hm y2 r2 H2. next_field Hm y3 r3 H3. injection Hm as <-.
      apply name_field_inv in H1. destruct H1 as [c [r [-> Hn]]].
      apply field_exact_inv in H2; [|reflexivity|reflexivity]. destruct H2 as [t [-> [Hlt Ht]]].
      apply field_single_inv in H3; [|reflexivity]. destruct H3 as [rg [-> Hrg]].
      cbn [f_name f_kind f_required] in *.
      destruct Hrg as [[_ [_ Hreq]]|[Hrn Hrp]]; [discriminate Hreq|].
      cbn [key_of mfield lookup_s String.eqb Ascii.eqb Bool.eqb] in Hk. injection Hk as <-.
      set (tp := JObj ims) in *.
      match type of Hrp with context [field_raw ims ?fl] => change (field_raw ims fl) with (jget "range" tp) in * end.
      match type of Ht with context [field_raw ims ?fl] => change (field_raw ims fl) with (jget "type" tp) in * end.
      destruct f' as [|f2]; [discriminate Hrp|]. rewrite parse_kind_S in Hrp.
      apply (DecodeInv.try_alts_ok G classify pre_hook (post_hook classify)) in Hrp. destruct Hrp as [a [Ha Hrp]].
      cbn [inst_elem] in Hy.
      destruct Ha as [<-|[<-|[]]]; cbn [alt_res] in Hrp.
      + (* a list *)
        unfold list_items in Hrp. destruct (jget "range" tp) as [| | | | |its|] eqn:Er; try discriminate Hrp.
        destruct (len_ok_n _ _ _); [|discriminate Hrp].
        destruct (mapM _ its) as [l|e] eqn:Em; cbn [bind] in Hrp; [|discriminate Hrp]. injection Hrp as <-.
        apply mapM_Forall2 in Em.
        change (pre_hook "IntTaskParameterDefinition" tp)
          with (match jget "range" tp with JArr items => forallb raw_int_or_str items | _ => true end) in Hpre.
        rewrite Er in Hpre.
        unfold canon_tp in Hc. rewrite Er in Hc. rewrite (Htt "INT") in Hc. cbn [String.eqb Ascii.eqb Bool.eqb] in Hc.
        assert (HFi : Forall2 item_rel its l).
        { clear - Em Hpre Hc Hascii. revert Hpre Hc. induction Em as [|it m r r' Hp _ IH]; intros Hpre Hc; constructor.
          - cbn [forallb] in Hpre, Hc. apply andb_true_iff in Hpre. apply andb_true_iff in Hc.
            apply (int_item_rel f2 it m Hp); tauto.
          - cbn [forallb] in Hpre, Hc. apply andb_true_iff in Hpre. apply andb_true_iff in Hc. apply IH; tauto. }
        rewrite shape_IntTaskParam_list in Hy by exact Hlt.
        destruct (mapM _ l) as [l2|e] eqn:El; cbn [bind] in Hy; [|discriminate Hy]. injection Hy as <-.
        destruct (task_param_list_equiv _ tp (c :: r) t its l l2 "IntRangeListTaskParameterDefinition"
                                        alias_IntRangeList Hn Hlt Ht Er HFi El) as [s [Hs He]].
        exists s. split; [exact Hs|]. split; [exact He|discriminate].
      + (* a range expression *)
        apply fmt_item_inv in Hrp. destruct Hrp as [s [Er ->]].
        rewrite shape_IntTaskParam_expr in Hy by exact Hlt.
        destruct (resolve sigma s) as [rs|e] eqn:Ers; cbn [bind] in Hy; [|discriminate Hy]. injection Hy as <-.
        unfold task_param. rewrite Hn, Er. cbn [CreateJobSpec.subst]. rewrite Ers. cbn [bind].
        eexists. split; [reflexivity|]. split; [|discriminate].
        model_members. rewrite (leaf_jobj G t Hlt), Ht.
        apply (json_equiv_obj_keys [$"type"; $"range"]); [incl_tac|incl_tac|].
        keys_split; jf; apply onn_equiv; apply json_equiv_refl.
    - (* FLOAT *)
      cls_open H. injection Ev as <-. subst m.
      next_field Hm y1 r1 H1. next_field Hm y2 r2 H2. next_field Hm y3 r3 H3. injection Hm as <-.
      apply name_field_inv in H1. destruct H1 as [c [r [-> Hn]]].
      apply field_exact_inv in H2; [|reflexivity|reflexivity]. destruct H2 as [t [-> [Hlt Ht]]].
      apply (field_list_inv classify _ _ _ (Some 1%N) (Some 1024%N)) in H3; [|reflexivity]. destruct H3 as [rg [-> Hrg]].
      cbn [f_name f_kind f_required] in *.
      destruct Hrg as [[_ [_ Hreq]]|[its [l [Er [-> Em]]]]]; [discriminate Hreq|].
      cbn [key_of mfield lookup_s String.eqb Ascii.eqb Bool.eqb] in Hk. injection Hk as <-.
      set (tp := JObj ims) in *.
      match type of Er with context [field_raw ims ?fl] => change (field_raw ims fl) with (jget "range" tp) in * end.
      match type of Ht with context [field_raw ims ?fl] => change (field_raw ims fl) with (jget "type" tp) in * end.
      cbn [inst_elem] in Hy.
      unfold canon_tp in Hc. rewrite Er in Hc. rewrite (Htt "INT"), (Htt "FLOAT") in Hc. cbn [String.eqb Ascii.eqb Bool.eqb] in Hc.
      assert (HFi : Forall2 item_rel its l)
        by (exact (Forall2_item_rel _ canon_dec_item its l (dec_item_rel f') Em Hc)).
      rewrite (shape_TaskParam resolve sigma F "FloatTaskParameterDefinition") in Hy; [|in_tac|exact Hlt].
      destruct (mapM _ l) as [l2|e] eqn:El; cbn [bind] in Hy; [|discriminate Hy]. injection Hy as <-.
      destruct (task_param_list_equiv _ tp (c :: r) t its l l2 "FloatRangeListTaskParameterDefinition"
                                      alias_FloatRangeList Hn Hlt Ht Er HFi El) as [s [Hs He]].
      exists s. split; [exact Hs|]. split; [exact He|discriminate].
    - (* STRING *)
      cls_open H. injection Ev as <-. subst m.
      next_field Hm y1 r1 H1. next_field Hm y2 r2 H2. next_field Hm y3 r3 H3. injection Hm as <-.
      apply name_field_inv in H1. destruct H1 as [c [r [-> Hn]]].
      apply field_exact_inv in H2; [|reflexivity|reflexivity]. destruct H2 as [t [-> [Hlt Ht]]].
      apply (field_list_inv classify _ _ _ (Some 1%N) (Some 1024%N)) in H3; [|reflexivity]. destruct H3 as [rg [-> Hrg]].
      cbn [f_name f_kind f_required] in *.
      destruct Hrg as [[_ [_ Hreq]]|[its [l [Er [-> Em]]]]]; [discriminate Hreq|].
      cbn [key_of mfield lookup_s String.eqb Ascii.eqb Bool.eqb] in Hk. injection Hk as <-.
      set (tp := JObj ims) in *.
      match type of Er with context [field_raw ims ?fl] => change (field_raw ims fl) with (jget "range" tp) in * end.
      match type of Ht with context [field_raw ims ?fl] => change (field_raw ims fl) with (jget "type" tp) in * end.
      cbn [inst_elem] in Hy.
      assert (HFi : Forall2 item_rel its l)
        by (exact (Forall2_item_rel _ (fun _ => true) its l (fun it m Hp _ => fmt_item_rel f' it m Hp) Em
                                    (proj2 (forallb_forall _ _) (fun _ _ => eq_refl)))).
      rewrite (shape_TaskParam resolve sigma F "StringTaskParameterDefinition") in Hy; [|in_tac|exact Hlt].
      destruct (mapM _ l) as [l2|e] eqn:El; cbn [bind] in Hy; [|discriminate Hy]. injection Hy as <-.
      destruct (task_param_list_equiv _ tp (c :: r) t its l l2 "RangeListTaskParameterDefinition"
                                      alias_RangeList Hn Hlt Ht Er HFi El) as [s [Hs He]].
      exists s. split; [exact Hs|]. split; [exact He|discriminate].
    - (* PATH *)
      cls_open H. injection Ev as <-. subst m.
      next_field Hm y1 r1 H1. next_field Hm y2 r2 H2. next_field Hm y3 r3 H3. injection Hm as <-.
      apply name_field_inv in H1. destruct H1 as [c [r [-> Hn]]].
      apply field_exact_inv in H2; [|reflexivity|reflexivity]. destruct H2 as [t [-> [Hlt Ht]]].
      apply (field_list_inv classify _ _ _ (Some 1%N) (Some 1024%N)) in H3; [|reflexivity]. destruct H3 as [rg [-> Hrg]].
      cbn [f_name f_kind f_required] in *.
      destruct Hrg as [[_ [_ Hreq]]|[its [l [Er [-> Em]]]]]; [discriminate Hreq|].
      cbn [key_of mfield lookup_s String.eqb Ascii.eqb Bool.eqb] in Hk. injection Hk as <-.
      set (tp := JObj ims) in *.
      match type of Er with context [field_raw ims ?fl] => change (field_raw ims fl) with (jget "range" tp) in * end.
      match type of Ht with context [field_raw ims ?fl] => change (field_raw ims fl) with (jget "type" tp) in * end.
      cbn [inst_elem] in Hy.
      assert (HFi : Forall2 item_rel its l)
        by (exact (Forall2_item_rel _ (fun _ => true) its l (fun it m Hp _ => fmt_item_rel f' it m Hp) Em
                                    (proj2 (forallb_forall _ _) (fun _ _ => eq_refl)))).
      rewrite (shape_TaskParam resolve sigma F "PathTaskParameterDefinition") in Hy; [|in_tac|exact Hlt].
      destruct (mapM _ l) as [l2|e] eqn:El; cbn [bind] in Hy; [|discriminate Hy]. injection Hy as <-.
      destruct (task_param_list_equiv _ tp (c :: r) t its l l2 "RangeListTaskParameterDefinition"
                                      alias_RangeList Hn Hlt Ht Er HFi El) as [s [Hs He]].
      exists s. split; [exact Hs|]. split; [exact He|discriminate].
  Qed.

  (* ---- the parameter space ---- *)
  Theorem param_space_equiv : forall f raw x F y,
    raw <> JNull -> canon_space raw = true ->
    pk f (KModel "StepParameterSpaceDefinition") raw = Ok x -> mval_depth x < F -> inst G resolve sigma F x = Ok y ->
    exists s, param_space resolve sigma raw = Ok s /\ json_equiv (jobj G y) s /\ y <> MNone /\ s <> JNull.
  Proof.
    intros f raw x F y _ Hc H HF Hy. destruct f as [|f]; [discriminate H|]. rewrite parse_kind_S in H.
    cls_open H. subst raw x.
    next_field Hm y1 r1 H1. next_field Hm y2 r2 H2. injection Hm as <-.
    apply (field_list_inv classify _ _ _ (Some 1%N) (Some 16%N)) in H1; [|reflexivity]. destruct H1 as [tpd [-> Htpd]].
    apply field_exact_inv in H2; [|reflexivity|reflexivity]. destruct H2 as [cb [-> [Hlc Hcb]]].
    cbn [f_name f_kind f_required] in *.
    destruct Htpd as [[_ [_ Hreq]]|[its [l [Er [-> HFl]]]]]; [discriminate Hreq|].
    set (ps := JObj ms) in *.
    match type of Er with context [field_raw ms ?fl] => change (field_raw ms fl) with (jget "taskParameterDefinitions" ps) in * end.
    match type of Hcb with context [field_raw ms ?fl] => change (field_raw ms fl) with (jget "combination" ps) in * end.
    destruct F as [|F]; [lia|].
    set (t := MModel "StepParameterSpaceDefinition" _) in *.
    assert (Dl : mval_depth (MList l) < mval_depth t) by (apply (field_depth_lt _ _ "taskParameterDefinitions"); in_tac).
    subst t.
    rewrite shape_ParamSpace in Hy; [|reflexivity|exact Hlc].
    destruct (keyed (inst G resolve sigma F) "name" (MList l)) as [d|e] eqn:Ek; cbn [bind] in Hy; [|discriminate Hy].
    injection Hy as <-.
    assert (Hnd : nodupb (map (fun m => mstr (fget "name" (model_fields m))) l) = true).
    { change (post_hook classify "StepParameterSpaceDefinition" ps
                        [("taskParameterDefinitions", MList l); ("combination", cb)])
        with (nodupb (names_of (MList l))
              && match cb with
                 | MStr s0 => match Comb.parse_str classify s0 with
                              | Ok t0 => Comb.accounting false (names_of (MList l)) (Comb.collect_ids t0)
                              | Raise _ => false
                              end
                 | _ => true
                 end) in Hpost.
      apply andb_true_iff in Hpost. exact (proj1 Hpost). }
    unfold canon_space in Hc. rewrite Er in Hc. cbn [items] in Hc.
    assert (Hitem : forall it m k y0,
               pk f' kdisc_task it = Ok m /\ mval_depth m < F /\ canon_tp it = true -> key_of m "name" = Ok k ->
               inst_elem (inst G resolve sigma F) m = Ok y0 ->
               exists s0, task_param resolve sigma it = Ok (k, s0) /\ json_equiv (jobj G y0) s0 /\ y0 <> MNone).
    { intros it m k y0 [Hq1 [Hq2 Hq3]] Hk Hy0. exact (task_param_item f' F it m k y0 Hq1 Hk Hq2 Hq3 Hy0). }
    destruct (keyed_dict_equiv (inst G resolve sigma F) "name"
                (fun it m => pk f' kdisc_task it = Ok m /\ mval_depth m < F /\ canon_tp it = true)
                (task_param resolve sigma) Hitem its l d) as [tps [Htps1 Htps2]].
    - assert (Hdl : forall m, In m l -> mval_depth m < F) by (intros m Hm; pose proof (item_depth l m Hm); lia).
      clear - HFl Hdl Hc. revert Hc. induction HFl as [|it m r r' Hp _ IH]; intros Hc; constructor.
      + cbn [forallb] in Hc. apply andb_true_iff in Hc. repeat split; [exact Hp|apply Hdl; left; reflexivity|tauto].
      + cbn [forallb] in Hc. apply andb_true_iff in Hc. apply IH; [|tauto]. intros m' Hm'. apply Hdl. right. exact Hm'.
    - exact Hnd.
    - exact Ek.
    - unfold param_space. change (match ps with JNull => Ok JNull | _ => ?b end) with b.
      rewrite Er. change (items (JArr its)) with its. rewrite Htps1. cbn [bind].
      eexists. split; [reflexivity|]. split; [|split; discriminate].
      model_members. rewrite (leaf_jobj G cb Hlc), Hcb.
      eapply json_equiv_meq_r; [cbn [app]; meq_tac|].
      apply (json_equiv_obj_keys [$"taskParameterDefinitions"; $"combination"]); [incl_tac|incl_tac|].
      keys_split; jf; apply onn_equiv; [exact Htps2|apply json_equiv_refl].
  Qed.
End Space.
