(* Json.v — JSON/YAML documents as the models see them, and Coq-string helpers.
   Definitions only. *)
From Coq Require Import List NArith ZArith Bool String Ascii.
Import ListNotations.
Require Import OJD.Base.

(* Python values a JSON/YAML parser produces.  Numbers: ints as [JInt], finite non-integers as
   [JDec m e] = m * 10^e (the harness converts floats through Decimal(str(x)), the route pydantic
   itself takes); object keys are strings (a non-string key anywhere is outside this type: the
   top-level case is rejected before any model code runs, see C04). *)
Inductive json : Type :=
| JNull
| JBool (b : bool)
| JInt (z : Z)
| JDec (m e : Z)
| JStr (s : str)
| JArr (l : list json)
| JObj (members : list (str * json)).

Fixpoint assoc {A} (k : str) (l : list (str * A)) : option A :=
  match l with
  | [] => None
  | (k', v) :: r => if str_eqb k k' then Some v else assoc k r
  end.

(* Coq string literal -> code points *)
Fixpoint str_of_string (s : string) : str :=
  match s with
  | EmptyString => []
  | String c r => N_of_ascii c :: str_of_string r
  end.
Notation "'$' s" := (str_of_string s) (at level 1, format "'$' s").

(* dict.get(name, None): a missing key and an explicit null are the same *)
Definition jget (name : string) (j : json) : json :=
  match j with
  | JObj ms => match assoc (str_of_string name) ms with Some v => v | None => JNull end
  | _ => JNull
  end.

Definition is_null (j : json) : bool := match j with JNull => true | _ => false end.

Fixpoint json_depth (j : json) : nat :=
  match j with
  | JArr l => S (fold_right (fun x acc => Nat.max (json_depth x) acc) O l)
  | JObj ms => S (fold_right (fun kv acc => Nat.max (json_depth (snd kv)) acc) O ms)
  | _ => 1
  end.

Fixpoint str_prefix (p s : str) : bool :=
  match p, s with
  | [], _ => true
  | x :: xs, y :: ys => N.eqb x y && str_prefix xs ys
  | _, [] => false
  end.

Definition starts_with_bar (s : string) : bool :=
  match s with String c _ => N.eqb (N_of_ascii c) 124 | _ => false end.
Definition drop1 (s : string) : string := match s with String _ r => r | _ => s end.
