(* props/C08.v — a range expression denotes exactly the integers it spells out.
   All theorems are about the flag-off instance of the model (= the code in /repo now), at
   token level, for ALL token lists; the lexer is shared (Lexer.v) and enters only C08_errors.
   Accepts ts es  :=  Renders es ts /\ Forall elem_ok es /\ Pairwise disjoint (map span es)
   (RangeExprSpec.v: the grammar, the validity of each written element, pairwise disjoint spans). *)
From Coq Require Import List NArith ZArith Permutation.
Import ListNotations.
Require Import OJD.Base OJD.Lexer OJD.RangeExpr OJD.RangeExprSpec OJD.RangeExprProofs.
Local Open Scope Z_scope.

(* "1-10:2,12-20:2" *)
Definition w1 : list tok :=
  [TPosInt 1; THyphen; TPosInt 10; TColon; TPosInt 2; TComma; TPosInt 12; THyphen; TPosInt 20; TColon; TPosInt 2].
(* "5-3" *)
Definition w2 : list tok := [TPosInt 5; THyphen; TPosInt 3].
(* "10-1:-3,0" *)
Definition w3 : list tok :=
  [TPosInt 10; THyphen; TPosInt 1; TColon; THyphen; TPosInt 3; TComma; TPosInt 0].

(* accepted  <->  grammar /\ every element valid /\ spans pairwise disjoint *)
Theorem C08_accept_iff :
  forall ts, (exists e, parse_tokens false false ts = Ok e) <-> (exists es, Accepts ts es).
Proof. exact accept_iff. Qed.
Print Assumptions C08_accept_iff.

Example C08_accept_iff_nonvacuous :
  (exists e, parse_tokens false false w1 = Ok e) /\ (exists es, Accepts w3 es) /\
  ~ (exists e, parse_tokens false false w2 = Ok e).
Proof.
  split; [eexists; vm_compute; reflexivity|]. split.
  - assert (H : spec_from_tokens w3 = Some [0; 1; 4; 7; 10]) by (vm_compute; reflexivity).
    apply spec_from_tokens_iff in H. destruct H as (es & H & _). exists es; exact H.
  - intros (e & H). vm_compute in H. discriminate H.
Qed.

(* the written elements are determined by the token list, so "es" below is THE list written *)
Theorem C08_written_elements_unique :
  forall ts es es', Renders es ts -> Renders es' ts -> es = es'.
Proof. exact Renders_functional. Qed.
Print Assumptions C08_written_elements_unique.

(* an accepted expression contains exactly the union of the written progressions, every value once *)
Theorem C08_denotation :
  forall ts e es, parse_tokens false false ts = Ok e -> Accepts ts es ->
    Permutation (elems e) (concat (map denote es)) /\ NoDup (elems e).
Proof. exact denotation. Qed.
Print Assumptions C08_denotation.

Example C08_denotation_nonvacuous :
  exists e es, parse_tokens false false w1 = Ok e /\ Accepts w1 es /\
               elems e = [1; 3; 5; 7; 9; 12; 14; 16; 18; 20].
Proof.
  assert (H : spec_from_tokens w1 = Some [1; 3; 5; 7; 9; 12; 14; 16; 18; 20]) by (vm_compute; reflexivity).
  apply spec_from_tokens_iff in H. destruct H as (es & H & _).
  eexists. exists es. split; [vm_compute; reflexivity|]. split; [exact H|]. vm_compute. reflexivity.
Qed.

(* every rejection — lexer included — is in the ExpressionError family: never ValueError,
   IndexError (empty constructor argument) or RuntimeError (fuel of the model's loop) *)
Theorem C08_errors :
  forall cls s e, from_str false false cls s = Raise e -> is_expression_error e = true.
Proof. exact errors. Qed.
Print Assumptions C08_errors.

Example C08_errors_nonvacuous :
  from_str false false ascii_class [53; 45; 51]%N = Raise ExpressionError /\     (* "5-3" *)
  from_str false false ascii_class [49; 120]%N = Raise TokenError /\             (* "1x"  *)
  from_str false false ascii_class [49; 45; 51; 44; 51]%N = Raise ExpressionError. (* "1-3,3" *)
Proof. repeat split; vm_compute; reflexivity. Qed.

(* the executable oracle used by the harness on a disagreement is the declarative spec *)
Theorem C08_oracle :
  forall ts l, spec_from_tokens ts = Some l <->
               exists es, Accepts ts es /\ l = sortZ (concat (map denote es)).
Proof. exact spec_from_tokens_iff. Qed.
Print Assumptions C08_oracle.

(* ---- regression documentation: the pinned (pre-fix) behaviours violate the property ---- *)

(* defect #1 (fixed by e6dc5aa): merge tested the written end *)
Theorem C08_pinned_merge_refuted :
  exists ts l l', spec_from_tokens ts = Some l /\
    option_map (fun e => elems e) (match parse_tokens true false ts with Ok e => Some e | _ => None end) = Some l' /\ l <> l'.
Proof. exists w1. eexists. eexists. split; [vm_compute; reflexivity|]. split; [vm_compute; reflexivity|]. discriminate. Qed.
Print Assumptions C08_pinned_merge_refuted.

(* defect #2 (fixed by 768b936): IntRange(a, b, 1) built outside the try: "5-3" -> bare ValueError *)
Theorem C08_pinned_try_refuted :
  exists s e, from_str false true ascii_class s = Raise e /\ is_expression_error e = false.
Proof. exists [53; 45; 51]%N, ValueError. split; vm_compute; reflexivity. Qed.
Print Assumptions C08_pinned_try_refuted.
