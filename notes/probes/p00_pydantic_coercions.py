# Which JSON/YAML value kinds does pydantic 1.10 accept for each *field kind used by the schema*, and as what?
import warnings; warnings.filterwarnings("ignore")
from decimal import Decimal
from enum import Enum
from typing import Literal, Optional, Union
import datetime
from pydantic import BaseModel, Extra, StrictBool, StrictInt, PositiveInt, PositiveFloat, conint, constr, conlist, ValidationError
from openjd.model._format_strings import FormatString
class E(str, Enum): A = "A"; B = "B"
class FS1(FormatString): _min_length = 1
KINDS = {
  "strict constr": constr(min_length=1, max_length=4, strict=True), "lax constr": constr(min_length=0, max_length=4), "plain str": str,
  "FormatString": FS1, "StrictInt": StrictInt, "int": int, "PositiveInt": PositiveInt, "conint 1..600": conint(ge=1, le=600),
  "Decimal": Decimal, "StrictBool": StrictBool, "PositiveFloat": PositiveFloat, "Literal[E.A]": Literal[E.A], "Enum E": E,
  "Union[int,FS]": Union[int, FormatString], "Union[Decimal,FS]": Union[Decimal, FormatString], "list[lax constr]": list[constr(max_length=4)],
  "conlist(int,1..2)": conlist(int, min_items=1, max_items=2), "dict[constr,FS]": dict[constr(min_length=1, regex=r"^[a-z]+\Z"), FormatString],
}
VALUES = [None, True, False, 0, 1, -1, 601, 1.0, 1.5, float("nan"), float("inf"), "", "A", "a", "1", " 1 ", "1.0", "1.5", "1e2", "NaN", "abcde", "{{x}}", "{{", b"A" if False else "é",
          [], [1], [1, 2, 3], ["a"], (1,), {}, {"a": "b"}, {"A": 1}, {1: "b"}, 10**30, datetime.date(2001, 1, 1)]
def show(v):
    if isinstance(v, Decimal): return f"Decimal({v})"
    if isinstance(v, Enum): return f"E.{v.name}"
    if isinstance(v, FormatString): return f"FS({str(v)!r})"
    return repr(v)
print("| kind | " + " | ".join(repr(v) for v in VALUES) + " |")
for name, ty in KINDS.items():
    M = type("M", (BaseModel,), {"__annotations__": {"f": ty}, "Config": type("Config", (), {"extra": Extra.forbid})})
    MO = type("MO", (BaseModel,), {"__annotations__": {"f": Optional[ty]}, "f": None})
    row = []
    for v in VALUES:
        try: r = show(M(f=v).f)
        except ValidationError as e: r = "✗"
        except Exception as e: r = "EXC:" + type(e).__name__
        row.append(r)
    try: opt = show(MO(f=None).f)
    except Exception as e: opt = "EXC"
    print(f"| {name} | " + " | ".join(row) + f" |  (Optional+None -> {opt})")
