(* UsableSpec.v — "a Job that is returned is usable", written from the text of property C06:

     "... and every Job that is returned can be iterated and graphed without error":
     its parameter spaces can be iterated (StepParameterSpaceIterator: construction, len(), obj[i],
     iteration), its step dependency graph can be built and sorted (StepDependencyGraph:
     construction, topo_sorted()).

   The two consumers are the models of C07 (ParamSpace.v) and C15 (DepGraph.v); UsableGlue.v reads
   the Job into their inputs.  Nothing here mentions templates, instantiation or validators. *)
From Coq Require Import List NArith ZArith Bool String Permutation.
Import ListNotations.
Require Import OJD.Base OJD.Lexer OJD.Json OJD.CreateJob OJD.ParamSpace OJD.ParamSpaceSpec
               OJD.DepGraph OJD.DepGraphSpec OJD.Validators OJD.UsableGlue.

(* ------------------------------------------------------------------ (a) one parameter space *)

(* the task parameter sets of the space, in iteration order (C07's denotation) *)
Definition top_denote (tp : top) : list env :=
  match tp with
  | TopList l => l
  | TopNode t => denote t
  end.

(* the expression tree the constructor built is well formed in the sense of C07: every leaf has at
   least one value, every parameter is named exactly once, the operands of every association have
   the same number of elements ("dimensions balanced"); no space = the list [{}] *)
Definition space_ok (tp : top) : Prop :=
  match tp with
  | TopList l => l = none_denote
  | TopNode t => valid t
  end.

(* what a caller of the iterator object observes:
     len(obj) is defined and is the number n >= 1 of task parameter sets;
     obj[i] is defined for -n <= i < n (and is the i-th set);
     list(obj): a fresh iterator hands out exactly n sets — the sets of the space, in order — and
     then raises StopIteration; no other exception, and the model's fuel is not exhausted *)
Definition iterates (tp : top) : Prop :=
  let n := List.length (top_denote tp) in
  (0 < n)%nat /\
  top_len tp = Ok (Z.of_nat n) /\
  (forall i, (- Z.of_nat n <= i < Z.of_nat n)%Z ->
     exists e, top_getitem tp i = Ok e /\
               e ≈ nth (Z.to_nat (i mod Z.of_nat n)) (top_denote tp) []) /\
  (forall bound, (n < bound)%nat ->
     exists l, drain false bound (top_iter tp) = (l, Some StopIteration, true) /\
               List.length l = n /\ Forall2 env_equiv l (top_denote tp)).

(* StepParameterSpaceIterator(space=psv) for the value [psv] of step.parameterSpace:
     the glue reads the space          — the combination parses (Comb.parse_str), every range is a list of
                                         strings or a range expression that parses (RangeExpr.from_str);
     the constructor returns           — every leaf of the combination names a declared task parameter
                                         (no KeyError from self._parameters[name]);
     the tree is well formed           — [space_ok];
     and the object can be used        — [iterates]. *)
Definition usable_space (classify : N -> cclass) (psv : mval) : Prop :=
  exists sp tp,
    read_space classify psv = Ok sp /\
    sps_init sp = Ok tp /\
    space_ok tp /\
    iterates tp.

(* ------------------------------------------------------------------ (b) the step dependency graph *)

(* StepDependencyGraph(job=job) and .topo_sorted():
     no two steps share a name and no dependency names an unknown step ([well_named]: the constructor
     raises no KeyError and overwrites no key);
     the constructor returns a graph [gr] and topo_sorted returns an order in which every step occurs
     exactly once, after all the steps it depends on — the documented stable order *)
Definition usable_graph (job : mval) : Prop :=
  let g := job_graph job in
  well_named g /\
  exists gr order,
    build g = Ok gr /\
    topo gr = Ok order /\
    Permutation order (DepGraphSpec.names g) /\
    (forall n d, In d (deps_of g n) -> before d n order) /\
    order = stable_order g.

(* ------------------------------------------------------------------ the Job *)

(* the value is a Job instance with a list of steps (so the glue reads the real thing) *)
Definition is_job (job : mval) : Prop :=
  exists fs steps, job = MModel "Job" fs /\ mfield "steps" fs = MList steps.

Definition usable_job (classify : N -> cclass) (job : mval) : Prop :=
  is_job job /\
  (forall st, In st (job_steps job) -> usable_space classify (step_space st)) /\
  usable_graph job.
