(* AcceptSound.v — the C01 direction: the schema read from the live classes accepts no more than the
   frozen 2023-09 table, hence every accepted document is well-formed.  Kept apart from
   AcceptComplete.v so that a LOOSENED limit in the code breaks only this file (C01) and a
   TIGHTENED one only the other (C02). *)
From Coq Require Import List NArith ZArith Bool String Lia Permutation.
Import ListNotations.
Require Import OJD.Base OJD.Lexer OJD.Json OJD.Schema OJD.Generated OJD.SchemaSpec OJD.SchemaOrder
               OJD.Charsets OJD.Numerals OJD.FormatStr OJD.FsRefs OJD.CreateJob OJD.RangeExpr OJD.Comb
               OJD.CombProofs OJD.ScopeWalk OJD.DepGraph OJD.Parse OJD.Validators OJD.Accept
               OJD.WF OJD.AcceptMono OJD.AcceptRules OJD.AcceptCap OJD.AcceptProofs.
Local Open Scope string_scope.
Local Open Scope list_scope.


Theorem table_le_code_spec : schema_le Generated.schema spec_schema = true.
Proof. vm_compute. reflexivity. Qed.

(* whatever the code accepts, the frozen table accepts (same validators), with the same value *)
Theorem structural_code_spec : forall classify j v,
  decode_job classify j = Ok v -> decode_job_on spec_schema classify j = Ok v.
Proof.
  intros classify j v H. rewrite (decode_job_on_code classify j) in H.
  exact (decode_job_on_mono _ _ classify j v table_le_code_spec H).
Qed.

Theorem structural_env_code_spec : forall classify j v,
  decode_env classify j = Ok v -> decode_env_on spec_schema classify j = Ok v.
Proof.
  intros classify j v H. rewrite (decode_env_on_code classify j) in H.
  exact (decode_env_on_mono _ _ classify j v table_le_code_spec H).
Qed.

Section Docs.
Variable classify : N -> cclass.

(* C01: whatever decode_job_template accepts is well-formed *)
Theorem job_sound : forall j v, decode_job classify j = Ok v -> WFdoc classify "JobTemplate" j.
Proof.
  intros j v H. apply structural_code_spec in H. apply WFdoc_iff_spec_parse.
  unfold decode_job_on in H. destruct j; try discriminate H.
  destruct (version_ok Generated.job_template_versions (JObj members)); [|discriminate H].
  exists v. exact H.
Qed.

Theorem env_sound : forall j v, decode_env classify j = Ok v -> WFdoc classify "EnvironmentTemplate" j.
Proof.
  intros j v H. apply structural_env_code_spec in H. apply WFdoc_iff_spec_parse.
  unfold decode_env_on in H. destruct j; try discriminate H.
  destruct (version_ok Generated.env_template_versions (JObj members)); [|discriminate H].
  exists v. exact H.
Qed.

(* breaking a rule (at any visited object) makes decoding reject: contrapositive of soundness *)
Theorem job_flip : forall j, ~ WFdoc classify "JobTemplate" j -> forall v, decode_job classify j <> Ok v.
Proof. intros j Hn v H. apply Hn. exact (job_sound j v H). Qed.

Theorem env_flip : forall j, ~ WFdoc classify "EnvironmentTemplate" j -> forall v, decode_env classify j <> Ok v.
Proof. intros j Hn v H. apply Hn. exact (env_sound j v H). Qed.
End Docs.
