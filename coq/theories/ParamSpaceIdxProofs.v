(* ParamSpaceIdxProofs.v — the length-tree arithmetic (ParamSpaceIdx.v) is the value-list model
   (ParamSpace.v) with the values forgotten: for EVERY tree, [llen (shape t) = node_len t] and
   [lindex (shape t) i] raises exactly when [getitem t i] does and otherwise lists, entry by entry
   and in the same order, the position of the value that [getitem t i] holds.  Plus the closed
   form of pure products (mixed-radix digits). *)
From Coq Require Import ZArith List Bool Lia ZifyBool Arith.
Import ListNotations.
Require Import OJD.Base OJD.ParamSpace OJD.ParamSpaceSpec OJD.ParamSpaceProofs
               OJD.ParamSpaceIdx OJD.ParamSpaceIdxSpec.
Ltac Zify.zify_post_hook ::= Z.to_euclidean_division_equations.
Local Open Scope Z_scope.

(* ================================================================== induction on length trees *)
Section LtreeInd.
  Variable P : ltree -> Prop.
  Hypothesis HL : forall n l, P (LLeaf n l).
  Hypothesis HP : forall cs, Forall P cs -> P (LProd cs).
  Hypothesis HA : forall cs, Forall P cs -> P (LAssoc cs).
  Fixpoint ltree_ind2 (t : ltree) : P t :=
    match t with
    | LLeaf n l => HL n l
    | LProd cs => HP cs ((fix go (l : list ltree) : Forall P l :=
                            match l with [] => Forall_nil P | c :: r => Forall_cons c (ltree_ind2 c) (go r) end) cs)
    | LAssoc cs => HA cs ((fix go (l : list ltree) : Forall P l :=
                             match l with [] => Forall_nil P | c :: r => Forall_cons c (ltree_ind2 c) (go r) end) cs)
    end.
End LtreeInd.

(* ================================================================== dicts *)
Lemma set_is_gset : forall e k v, set e k v = gset e k v.
Proof.
  induction e as [|[k' v'] e IH]; intros k v; [reflexivity|].
  cbn [set gset]. rewrite IH. reflexivity.
Qed.

Lemma update_is_gupdate : forall s e, update e s = gupdate e s.
Proof.
  unfold update, gupdate. induction s as [|kv s IH]; intros e; [reflexivity|].
  cbn [fold_left]. rewrite set_is_gset. apply IH.
Qed.

Section Rel.
  Variables A B : Type.
  Variable R : str * A -> str * B -> Prop.
  Hypothesis Rkey : forall x y, R x y -> fst x = fst y.

  Lemma gset_rel : forall e p k v j,
    Forall2 R e p -> R (k, v) (k, j) -> Forall2 R (gset e k v) (gset p k j).
  Proof.
    intros e p k v j H. induction H as [|[k1 v1] [k2 v2] e p Hxy Hr IH]; intros Hk.
    - cbn [gset]. constructor; [exact Hk | constructor].
    - pose proof (Rkey _ _ Hxy) as Ek. cbn [fst] in Ek. subst k2.
      cbn [gset]. destruct (str_eqb k k1) eqn:E.
      + apply str_eqb_eq in E. subst k1. constructor; [exact Hk | exact Hr].
      + constructor; [exact Hxy | apply IH; exact Hk].
  Qed.

  Lemma gupdate_rel : forall s q e p,
    Forall2 R s q -> Forall2 R e p -> Forall2 R (gupdate e s) (gupdate p q).
  Proof.
    unfold gupdate. intros s q e p H. revert e p.
    induction H as [|[k1 v1] [k2 v2] s q Hxy Hr IH]; intros e p Hep; [exact Hep|].
    pose proof (Rkey _ _ Hxy) as Ek. cbn [fst] in Ek. subst k2.
    cbn [fold_left fst snd]. apply IH. apply gset_rel; assumption.
  Qed.
End Rel.

Lemma Forall2_impl : forall (A B : Type) (R S : A -> B -> Prop) l l',
  (forall x y, R x y -> S x y) -> Forall2 R l l' -> Forall2 S l l'.
Proof. intros A B R S l l' H F. induction F; constructor; auto. Qed.

(* ================================================================== len *)
Lemma llen_loop_shape : forall cs acc,
  Forall (fun c => llen (shape c) = node_len c) cs ->
  llen_loop llen (map shape cs) acc = len_loop node_len cs acc.
Proof.
  induction cs as [|c cs IH]; intros acc H; [reflexivity|].
  inversion H as [|? ? Hc Hr]; subst. cbn [map llen_loop len_loop]. rewrite Hc.
  destruct (node_len c) as [n|x]; cbn [bind]; [apply IH; exact Hr | reflexivity].
Qed.

Theorem llen_shape : forall t, llen (shape t) = node_len t.
Proof.
  induction t as [n ty vs | cs IH | cs IH] using node_ind2.
  - reflexivity.
  - cbn [shape llen node_len]. apply llen_loop_shape. exact IH.
  - destruct cs as [|c cs]; [reflexivity|]. cbn [shape map llen node_len].
    inversion IH as [|? ? Hc _]; subst. exact Hc.
Qed.

(* ================================================================== getitem *)
Lemma Ent_key : forall t x y, Ent t x y -> fst x = fst y.
Proof. intros t x y [H _]. exact H. Qed.

Lemma Ent_child_prod : forall cs c x y, In c cs -> Ent c x y -> Ent (Prod cs) x y.
Proof.
  intros cs c x y Hin [Hk [vs [Hl Hr]]]. split; [exact Hk|]. exists vs. split; [|exact Hr].
  cbn [leaves]. apply in_flat_map. exists c. split; assumption.
Qed.

Lemma Ent_child_assoc : forall cs c x y, In c cs -> Ent c x y -> Ent (Assoc cs) x y.
Proof.
  intros cs c x y Hin [Hk [vs [Hl Hr]]]. split; [exact Hk|]. exists vs. split; [|exact Hr].
  cbn [leaves]. apply in_flat_map. exists c. split; assumption.
Qed.

(* the correspondence at one node, for a relation R between value entries and position entries *)
Definition CorrR (R : str * pval -> str * Z -> Prop) (c : node) : Prop := forall i,
  match lindex (shape c) i with
  | Ok p => exists e, getitem c i = Ok e /\ Forall2 R e p
  | Raise x => getitem c i = Raise x
  end.

Section Loops.
  Variable R : str * pval -> str * Z -> Prop.
  Hypothesis Rkey : forall x y, R x y -> fst x = fst y.

  Lemma prod_tail_corr : forall cs, Forall (CorrR R) cs ->
    forall index res pres, Forall2 R res pres ->
    match lprod_tail lindex (map shape cs) index pres with
    | Ok qp => exists e, prod_get_tail getitem cs index res = Ok (fst qp, e) /\ Forall2 R e (snd qp)
    | Raise x => prod_get_tail getitem cs index res = Raise x
    end.
  Proof.
    induction cs as [|c cs IH]; intros H index res pres Hres.
    - cbn [map lprod_tail prod_get_tail fst snd]. exists res. split; [reflexivity | exact Hres].
    - inversion H as [|? ? Hc Hr]; subst. specialize (IH Hr index res pres Hres).
      cbn [map lprod_tail prod_get_tail].
      destruct (lprod_tail lindex (map shape cs) index pres) as [[q p]|x] eqn:Et; cbn [bind fst snd] in *.
      + destruct IH as [e1 [E1 F1]]. rewrite E1. cbn [bind fst snd]. rewrite llen_shape.
        destruct (node_len c) as [cl|x]; cbn [bind]; [|reflexivity].
        destruct (cl =? 0) eqn:Ez; [reflexivity|].
        specialize (Hc (q mod cl)).
        destruct (lindex (shape c) (q mod cl)) as [pe|x]; cbn [bind fst snd].
        * destruct Hc as [e [Ee Fe]]. rewrite Ee. cbn [bind]. eexists. split; [reflexivity|].
          rewrite update_is_gupdate. apply gupdate_rel; assumption.
        * rewrite Hc. reflexivity.
      + rewrite IH. reflexivity.
  Qed.

  Lemma prod_get_corr : forall cs, Forall (CorrR R) cs -> forall index,
    match lprod_get lindex (map shape cs) index with
    | Ok p => exists e, prod_get getitem cs index = Ok e /\ Forall2 R e p
    | Raise x => prod_get getitem cs index = Raise x
    end.
  Proof.
    intros [|c0 rest] H index.
    - cbn. exists []. split; [reflexivity | constructor].
    - inversion H as [|? ? Hc Hr]; subst. cbn [map lprod_get prod_get].
      pose proof (prod_tail_corr rest Hr index [] [] (Forall2_nil R)) as T.
      destruct (lprod_tail lindex (map shape rest) index []) as [[q p]|x]; cbn [bind fst snd] in *.
      + destruct T as [e1 [E1 F1]]. rewrite E1. cbn [bind fst snd].
        specialize (Hc q). destruct (lindex (shape c0) q) as [pe|x]; cbn [bind].
        * destruct Hc as [e [Ee Fe]]. rewrite Ee. cbn [bind]. eexists. split; [reflexivity|].
          rewrite update_is_gupdate. apply gupdate_rel; assumption.
        * rewrite Hc. reflexivity.
      + rewrite T. reflexivity.
  Qed.

  Lemma assoc_get_corr : forall cs, Forall (CorrR R) cs ->
    forall i res pres, Forall2 R res pres ->
    match lassoc_get lindex (map shape cs) i pres with
    | Ok p => exists e, assoc_get getitem cs i res = Ok e /\ Forall2 R e p
    | Raise x => assoc_get getitem cs i res = Raise x
    end.
  Proof.
    induction cs as [|c cs IH]; intros H i res pres Hres.
    - cbn. exists res. split; [reflexivity | exact Hres].
    - inversion H as [|? ? Hc Hr]; subst. cbn [map lassoc_get assoc_get].
      specialize (Hc i). destruct (lindex (shape c) i) as [pe|x]; cbn [bind].
      + destruct Hc as [e [Ee Fe]]. rewrite Ee. cbn [bind]. apply (IH Hr).
        rewrite update_is_gupdate. apply gupdate_rel; assumption.
      + rewrite Hc. reflexivity.
  Qed.
End Loops.

Lemma CorrR_impl : forall (R S : str * pval -> str * Z -> Prop) c,
  (forall x y, R x y -> S x y) -> CorrR R c -> CorrR S c.
Proof.
  intros R S c H Hc i. specialize (Hc i). destruct (lindex (shape c) i) as [p|x]; [|exact Hc].
  destruct Hc as [e [Ee F]]. exists e. split; [exact Ee | eapply Forall2_impl; eassumption].
Qed.

Lemma leaf_pos_spec : forall (vs : list value) i,
  match leaf_pos (Z.of_nat (length vs)) i with
  | Ok j => 0 <= j < Z.of_nat (length vs) /\ py_index vs i = Ok (nth (Z.to_nat j) vs [])
  | Raise x => py_index vs i = Raise x
  end.
Proof.
  intros vs i. unfold leaf_pos, py_index.
  set (len := Z.of_nat (length vs)). set (j := if i <? 0 then len + i else i).
  destruct ((0 <=? j) && (j <? len)) eqn:T; [|reflexivity].
  assert (Hj : 0 <= j < len) by lia. split; [exact Hj|].
  rewrite (nth_error_nth' vs []) by (unfold len in Hj; lia). reflexivity.
Qed.

(* EVERY tree (no assumption on names, lengths or arities) and every index *)
Theorem lindex_getitem_rel : forall t i,
  match lindex (shape t) i with
  | Ok pos => exists env, getitem t i = Ok env /\ Forall2 (Ent t) env pos
  | Raise x => getitem t i = Raise x
  end.
Proof.
  induction t as [n ty vs | cs IH | cs IH] using node_ind2; intros i.
  - cbn [shape lindex getitem]. pose proof (leaf_pos_spec vs i) as L.
    destruct (leaf_pos (Z.of_nat (length vs)) i) as [j|x]; cbn [bind].
    + destruct L as [Hj Ej]. rewrite Ej. cbn [bind]. eexists. split; [reflexivity|].
      constructor; [|constructor]. split; [reflexivity|]. exists vs. cbn [fst snd leaves].
      split; [left; reflexivity|]. split; [exact Hj | reflexivity].
    + rewrite L. reflexivity.
  - assert (Hch : Forall (CorrR (Ent (Prod cs))) cs).
    { rewrite Forall_forall in *. intros c Hc. apply (CorrR_impl (Ent c)); [|exact (IH c Hc)].
      intros x y. apply Ent_child_prod. exact Hc. }
    cbn [getitem]. change (lindex (shape (Prod cs)) i) with
      (do len <- llen (shape (Prod cs));
       let j := if i <? 0 then len + i else i in
       if (0 <=? j) && (j <? len) then lprod_get lindex (map shape cs) j else Raise IndexError).
    rewrite llen_shape. destruct (node_len (Prod cs)) as [len|x]; cbn [bind]; [|reflexivity].
    cbv zeta. set (j := if i <? 0 then len + i else i).
    destruct ((0 <=? j) && (j <? len)); [|reflexivity].
    apply (prod_get_corr _ (Ent_key (Prod cs)) cs Hch j).
  - assert (Hch : Forall (CorrR (Ent (Assoc cs))) cs).
    { rewrite Forall_forall in *. intros c Hc. apply (CorrR_impl (Ent c)); [|exact (IH c Hc)].
      intros x y. apply Ent_child_assoc. exact Hc. }
    cbn [shape lindex getitem].
    apply (assoc_get_corr _ (Ent_key (Assoc cs)) cs Hch i [] [] (Forall2_nil _)).
Qed.

(* ================================================================== distinct names: positions -> values *)
Lemma value_at_leaf : forall t n ty vs j, NoDup (names t) -> In (n, ty, vs) (leaves t) ->
  value_at t n j = (ty, nth (Z.to_nat j) vs []).
Proof.
  intros t n ty vs j ND Hin. unfold value_at.
  rewrite <- names_of_leaves in ND.
  pose proof (find_param_in (leaves t) (n, ty, vs) ND Hin) as E. unfold pname in E. cbn [fst] in E.
  rewrite E. reflexivity.
Qed.

Lemma Ent_env_at : forall t env pos, NoDup (names t) -> Forall2 (Ent t) env pos -> env = env_at t pos.
Proof.
  intros t env pos ND F. induction F as [|[n [ty v]] [m j] env pos Hxy _ IH]; [reflexivity|].
  unfold env_at. cbn [map fst snd]. fold (env_at t pos). rewrite <- IH.
  destruct Hxy as [Hk [vs [Hl [_ Hv]]]]. cbn [fst snd] in *. subst m.
  rewrite (value_at_leaf t n ty vs j ND Hl). rewrite Hv. reflexivity.
Qed.

(* positions always lie inside the range of a leaf of that name (every tree) *)
Theorem lindex_in_range : forall t i pos, lindex (shape t) i = Ok pos ->
  Forall (fun np => exists ty vs, In (fst np, ty, vs) (leaves t) /\ 0 <= snd np < Z.of_nat (length vs)) pos.
Proof.
  intros t i pos E. pose proof (lindex_getitem_rel t i) as H. rewrite E in H.
  destruct H as [env [_ F]]. clear E. induction F as [|x y env pos Hxy _ IH]; constructor; [|exact IH].
  destruct Hxy as [Hk [vs [Hl [Hr _]]]]. exists (fst (snd x)), vs. rewrite <- Hk. split; assumption.
Qed.

(* distinct parameter names: obj[i] is the dict of positions read through the leaves' ranges *)
Theorem lindex_getitem : forall t i, NoDup (names t) ->
  getitem t i = match lindex (shape t) i with
                | Ok pos => Ok (env_at t pos)
                | Raise x => Raise x
                end.
Proof.
  intros t i ND. pose proof (lindex_getitem_rel t i) as H.
  destruct (lindex (shape t) i) as [pos|x]; [|exact H].
  destruct H as [env [E F]]. rewrite E. f_equal. apply Ent_env_at; assumption.
Qed.

Theorem lindex_getitem_iff : forall t i, NoDup (names t) ->
  (forall env, getitem t i = Ok env <-> exists pos, lindex (shape t) i = Ok pos /\ env = env_at t pos) /\
  (forall x, getitem t i = Raise x <-> lindex (shape t) i = Raise x).
Proof.
  intros t i ND. rewrite (lindex_getitem t i ND). destruct (lindex (shape t) i) as [pos|y]; split.
  - intros env. split.
    + intros E. inversion E; subst. exists pos. split; reflexivity.
    + intros [pos' [E ->]]. inversion E; subst. reflexivity.
  - intros x. split; intros E; discriminate E.
  - intros env. split; [intros E; discriminate E | intros [pos [E _]]; discriminate E].
  - intros x. split; intros E; inversion E; reflexivity.
Qed.

(* valid trees: through C07_getitem, the positions select the (i mod len)-th set of the denotation *)
Theorem lindex_denote : forall t i, valid t ->
  let len := Z.of_nat (length (denote t)) in
  llen (shape t) = Ok len /\
  (- len <= i < len ->
     exists pos, lindex (shape t) i = Ok pos /\ getitem t i = Ok (env_at t pos) /\
                 env_at t pos ≈ nth (Z.to_nat (i mod len)) (denote t) []) /\
  (~ (- len <= i < len) -> lindex (shape t) i = Raise IndexError).
Proof.
  intros t i V len. pose proof V as [ND W].
  destruct (getitem_correct t i V) as [Hin Hout]. fold len in Hin, Hout.
  pose proof (lindex_getitem t i ND) as G.
  split; [rewrite llen_shape; apply len_correct; exact V|]. split; intros H.
  - destruct (Hin H) as [e [Ee Q]]. rewrite Ee in G.
    destruct (lindex (shape t) i) as [pos|x]; [|discriminate G].
    inversion G; subst. exists pos. split; [reflexivity|]. split; [exact Ee | exact Q].
  - rewrite (Hout H) in G. destruct (lindex (shape t) i) as [pos|x]; [discriminate G|].
    inversion G; reflexivity.
Qed.

(* ================================================================== the keys of the position dict *)
Definition pkeys {A : Type} (e : list (str * A)) : list str := map fst e.

Lemma pkeys_gset : forall (A : Type) (e : list (str * A)) k v x,
  In x (pkeys (gset e k v)) <-> In x (pkeys e) \/ x = k.
Proof.
  intros A. induction e as [|[k' v'] e IH]; intros k v x; cbn [gset pkeys map fst In].
  - split; [intros [H|[]]; right; symmetry; exact H | intros [[]|H]; left; symmetry; exact H].
  - destruct (str_eqb k k') eqn:E; cbn [map fst In].
    + apply str_eqb_eq in E. subst k'. fold (pkeys e). split; [tauto|]. intros [H|H]; [exact H | left; symmetry; exact H].
    + fold (pkeys (gset e k v)) (pkeys e). rewrite IH. tauto.
Qed.

Lemma NoDup_gset : forall (A : Type) (e : list (str * A)) k v, NoDup (pkeys e) -> NoDup (pkeys (gset e k v)).
Proof.
  intros A. induction e as [|[k' v'] e IH]; intros k v H; cbn [gset].
  - cbn. constructor; [intros [] | constructor].
  - cbn [pkeys map fst] in H. inversion H as [|? ? Hn Hd]; subst. fold (pkeys e) in Hn, Hd.
    destruct (str_eqb k k') eqn:E; cbn [pkeys map fst].
    + constructor; assumption.
    + fold (pkeys (gset e k v)). constructor; [|apply IH; exact Hd].
      rewrite pkeys_gset. intros [Hx|Hx]; [contradiction|]. subst k'. rewrite str_eqb_refl in E. discriminate E.
Qed.

Lemma pkeys_gupdate : forall (A : Type) (s e : list (str * A)) x,
  In x (pkeys (gupdate e s)) <-> In x (pkeys e) \/ In x (pkeys s).
Proof.
  intros A. unfold gupdate. induction s as [|[k v] s IH]; intros e x; cbn [fold_left fst snd].
  - cbn. tauto.
  - rewrite IH, pkeys_gset. cbn [pkeys map fst In]. fold (pkeys s). split; intros H; [|destruct H as [H|[H|H]]; auto].
    destruct H as [[H|H]|H]; auto.
Qed.

Lemma NoDup_gupdate : forall (A : Type) (s e : list (str * A)), NoDup (pkeys e) -> NoDup (pkeys (gupdate e s)).
Proof.
  intros A. unfold gupdate. induction s as [|[k v] s IH]; intros e H; [exact H|].
  cbn [fold_left fst snd]. apply IH. apply NoDup_gset. exact H.
Qed.

Definition KeysOK (c : ltree) : Prop := forall i p, lindex c i = Ok p ->
  NoDup (pkeys p) /\ forall n, In n (pkeys p) <-> In n (lnames c).

Lemma lprod_tail_keys : forall cs, Forall KeysOK cs -> forall index res q p,
  NoDup (pkeys res) -> lprod_tail lindex cs index res = Ok (q, p) ->
  NoDup (pkeys p) /\ forall n, In n (pkeys p) <-> In n (pkeys res) \/ In n (flat_map lnames cs).
Proof.
  induction cs as [|c cs IH]; intros H index res q p Hres E.
  - cbn in E. inversion E; subst. split; [exact Hres|]. intros n. cbn. tauto.
  - inversion H as [|? ? Hc Hr]; subst. cbn [lprod_tail] in E.
    destruct (lprod_tail lindex cs index res) as [[q1 p1]|x] eqn:Et; cbn [bind fst snd] in E; [|discriminate E].
    destruct (IH Hr index res q1 p1 Hres Et) as [N1 K1].
    destruct (llen c) as [cl|x]; cbn [bind] in E; [|discriminate E].
    destruct (cl =? 0); [discriminate E|].
    destruct (lindex c (q1 mod cl)) as [pe|x] eqn:Ec; cbn [bind] in E; [|discriminate E].
    inversion E; subst. destruct (Hc _ _ Ec) as [_ Kc].
    split; [apply NoDup_gupdate; exact N1|]. intros n. rewrite pkeys_gupdate, K1, Kc.
    cbn [flat_map]. rewrite in_app_iff. tauto.
Qed.

Lemma lassoc_get_keys : forall cs, Forall KeysOK cs -> forall i res p,
  NoDup (pkeys res) -> lassoc_get lindex cs i res = Ok p ->
  NoDup (pkeys p) /\ forall n, In n (pkeys p) <-> In n (pkeys res) \/ In n (flat_map lnames cs).
Proof.
  induction cs as [|c cs IH]; intros H i res p Hres E.
  - cbn in E. inversion E; subst. split; [exact Hres|]. intros n. cbn. tauto.
  - inversion H as [|? ? Hc Hr]; subst. cbn [lassoc_get] in E.
    destruct (lindex c i) as [pe|x] eqn:Ec; cbn [bind] in E; [|discriminate E].
    destruct (Hc _ _ Ec) as [_ Kc].
    destruct (IH Hr i _ p (NoDup_gupdate _ pe res Hres) E) as [N1 K1].
    split; [exact N1|]. intros n. rewrite K1, pkeys_gupdate, Kc. cbn [flat_map]. rewrite in_app_iff. tauto.
Qed.

(* every leaf gets a position and nothing else does; a name is never listed twice (every length tree) *)
Theorem lindex_keys : forall c i p, lindex c i = Ok p ->
  NoDup (pkeys p) /\ forall n, In n (pkeys p) <-> In n (lnames c).
Proof.
  induction c as [n l | cs IH | cs IH] using ltree_ind2; intros i p E.
  - cbn [lindex] in E. destruct (leaf_pos l i) as [j|x]; cbn [bind] in E; [|discriminate E].
    inversion E; subst. cbn. split; [constructor; [intros [] | constructor] | tauto].
  - cbn [lindex] in E. destruct (llen (LProd cs)) as [len|x]; cbn [bind] in E; [|discriminate E].
    cbv zeta in E. destruct ((0 <=? (if i <? 0 then len + i else i)) && ((if i <? 0 then len + i else i) <? len)); [|discriminate E].
    destruct cs as [|c0 rest]; cbn [lprod_get] in E.
    + inversion E; subst. cbn. split; [constructor | tauto].
    + inversion IH as [|? ? H0 Hr]; subst.
      destruct (lprod_tail lindex rest (if i <? 0 then len + i else i) []) as [[q1 p1]|x] eqn:Et; cbn [bind fst snd] in E; [|discriminate E].
      destruct (lprod_tail_keys rest Hr _ [] q1 p1 (NoDup_nil _) Et) as [N1 K1].
      destruct (lindex c0 q1) as [pe|x] eqn:Ec; cbn [bind] in E; [|discriminate E].
      inversion E; subst. destruct (H0 _ _ Ec) as [_ Kc].
      split; [apply NoDup_gupdate; exact N1|]. intros n. rewrite pkeys_gupdate, K1, Kc.
      cbn [lnames flat_map pkeys map In]. rewrite in_app_iff. tauto.
  - cbn [lindex] in E. destruct (lassoc_get_keys cs IH i [] p (NoDup_nil _) E) as [N1 K1].
    split; [exact N1|]. intros n. rewrite K1. cbn. tauto.
Qed.

Lemma lnames_shape : forall t, lnames (shape t) = names t.
Proof.
  induction t as [n ty vs | cs IH | cs IH] using node_ind2; [reflexivity| |];
    cbn [shape lnames names]; induction IH as [|c cs Hc _ IHl]; cbn [map flat_map]; try reflexivity;
    rewrite Hc, IHl; reflexivity.
Qed.

(* ================================================================== no division by zero *)
Lemma llen_loop_nonzero : forall cs acc v, llen_loop llen cs acc = Ok v -> v <> 0 ->
  Forall (fun c => exists l, llen c = Ok l /\ l <> 0) cs.
Proof.
  induction cs as [|c cs IH]; intros acc v E Hv; [constructor|].
  cbn [llen_loop] in E. destruct (llen c) as [n|x] eqn:En; cbn [bind] in E; [|discriminate E].
  assert (Hz : forall cs acc, llen_loop llen cs acc = Ok v -> acc <> 0).
  { clear - Hv. induction cs as [|c cs IH]; intros acc E; cbn [llen_loop] in E.
    - inversion E; subst. exact Hv.
    - destruct (llen c) as [n|x]; cbn [bind] in E; [|discriminate E]. specialize (IH _ E). nia. }
  constructor; [|apply (IH _ _ E Hv)]. exists n. split; [exact En|]. specialize (Hz _ _ E). nia.
Qed.

Definition NoZD (c : ltree) : Prop := forall i, lindex c i <> Raise RuntimeError.

Lemma lprod_tail_no_zd : forall cs,
  Forall (fun c => (exists l, llen c = Ok l /\ l <> 0) /\ NoZD c) cs ->
  forall index res, lprod_tail lindex cs index res <> Raise RuntimeError.
Proof.
  induction cs as [|c cs IH]; intros H index res; [discriminate|].
  inversion H as [|? ? [[l [El Hl]] Hc] Hr]; subst. cbn [lprod_tail].
  destruct (lprod_tail lindex cs index res) as [ir|x] eqn:Et; cbn [bind].
  - rewrite El. cbn [bind]. destruct (l =? 0) eqn:Ez; [lia|].
    destruct (lindex c (fst ir mod l)) as [e|x] eqn:Eg; cbn [bind]; [discriminate|].
    intro HX. inversion HX; subst. apply (Hc _ Eg).
  - intro HX. inversion HX; subst. apply (IH Hr index res Et).
Qed.

Lemma llen_loop_raise : forall cs acc e,
  Forall (fun c => forall e, llen c = Raise e -> e = IndexError) cs ->
  llen_loop llen cs acc = Raise e -> e = IndexError.
Proof.
  induction cs as [|c cs IH]; intros acc e H E; [discriminate|].
  inversion H as [|? ? Hc Hr]; subst. cbn [llen_loop] in E. destruct (llen c) as [n|x] eqn:En; cbn [bind] in E.
  - apply (IH _ _ Hr E).
  - inversion E; subst. apply Hc. reflexivity.
Qed.

Lemma llen_raise : forall t e, llen t = Raise e -> e = IndexError.
Proof.
  induction t as [n l | cs IH | cs IH] using ltree_ind2; intros e E.
  - discriminate.
  - cbn [llen] in E. apply (llen_loop_raise cs 1 e IH E).
  - destruct cs as [|c cs]; cbn [llen] in E; [inversion E; reflexivity|]. inversion IH as [|? ? Hc _]; subst. apply Hc. exact E.
Qed.

(* ZeroDivisionError (modelled as RuntimeError) is unreachable for every length tree, negative
   "lengths" included: past the bounds test the product of the child lengths is not zero *)
Theorem lindex_no_zero_division : forall t i, lindex t i <> Raise RuntimeError.
Proof.
  induction t as [n l | cs IH | cs IH] using ltree_ind2; intros i.
  - cbn [lindex]. destruct (leaf_pos l i) as [j|x] eqn:E; cbn [bind]; [discriminate|].
    unfold leaf_pos in E. destruct ((0 <=? (if i <? 0 then l + i else i)) && ((if i <? 0 then l + i else i) <? l)); inversion E. discriminate.
  - cbn [lindex]. destruct (llen (LProd cs)) as [len|x] eqn:EL; cbn [bind].
    + cbv zeta. set (j := if i <? 0 then len + i else i).
      destruct ((0 <=? j) && (j <? len)) eqn:T; [|discriminate].
      cbn [llen] in EL. pose proof (llen_loop_nonzero cs 1 len EL ltac:(lia)) as F.
      assert (Hch : Forall (fun c => (exists l, llen c = Ok l /\ l <> 0) /\ NoZD c) cs).
      { rewrite Forall_forall in *. intros c Hc. split; [apply F; exact Hc | exact (IH c Hc)]. }
      destruct cs as [|c0 rest]; cbn [lprod_get]; [discriminate|].
      inversion Hch as [|? ? [_ H0] Hr]; subst.
      destruct (lprod_tail lindex rest j []) as [ir|x] eqn:Et; cbn [bind].
      * destruct (lindex c0 (fst ir)) as [e|x] eqn:Eg; cbn [bind]; [discriminate|].
        intro HX. inversion HX; subst. apply (H0 _ Eg).
      * intro HX. inversion HX; subst. apply (lprod_tail_no_zd rest Hr j [] Et).
    + intro HX. inversion HX; subst. apply llen_raise in EL. discriminate EL.
  - cbn [lindex]. generalize (@nil (str * Z)) as res. induction IH as [|c cs Hc _ IHl]; intros res; cbn [lassoc_get]; [discriminate|].
    destruct (lindex c i) as [e|x] eqn:Eg; cbn [bind]; [apply IHl|].
    intro HX. inversion HX; subst. apply (Hc _ Eg).
Qed.

(* ================================================================== mixed radix *)
Lemma zprod_cons : forall l ls, zprod (l :: ls) = l * zprod ls.
Proof. reflexivity. Qed.

Lemma zprod_pos : forall lens, Forall (fun l => 0 < l) lens -> 0 < zprod lens.
Proof.
  induction lens as [|l ls IH]; intros H; [cbn; lia|].
  inversion H as [|? ? Hl Hr]; subst. rewrite zprod_cons. specialize (IH Hr). nia.
Qed.

Lemma radix_length : forall lens j, length (radix lens j) = length lens.
Proof. induction lens as [|l ls IH]; intros j; cbn [radix length]; [reflexivity | rewrite IH; reflexivity]. Qed.

Lemma radix_range : forall lens j, Forall (fun l => 0 < l) lens ->
  Forall2 (fun d l => 0 <= d < l) (radix lens j) lens.
Proof.
  induction lens as [|l ls IH]; intros j H; cbn [radix]; [constructor|].
  inversion H as [|? ? Hl Hr]; subst. constructor; [apply Z.mod_pos_bound; exact Hl | apply IH; exact Hr].
Qed.

Lemma horner_radix : forall lens j, Forall (fun l => 0 < l) lens ->
  horner lens (radix lens j) = j mod zprod lens.
Proof.
  induction lens as [|l ls IH]; intros j H.
  - cbn [radix horner zprod fold_right]. rewrite Z.mod_1_r. reflexivity.
  - inversion H as [|? ? Hl Hr]; subst. cbn [radix horner]. rewrite (IH j Hr), zprod_cons.
    pose proof (zprod_pos ls Hr) as HP.
    rewrite (Z.mul_comm l (zprod ls)), Z.rem_mul_r by lia. ring.
Qed.

Lemma horner_bound : forall lens ds, Forall2 (fun d l => 0 <= d < l) ds lens ->
  0 <= horner lens ds < zprod lens.
Proof.
  intros lens ds F. induction F as [|d l ds ls Hd _ IH].
  - cbn. lia.
  - cbn [horner]. rewrite zprod_cons. nia.
Qed.

Lemma radix_shift : forall lens j k, Forall (fun l => 0 < l) lens ->
  radix lens (j + k * zprod lens) = radix lens j.
Proof.
  induction lens as [|l ls IH]; intros j k H; [reflexivity|].
  inversion H as [|? ? Hl Hr]; subst. pose proof (zprod_pos ls Hr) as HP.
  cbn [radix]. rewrite zprod_cons.
  replace (j + k * (l * zprod ls)) with (j + (k * l) * zprod ls) by ring.
  rewrite (IH j (k * l) Hr). f_equal.
  rewrite Z.div_add by lia. apply Z.mod_add. lia.
Qed.

Lemma radix_horner : forall lens ds, Forall2 (fun d l => 0 <= d < l) ds lens ->
  radix lens (horner lens ds) = ds.
Proof.
  intros lens ds F. induction F as [|d l ds ls Hd Fr IH]; [reflexivity|].
  assert (Hpos : Forall (fun l => 0 < l) ls).
  { clear - Fr. induction Fr as [|d l ds ls Hd _ IH]; constructor; [lia | exact IH]. }
  pose proof (zprod_pos ls Hpos) as HP. pose proof (horner_bound ls ds Fr) as HB.
  cbn [horner radix]. f_equal.
  - rewrite (Z.add_comm (d * zprod ls)), Z.div_add by lia. rewrite (Z.div_small (horner ls ds)) by lia.
    apply Z.mod_small. lia.
  - rewrite (Z.add_comm (d * zprod ls)), radix_shift by exact Hpos. exact IH.
Qed.

(* the digits of j: the unique list of in-range digits whose nested multiply-add is j *)
Theorem radix_spec : forall lens j, Forall (fun l => 0 < l) lens -> 0 <= j < zprod lens ->
  Forall2 (fun d l => 0 <= d < l) (radix lens j) lens /\
  horner lens (radix lens j) = j /\
  forall ds, Forall2 (fun d l => 0 <= d < l) ds lens -> horner lens ds = j -> ds = radix lens j.
Proof.
  intros lens j H Hj. split; [apply radix_range; exact H|]. split.
  - rewrite horner_radix by exact H. apply Z.mod_small. exact Hj.
  - intros ds F E. rewrite <- E. symmetry. apply radix_horner. exact F.
Qed.

(* ================================================================== pure products: closed form *)
Lemma llen_loop_leaves : forall nls acc,
  llen_loop llen (map lleaf_of nls) acc = Ok (acc * zprod (map snd nls)).
Proof.
  induction nls as [|[n l] nls IH]; intros acc.
  - cbn. f_equal. lia.
  - cbn [map llen_loop lleaf_of llen bind fst snd]. rewrite IH, zprod_cons. f_equal. ring.
Qed.

Lemma gset_fresh : forall (A : Type) (e : list (str * A)) k v, ~ In k (pkeys e) -> gset e k v = e ++ [(k, v)].
Proof.
  intros A. induction e as [|[k' v'] e IH]; intros k v H; [reflexivity|].
  cbn [gset]. cbn [pkeys map fst In] in H. destruct (str_eqb k k') eqn:E.
  - apply str_eqb_eq in E. exfalso. apply H. left. symmetry. exact E.
  - cbn [app]. f_equal. apply IH. intro Hin. apply H. right. exact Hin.
Qed.

Lemma leaf_pos_in : forall l j, 0 <= j < l -> leaf_pos l j = Ok j.
Proof.
  intros l j H. unfold leaf_pos. destruct (j <? 0) eqn:E; [lia|].
  destruct ((0 <=? j) && (j <? l)) eqn:T; [reflexivity | lia].
Qed.

Lemma in_pkeys_combine : forall (ns : list str) (ds : list Z) res n,
  In n (pkeys (res ++ rev (combine ns ds))) -> In n (pkeys res) \/ In n ns.
Proof.
  intros ns ds res n H. unfold pkeys in *. rewrite map_app, in_app_iff in H.
  destruct H as [H|H]; [left; exact H | right].
  rewrite map_rev, <- in_rev in H. apply in_map_iff in H. destruct H as [[a b] [Ea Hab]].
  apply in_combine_l in Hab. cbn [fst] in Ea. subst a. exact Hab.
Qed.

Lemma lprod_tail_leaves : forall nls index res,
  Forall (fun nl => 0 < snd nl) nls -> 0 <= index ->
  NoDup (map fst nls) -> (forall n, In n (map fst nls) -> ~ In n (pkeys res)) ->
  lprod_tail lindex (map lleaf_of nls) index res
  = Ok (index / zprod (map snd nls), res ++ rev (combine (map fst nls) (radix (map snd nls) index))).
Proof.
  induction nls as [|[n l] nls IH]; intros index res H Hi ND Hf.
  - cbn [map lprod_tail zprod fold_right radix combine rev]. rewrite Z.div_1_r, app_nil_r. reflexivity.
  - inversion H as [|? ? Hl Hr]; subst. cbn [map fst snd] in *. inversion ND as [|? ? Hn Hd]; subst.
    assert (Hpos : Forall (fun l => 0 < l) (map snd nls)) by (rewrite Forall_map; exact Hr).
    pose proof (zprod_pos _ Hpos) as HP.
    cbn [lprod_tail]. rewrite (IH index res Hr Hi Hd) by (intros m Hm; apply Hf; right; exact Hm).
    cbn [bind fst snd lleaf_of llen]. destruct (l =? 0) eqn:Ez; [lia|].
    unfold lleaf_of. cbn [fst snd lindex]. rewrite leaf_pos_in by (apply Z.mod_pos_bound; lia). cbn [bind].
    unfold gupdate. cbn [fold_left fst snd]. rewrite gset_fresh.
    + f_equal. f_equal.
      * rewrite zprod_cons, Z.div_div by lia. f_equal. ring.
      * cbn [radix combine rev]. rewrite app_assoc. reflexivity.
    + intro Hin. apply in_pkeys_combine in Hin. destruct Hin as [Hin|Hin]; [|contradiction].
      apply (Hf n); [left; reflexivity | exact Hin].
Qed.

(* A1 * A2 * ... * Ak over leaves of lengths l1 .. lk > 0 with distinct names: len is the product, and
   obj[i] selects in leaf Am the digit (j / (l(m+1) * ... * lk)) mod lm of j = i mod len (the dict lists the
   right-most leaf first: that is the order of the result.update calls) *)
Theorem lindex_product : forall nls i,
  NoDup (map fst nls) -> Forall (fun nl => 0 < snd nl) nls ->
  let total := zprod (map snd nls) in
  llen (lprod_of nls) = Ok total /\
  (- total <= i < total ->
     lindex (lprod_of nls) i = Ok (rev (combine (map fst nls) (radix (map snd nls) (i mod total))))) /\
  (~ (- total <= i < total) -> lindex (lprod_of nls) i = Raise IndexError).
Proof.
  intros nls i ND H total. unfold lprod_of.
  assert (Hlen : llen (LProd (map lleaf_of nls)) = Ok total).
  { cbn [llen]. rewrite llen_loop_leaves. f_equal. unfold total. lia. }
  split; [exact Hlen|].
  cbn [lindex]. rewrite Hlen. cbn [bind]. cbv zeta. set (j := if i <? 0 then total + i else i).
  split; intros Hi.
  - assert (Hj : 0 <= j < total) by (unfold j; destruct (i <? 0) eqn:E; lia).
    destruct ((0 <=? j) && (j <? total)) eqn:T; [|lia].
    rewrite (mod_norm i total Hi). fold j.
    destruct nls as [|[n0 l0] rest]; [reflexivity|].
    inversion H as [|? ? Hl Hr]; subst. cbn [map fst snd] in *. inversion ND as [|? ? Hn Hd]; subst.
    assert (Hpos : Forall (fun l => 0 < l) (map snd rest)) by (rewrite Forall_map; exact Hr).
    pose proof (zprod_pos _ Hpos) as HP.
    cbn [lprod_get]. rewrite (lprod_tail_leaves rest j [] Hr (proj1 Hj) Hd) by (intros m _ []).
    cbn [bind fst snd app]. unfold lleaf_of. cbn [fst snd lindex].
    unfold total in Hj. rewrite zprod_cons in Hj.
    assert (Hq : 0 <= j / zprod (map snd rest) < l0).
    { split; [apply Z.div_pos; lia | apply Z.div_lt_upper_bound; lia]. }
    rewrite leaf_pos_in by exact Hq. cbn [bind]. unfold gupdate. cbn [fold_left fst snd].
    rewrite gset_fresh.
    + cbn [radix combine rev]. rewrite (Z.mod_small _ _ Hq). reflexivity.
    + intro Hin. apply (in_pkeys_combine _ _ []) in Hin. destruct Hin as [[]|Hin]. contradiction.
  - destruct ((0 <=? j) && (j <? total)) eqn:T; [|reflexivity].
    exfalso. apply Hi. unfold j in T. destruct (i <? 0) eqn:E; lia.
Qed.

(* ================================================================== products of any size are shapes of valid trees *)
Theorem vprod_valid : forall nls,
  nls <> [] -> NoDup (map fst nls) -> Forall (fun nl => 0 < snd nl) nls ->
  valid (vprod_of nls) /\ shape (vprod_of nls) = lprod_of nls.
Proof.
  intros nls Hne ND H. unfold vprod_of, lprod_of. split; [split|].
  - cbn [names]. replace (flat_map names (map vleaf_of nls)) with (map fst nls); [exact ND|].
    clear. induction nls as [|[n l] nls IH]; [reflexivity|]. cbn [map flat_map vleaf_of names fst app]. rewrite <- IH. reflexivity.
  - apply WfProd; [destruct nls; [congruence | discriminate]|].
    rewrite Forall_map. rewrite Forall_forall in *. intros [n l] Hin. specialize (H _ Hin). cbn [snd] in H.
    unfold vleaf_of. cbn [fst snd]. apply WfLeaf.
    destruct (Z.to_nat l) as [|k] eqn:E; [lia | discriminate].
  - cbn [shape]. f_equal. rewrite map_map. apply map_ext_in. intros [n l] Hin.
    rewrite Forall_forall in H. specialize (H _ Hin). cbn [snd] in H.
    unfold vleaf_of, lleaf_of. cbn [fst snd shape]. rewrite repeat_length, Z2Nat.id by lia. reflexivity.
Qed.
