(* NumeralsProofs.v — the executable comparison of Numerals.v is exact rational comparison;
   the digits of Numerals.v are the blocks of Generated.unicode_zero_digits; reading a numeral is reading
   its ASCII transliteration with the ASCII-only reader (parse_int_normalise / parse_dec_normalise), hence
   nothing changes on ASCII strings (parse_int_ascii_unchanged); every number has a numeral. *)
From Coq Require Import ZArith QArith Qpower Lia List Bool ZifyBool.
Require Import OJD.Base OJD.Numerals OJD.NumeralsSpec.
Import ListNotations.

Lemma ten_neq0 : ~ inject_Z 10 == 0.
Proof. intro H. discriminate H. Qed.

Lemma ten_pow_pos : forall k : Z, 0 < (inject_Z 10) ^ k.
Proof. intro k. apply Qpower_0_lt. reflexivity. Qed.

(* scaling a number to any exponent k below its own *)
Lemma Qnum_scaled : forall a k, (k <= expo a)%Z ->
  Qnum a == inject_Z (mant a * 10 ^ (expo a - k)) * (inject_Z 10) ^ k.
Proof.
  intros a k Hk. unfold Qnum.
  rewrite inject_Z_mult.
  rewrite Zpower_Qpower by lia.
  rewrite <- Qmult_assoc.
  rewrite <- Qpower_plus by exact ten_neq0.
  replace (expo a - k + k)%Z with (expo a) by lia.
  reflexivity.
Qed.

Lemma num_cmp_spec : forall a b, num_cmp a b = (Qnum a ?= Qnum b).
Proof.
  intros a b. unfold num_cmp.
  set (k := Z.min (expo a) (expo b)).
  assert (Ha : (k <= expo a)%Z) by (unfold k; lia).
  assert (Hb : (k <= expo b)%Z) by (unfold k; lia).
  set (A := (mant a * 10 ^ (expo a - k))%Z).
  set (B := (mant b * 10 ^ (expo b - k))%Z).
  pose proof (Qnum_scaled a k Ha) as Ea. pose proof (Qnum_scaled b k Hb) as Eb.
  fold A in Ea. fold B in Eb.
  pose proof (ten_pow_pos k) as Hp.
  destruct (Z.compare_spec A B) as [E|L|G].
  - symmetry. apply Qeq_alt. rewrite Ea, Eb, E. reflexivity.
  - symmetry. apply Qlt_alt. rewrite Ea, Eb. apply Qmult_lt_r; [exact Hp|].
    rewrite <- Zlt_Qlt. exact L.
  - symmetry. apply Qgt_alt. rewrite Ea, Eb. apply Qmult_lt_r; [exact Hp|].
    rewrite <- Zlt_Qlt. exact G.
Qed.

Lemma num_ltb_spec : forall a b, num_ltb a b = true <-> num_lt a b.
Proof.
  intros a b. unfold num_ltb, num_lt. rewrite num_cmp_spec, Qlt_alt.
  destruct (Qnum a ?= Qnum b); split; intro H; try reflexivity; try discriminate.
Qed.

Lemma num_ltb_false : forall a b, num_ltb a b = false <-> num_le b a.
Proof.
  intros a b. unfold num_ltb, num_le. rewrite num_cmp_spec.
  rewrite Qle_alt. rewrite <- (Qcompare_antisym (Qnum a) (Qnum b)).
  destruct (Qnum a ?= Qnum b); cbn; split; intro H; try reflexivity; try discriminate; try (exfalso; apply H; reflexivity).
Qed.

Lemma num_leb_spec : forall a b, num_leb a b = true <-> num_le a b.
Proof.
  intros a b. unfold num_leb, num_le. rewrite num_cmp_spec, Qle_alt.
  destruct (Qnum a ?= Qnum b); split; intro H; try reflexivity; try discriminate; try (exfalso; apply H; reflexivity).
Qed.

Lemma num_eqb_spec : forall a b, num_eqb a b = true <-> num_eq a b.
Proof.
  intros a b. unfold num_eqb, num_eq. rewrite num_cmp_spec, Qeq_alt.
  destruct (Qnum a ?= Qnum b); split; intro H; try reflexivity; try discriminate.
Qed.

Lemma mem_num_spec : forall x l, mem_num x l = true <-> exists y, In y l /\ num_eq x y.
Proof.
  intros x l. induction l as [|y ys IH]; cbn [mem_num].
  - split; [discriminate|]. intros [y [[] _]].
  - rewrite orb_true_iff, IH, num_eqb_spec. split.
    + intros [H|[z [Hz Hq]]]; [exists y|exists z]; split; auto; [left|right]; auto.
    + intros [z [[->|Hz] Hq]]; [left|right]; auto. exists z; auto.
Qed.

(* order facts used by the merge proofs *)
Lemma num_le_refl : forall a, num_le a a.
Proof. intro a. unfold num_le. apply Qle_refl. Qed.

Lemma num_le_trans : forall a b c, num_le a b -> num_le b c -> num_le a c.
Proof. unfold num_le. intros a b c. apply Qle_trans. Qed.

Lemma num_le_total : forall a b, num_le a b \/ num_le b a.
Proof.
  unfold num_le. intros a b. destruct (Qlt_le_dec (Qnum a) (Qnum b)) as [H|H]; [left; apply Qlt_le_weak|right]; exact H.
Qed.

Lemma num_eq_le : forall a b, num_eq a b -> num_le a b.
Proof. unfold num_eq, num_le. intros a b H. rewrite H. apply Qle_refl. Qed.

Lemma num_eq_sym : forall a b, num_eq a b -> num_eq b a.
Proof. unfold num_eq. intros a b H. symmetry. exact H. Qed.

Lemma num_eq_trans : forall a b c, num_eq a b -> num_eq b c -> num_eq a c.
Proof. unfold num_eq. intros a b c H1 H2. rewrite H1. exact H2. Qed.

Lemma num_le_eq_l : forall a a' b, num_eq a a' -> num_le a b -> num_le a' b.
Proof. unfold num_eq, num_le. intros a a' b H. rewrite H. auto. Qed.

Lemma num_le_eq_r : forall a b b', num_eq b b' -> num_le a b -> num_le a b'.
Proof. unfold num_eq, num_le. intros a b b' H. rewrite H. auto. Qed.

Lemma num_le_antisym : forall a b, num_le a b -> num_le b a -> num_eq a b.
Proof. unfold num_le, num_eq. intros a b. apply Qle_antisym. Qed.

Lemma num_max_spec : forall a b c, num_le (num_max a b) c <-> num_le a c /\ num_le b c.
Proof.
  intros a b c. unfold num_max. destruct (num_ltb a b) eqn:E.
  - apply num_ltb_spec in E. split.
    + intro H. split; [|exact H]. apply num_le_trans with b; [|exact H]. unfold num_le, num_lt in *. apply Qlt_le_weak. exact E.
    + intros [_ H]. exact H.
  - apply num_ltb_false in E. split.
    + intro H. split; [exact H|]. apply num_le_trans with a; assumption.
    + intros [H _]. exact H.
Qed.

Lemma num_min_spec : forall a b c, num_le c (num_min a b) <-> num_le c a /\ num_le c b.
Proof.
  intros a b c. unfold num_min. destruct (num_ltb b a) eqn:E.
  - apply num_ltb_spec in E. split.
    + intro H. split; [|exact H]. apply num_le_trans with b; [exact H|]. unfold num_le, num_lt in *. apply Qlt_le_weak. exact E.
    + intros [_ H]. exact H.
  - apply num_ltb_false in E. split.
    + intro H. split; [exact H|]. apply num_le_trans with a; assumption.
    + intros [H _]. exact H.
Qed.

(* ---------- the digits: table, values, ASCII transliteration ---------- *)

Local Open Scope N_scope.

(* [is_digit] (an unrolled disjunction) is the lookup in the generated table *)
Lemma is_digit_table : forall c, is_digit c = existsb (in_block c) OJD.Generated.unicode_zero_digits.
Proof. reflexivity. Qed.

Lemma table_head : OJD.Generated.unicode_zero_digits = 48 :: tl OJD.Generated.unicode_zero_digits.
Proof. reflexivity. Qed.

Lemma block_zero_some : forall tbl c, existsb (in_block c) tbl = true ->
  exists z, block_zero tbl c = Some z /\ in_block c z = true.
Proof.
  induction tbl as [|z r IH]; intros c H; [discriminate|].
  cbn [existsb block_zero] in *. destruct (in_block c z) eqn:E.
  - exists z. split; [reflexivity|exact E].
  - cbn [orb] in H. apply IH. exact H.
Qed.

Lemma block_zero_none : forall tbl c, existsb (in_block c) tbl = false -> block_zero tbl c = None.
Proof.
  induction tbl as [|z r IH]; intros c H; [reflexivity|].
  cbn [existsb block_zero] in *. destruct (in_block c z) eqn:E; [discriminate|]. apply IH. exact H.
Qed.

(* a digit has a block, and its value is its offset there *)
Lemma digit_block : forall c, is_digit c = true ->
  exists z, z <= c /\ c <= z + 9 /\ digit_val c = Z.of_N (c - z).
Proof.
  intros c H. rewrite is_digit_table in H. destruct (block_zero_some _ _ H) as [z [Ez Eb]].
  exists z. unfold digit_val. rewrite Ez. unfold in_block in Eb. apply andb_true_iff in Eb.
  destruct Eb as [E1 E2]. apply N.leb_le in E1. apply N.leb_le in E2. repeat split; assumption.
Qed.

Lemma digit_val_range : forall c, is_digit c = true -> (0 <= digit_val c <= 9)%Z.
Proof. intros c H. destruct (digit_block c H) as [z [H1 [H2 ->]]]. lia. Qed.

Lemma digit_val_nondigit : forall c, is_digit c = false -> digit_val c = 0%Z.
Proof. intros c H. rewrite is_digit_table in H. unfold digit_val. rewrite (block_zero_none _ _ H). reflexivity. Qed.

(* ASCII: the first block *)
Lemma is_digit_ascii_digit : forall c, is_digit_ascii c = true -> is_digit c = true.
Proof. intros c H. unfold is_digit_ascii in H. unfold is_digit. lia. Qed.

Lemma is_digit_below_128 : forall c, c < 128 -> is_digit c = is_digit_ascii c.
Proof. intros c H. unfold is_digit, is_digit_ascii. lia. Qed.

Lemma digit_val_ascii_eq : forall c, is_digit_ascii c = true -> digit_val c = digit_val_ascii c.
Proof.
  intros c H. unfold digit_val, digit_val_ascii. rewrite table_head. cbn [block_zero].
  assert (E : in_block c 48 = true) by (unfold in_block; unfold is_digit_ascii in H; lia).
  rewrite E. reflexivity.
Qed.

(* the transliteration: a digit becomes the ASCII digit of the same value, nothing else moves *)
Lemma ascii_digit_digit : forall c, is_digit c = true ->
  is_digit_ascii (ascii_digit c) = true /\ digit_val_ascii (ascii_digit c) = digit_val c.
Proof.
  intros c H. unfold ascii_digit. rewrite H. pose proof (digit_val_range c H) as R.
  unfold is_digit_ascii, digit_val_ascii. split; lia.
Qed.

Lemma ascii_digit_other : forall c, is_digit c = false -> ascii_digit c = c /\ is_digit_ascii c = false.
Proof.
  intros c H. unfold ascii_digit. rewrite H. split; [reflexivity|].
  destruct (is_digit_ascii c) eqn:E; [|reflexivity]. apply is_digit_ascii_digit in E. congruence.
Qed.

Lemma ascii_digit_class : forall c, is_digit_ascii (ascii_digit c) = is_digit c.
Proof.
  intros c. destruct (is_digit c) eqn:E.
  - apply ascii_digit_digit. exact E.
  - destruct (ascii_digit_other c E) as [-> E2]. exact E2.
Qed.

Lemma ascii_digit_below_128 : forall c, c < 128 -> ascii_digit c = c.
Proof.
  intros c H. unfold ascii_digit. destruct (is_digit c) eqn:E; [|reflexivity].
  rewrite is_digit_below_128 in E by exact H. rewrite (digit_val_ascii_eq c E).
  unfold digit_val_ascii. unfold is_digit_ascii in E. lia.
Qed.

Lemma ascii_digit_map_id : forall s, Forall (fun c => c < 128) s -> map ascii_digit s = s.
Proof.
  induction s as [|c r IH]; intro H; [reflexivity|]. inversion H as [|x l Hc Hr]; subst.
  cbn [map]. rewrite (ascii_digit_below_128 c Hc), (IH Hr). reflexivity.
Qed.

(* comparing with a character that is no digit *)
Lemma ascii_digit_eqb : forall x c, is_digit x = false -> (ascii_digit c =? x) = (c =? x).
Proof.
  intros x c Hx. destruct (is_digit c) eqn:E.
  - destruct (ascii_digit_digit c E) as [A _]. apply is_digit_ascii_digit in A.
    assert (N1 : (ascii_digit c =? x) = false) by (apply N.eqb_neq; intro K; rewrite K in A; congruence).
    assert (N2 : (c =? x) = false) by (apply N.eqb_neq; intro K; rewrite K in E; congruence).
    rewrite N1, N2. reflexivity.
  - destruct (ascii_digit_other c E) as [-> _]. reflexivity.
Qed.

Lemma eqb_ascii_digit : forall x c, is_digit x = false -> (x =? ascii_digit c) = (x =? c).
Proof. intros x c Hx. rewrite (N.eqb_sym x (ascii_digit c)), (N.eqb_sym x c). apply ascii_digit_eqb. exact Hx. Qed.

(* F4: no digit is white space, so the two white-space classes do not see the transliteration *)
Lemma digit_not_space : forall c, is_digit c = true -> int_space c = false /\ dec_space c = false.
Proof. intros c H. unfold is_digit in H. unfold dec_space, int_space, uni_space. split; lia. Qed.

Lemma ascii_digit_int_space : forall c, int_space (ascii_digit c) = int_space c.
Proof.
  intros c. destruct (is_digit c) eqn:E.
  - destruct (ascii_digit_digit c E) as [A _]. apply is_digit_ascii_digit in A.
    rewrite (proj1 (digit_not_space _ A)), (proj1 (digit_not_space _ E)). reflexivity.
  - destruct (ascii_digit_other c E) as [-> _]. reflexivity.
Qed.

Lemma ascii_digit_dec_space : forall c, dec_space (ascii_digit c) = dec_space c.
Proof.
  intros c. destruct (is_digit c) eqn:E.
  - destruct (ascii_digit_digit c E) as [A _]. apply is_digit_ascii_digit in A.
    rewrite (proj2 (digit_not_space _ A)), (proj2 (digit_not_space _ E)). reflexivity.
  - destruct (ascii_digit_other c E) as [-> _]. reflexivity.
Qed.

(* F6: letters are ASCII letters: lowering and transliterating commute *)
Lemma lower_ascii_digit : forall c, lower (ascii_digit c) = ascii_digit (lower c).
Proof.
  intros c. destruct (is_digit c) eqn:E.
  - assert (L : lower c = c) by (unfold lower; unfold is_digit in E; replace ((65 <=? c) && (c <=? 90)) with false by lia; reflexivity).
    rewrite L. destruct (ascii_digit_digit c E) as [A _]. unfold lower. unfold is_digit_ascii in A.
    replace ((65 <=? ascii_digit c) && (ascii_digit c <=? 90)) with false by lia. reflexivity.
  - destruct (ascii_digit_other c E) as [-> _]. unfold lower. destruct ((65 <=? c) && (c <=? 90)) eqn:U.
    + assert (D : is_digit (c + 32) = false) by (unfold is_digit; lia).
      destruct (ascii_digit_other _ D) as [-> _]. reflexivity.
    + destruct (ascii_digit_other c E) as [-> _]. reflexivity.
Qed.

(* ---------- reading = transliterating, then reading with the ASCII-only reader ---------- *)

Lemma drop_while_map : forall (p : N -> bool) (f : N -> N), (forall c, p (f c) = p c) ->
  forall s, drop_while p (map f s) = map f (drop_while p s).
Proof.
  intros p f H. induction s as [|c r IH]; [reflexivity|]. cbn [map drop_while]. rewrite H.
  destruct (p c); [exact IH|reflexivity].
Qed.

Lemma strip_map : forall (p : N -> bool) (f : N -> N), (forall c, p (f c) = p c) ->
  forall s, strip p (map f s) = map f (strip p s).
Proof.
  intros p f H s. unfold strip. rewrite (drop_while_map p f H), <- map_rev, (drop_while_map p f H), map_rev.
  reflexivity.
Qed.

Lemma filter_map_class : forall (q : N -> bool) (f : N -> N), (forall c, q (f c) = q c) ->
  forall s, filter q (map f s) = map f (filter q s).
Proof.
  intros q f H. induction s as [|c r IH]; [reflexivity|]. cbn [map filter]. rewrite H.
  destruct (q c); [cbn [map]; f_equal; exact IH|exact IH].
Qed.

Lemma skipn_map_comm : forall (f : N -> N) n s, skipn n (map f s) = map f (skipn n s).
Proof. intros f. induction n as [|n IH]; intros [|c r]; try reflexivity. cbn [map skipn]. apply IH. Qed.

Lemma split_sign_norm : forall t,
  split_sign (map ascii_digit t) = (fst (split_sign t), map ascii_digit (snd (split_sign t))).
Proof.
  intros [|c r]; [reflexivity|]. cbn [map split_sign].
  rewrite (ascii_digit_eqb 43 c eq_refl), (ascii_digit_eqb 45 c eq_refl).
  destruct (c =? 43); [reflexivity|]. destruct (c =? 45); reflexivity.
Qed.

Lemma int_digits_norm : forall s acc prev,
  int_digits_ascii acc prev (map ascii_digit s) = int_digits acc prev s.
Proof.
  induction s as [|c r IH]; intros acc prev; [reflexivity|].
  cbn [map int_digits_ascii int_digits]. rewrite ascii_digit_class. destruct (is_digit c) eqn:E.
  - rewrite (proj2 (ascii_digit_digit c E)). apply IH.
  - rewrite (proj1 (ascii_digit_other c E)). destruct ((c =? 95) && prev); [apply IH|reflexivity].
Qed.

Theorem parse_int_normalise : forall s, parse_int s = parse_int_ascii (map ascii_digit s).
Proof.
  intro s. unfold parse_int, parse_int_ascii.
  rewrite (strip_map int_space ascii_digit ascii_digit_int_space), split_sign_norm.
  destruct (split_sign (strip int_space s)) as [neg r]. cbn [fst snd]. rewrite int_digits_norm. reflexivity.
Qed.

Lemma take_digits_norm : forall s acc n,
  take_digits_ascii acc n (map ascii_digit s) =
  (fst (fst (take_digits acc n s)), snd (fst (take_digits acc n s)), map ascii_digit (snd (take_digits acc n s))).
Proof.
  induction s as [|c r IH]; intros acc n; [reflexivity|].
  cbn [map take_digits_ascii take_digits]. rewrite ascii_digit_class. destruct (is_digit c) eqn:E.
  - rewrite (proj2 (ascii_digit_digit c E)). apply IH.
  - reflexivity.
Qed.

Lemma forallb_digit_norm : forall s, forallb is_digit_ascii (map ascii_digit s) = forallb is_digit s.
Proof.
  induction s as [|c r IH]; [reflexivity|]. cbn [map forallb]. rewrite ascii_digit_class, IH. reflexivity.
Qed.

Lemma str_eqb_norm : forall w l, forallb (fun x => negb (is_digit x)) w = true ->
  str_eqb (map ascii_digit l) w = str_eqb l w.
Proof.
  induction w as [|x w IH]; intros [|c l] H; try reflexivity.
  cbn [forallb] in H. apply andb_true_iff in H. destruct H as [Hx Hw]. apply negb_true_iff in Hx.
  cbn [map str_eqb]. rewrite (ascii_digit_eqb x c Hx), (IH l Hw). reflexivity.
Qed.

Lemma is_prefix_norm : forall w l, forallb (fun x => negb (is_digit x)) w = true ->
  is_prefix w (map ascii_digit l) = is_prefix w l.
Proof.
  induction w as [|x w IH]; intros l H; [reflexivity|]. destruct l as [|c l]; [reflexivity|].
  cbn [forallb] in H. apply andb_true_iff in H. destruct H as [Hx Hw]. apply negb_true_iff in Hx.
  cbn [map is_prefix]. rewrite (eqb_ascii_digit x c Hx), (IH l Hw). reflexivity.
Qed.

Lemma map_lower_norm : forall t, map lower (map ascii_digit t) = map ascii_digit (map lower t).
Proof.
  induction t as [|c r IH]; [reflexivity|]. cbn [map]. rewrite lower_ascii_digit, IH. reflexivity.
Qed.

Lemma take_fraction_norm : forall ip r1,
  take_fraction_ascii ip (map ascii_digit r1) =
  (fst (fst (take_fraction ip r1)), snd (fst (take_fraction ip r1)), map ascii_digit (snd (take_fraction ip r1))).
Proof.
  intros ip [|c r]; [reflexivity|]. cbn [map take_fraction_ascii take_fraction].
  rewrite (ascii_digit_eqb 46 c eq_refl). destruct (c =? 46); [apply take_digits_norm|reflexivity].
Qed.

Lemma is_nil_map : forall (f : N -> N) l, is_nil (map f l) = is_nil l.
Proof. intros f [|c r]; reflexivity. Qed.

Lemma take_exponent_norm : forall r2, take_exponent_ascii (map ascii_digit r2) = take_exponent r2.
Proof.
  intros [|c r3]; [reflexivity|]. cbn [map take_exponent_ascii take_exponent].
  rewrite (ascii_digit_eqb 101 c eq_refl), (ascii_digit_eqb 69 c eq_refl).
  destruct ((c =? 101) || (c =? 69)); [|reflexivity].
  rewrite split_sign_norm. destruct (split_sign r3) as [neg r4]. cbn [fst snd].
  rewrite take_digits_norm. destruct (take_digits 0 0 r4) as [[x nx] r5]. cbn [fst snd].
  rewrite is_nil_map. reflexivity.
Qed.

Lemma parse_unsigned_norm : forall neg t, parse_unsigned_ascii neg (map ascii_digit t) = parse_unsigned neg t.
Proof.
  intros neg t. unfold parse_unsigned_ascii, parse_unsigned. cbv zeta.
  rewrite map_lower_norm.
  rewrite (str_eqb_norm s_inf _ eq_refl), (str_eqb_norm s_infinity _ eq_refl),
          (is_prefix_norm s_nan _ eq_refl), (is_prefix_norm s_snan _ eq_refl).
  rewrite !skipn_map_comm, !forallb_digit_norm.
  destruct (str_eqb (map lower t) s_inf || str_eqb (map lower t) s_infinity); [reflexivity|].
  destruct (is_prefix s_nan (map lower t)); [reflexivity|].
  destruct (is_prefix s_snan (map lower t)); [reflexivity|].
  rewrite take_digits_norm. destruct (take_digits 0 0 t) as [[ip ni] r1]. cbn [fst snd].
  rewrite take_fraction_norm. destruct (take_fraction ip r1) as [[m nf] r2]. cbn [fst snd].
  rewrite take_exponent_norm. reflexivity.
Qed.

Theorem parse_dec_normalise : forall s, parse_dec s = parse_dec_ascii (map ascii_digit s).
Proof.
  intro s. unfold parse_dec, parse_dec_ascii.
  rewrite (strip_map dec_space ascii_digit ascii_digit_dec_space).
  rewrite (filter_map_class (fun c => negb (c =? 95)) ascii_digit)
    by (intro c; rewrite (ascii_digit_eqb 95 c eq_refl); reflexivity).
  rewrite split_sign_norm.
  destruct (split_sign (filter (fun c => negb (c =? 95)) (strip dec_space s))) as [neg r]. cbn [fst snd].
  rewrite parse_unsigned_norm. reflexivity.
Qed.

(* conservativity: on strings of ASCII characters nothing has changed *)
Theorem parse_int_ascii_unchanged : forall s, Forall (fun c => c < 128) s ->
  parse_int s = parse_int_ascii s /\ parse_dec s = parse_dec_ascii s.
Proof.
  intros s H. rewrite parse_int_normalise, parse_dec_normalise, (ascii_digit_map_id s H). split; reflexivity.
Qed.

(* mixed scripts (F1, F2, F5): "１_٢7" (fullwidth 1, underscore, Arabic-Indic 2, ASCII 7),
   "-١.٥e-１" (Arabic-Indic 1 and 5, fullwidth exponent 1), "NaN𝟗" (mathematical bold 9) *)
Example parse_int_mixed_scripts :
  parse_int [65297; 95; 1634; 55] = Some 127%Z /\ parse_int_ascii [65297; 95; 1634; 55] = None.
Proof. split; reflexivity. Qed.

Example parse_dec_mixed_scripts :
  parse_dec [45; 1633; 46; 1637; 101; 45; 65297] = Some (Fin (-15) (-2)) /\
  parse_dec [78; 97; 78; 120791] = Some NaN /\
  parse_dec_ascii [45; 1633; 46; 1637; 101; 45; 65297] = None.
Proof. repeat split; reflexivity. Qed.

(* F3, F6: signs, the decimal point and the exponent letter stay ASCII: "＋1", "１．５", "1ｅ1" *)
Example parse_non_ascii_punctuation :
  parse_int [65291; 49] = None /\ parse_dec [65297; 65294; 65301] = None /\ parse_dec [49; 65349; 49] = None.
Proof. repeat split; reflexivity. Qed.

(* ---------- every number has a numeral: printing, and parsing it back ----------
   (used to exhibit witnesses of satisfiability; proof-side only, never extracted) *)

Local Open Scope Z_scope.

Definition val (acc : Z) (s : str) : Z := fold_left (fun a c => a * 10 + digit_val c) s acc.

Fixpoint digits_fuel (fuel : nat) (n : Z) (acc : str) : str :=
  match fuel with
  | O => acc
  | S f =>
    let acc' := (Z.to_N (n mod 10) + 48)%N :: acc in
    if n <? 10 then acc' else digits_fuel f (n / 10) acc'
  end.

Definition print_nonneg (n : Z) : str := digits_fuel (S (Z.to_nat n)) n [].
Definition print_Z (z : Z) : str := if z <? 0 then 45%N :: print_nonneg (- z) else print_nonneg z.
(* <mantissa>e<exponent> *)
Definition print_num (x : num) : str := print_Z (mant x) ++ 101%N :: print_Z (expo x).

Definition digitP (c : N) : Prop := is_digit c = true.

Lemma digit_char : forall d, 0 <= d < 10 ->
  digitP (Z.to_N d + 48)%N /\ digit_val (Z.to_N d + 48)%N = d.
Proof.
  intros d H. unfold digitP.
  assert (A : is_digit_ascii (Z.to_N d + 48)%N = true) by (unfold is_digit_ascii; lia).
  split.
  - apply is_digit_ascii_digit. exact A.
  - rewrite (digit_val_ascii_eq _ A). unfold digit_val_ascii. lia.
Qed.

Lemma val_app : forall a x y, val a (x ++ y) = val (val a x) y.
Proof. intros a x y. unfold val. apply fold_left_app. Qed.

Ltac Zify.zify_post_hook ::= Z.to_euclidean_division_equations.

Lemma digits_fuel_spec : forall fuel n acc, 0 <= n -> (Z.to_nat n < fuel)%nat ->
  exists ds, digits_fuel fuel n acc = ds ++ acc /\ ds <> [] /\ Forall digitP ds /\
             forall a0, val a0 ds = a0 * 10 ^ Z.of_nat (length ds) + n.
Proof.
  induction fuel as [|f IH]; intros n acc Hn Hf; [lia|].
  cbn [digits_fuel].
  assert (Hd : 0 <= n mod 10 < 10) by (apply Z.mod_pos_bound; lia).
  destruct (digit_char (n mod 10) Hd) as [Dc Dv].
  destruct (n <? 10) eqn:E.
  - apply Z.ltb_lt in E. exists [(Z.to_N (n mod 10) + 48)%N]. split; [reflexivity|]. split; [discriminate|].
    split; [constructor; [exact Dc|constructor]|].
    intro a0. unfold val. cbn [fold_left length]. rewrite Dv.
    change (Z.of_nat 1) with 1. rewrite Z.pow_1_r. rewrite Z.mod_small by lia. reflexivity.
  - apply Z.ltb_ge in E.
    assert (H1 : 0 <= n / 10) by (apply Z.div_pos; lia).
    assert (H2 : (Z.to_nat (n / 10) < f)%nat) by lia.
    destruct (IH (n / 10) ((Z.to_N (n mod 10) + 48)%N :: acc) H1 H2) as [ds [Eq [Ne [Fd Hv]]]].
    exists (ds ++ [(Z.to_N (n mod 10) + 48)%N]). split; [rewrite Eq, <- app_assoc; reflexivity|].
    split; [destruct ds; discriminate|].
    split; [apply Forall_app; split; [exact Fd|constructor; [exact Dc|constructor]]|].
    intro a0. rewrite val_app, Hv. unfold val at 1. cbn [fold_left]. rewrite Dv.
    rewrite app_length. cbn [length]. rewrite Nat2Z.inj_add. change (Z.of_nat 1) with 1.
    rewrite Z.pow_add_r by lia. rewrite Z.pow_1_r.
    set (p := 10 ^ Z.of_nat (length ds)). lia.
Qed.

Lemma print_nonneg_spec : forall n, 0 <= n ->
  print_nonneg n <> [] /\ Forall digitP (print_nonneg n) /\
  forall a0, val a0 (print_nonneg n) = a0 * 10 ^ Z.of_nat (length (print_nonneg n)) + n.
Proof.
  intros n Hn. unfold print_nonneg.
  destruct (digits_fuel_spec (S (Z.to_nat n)) n [] Hn ltac:(lia)) as [ds [Eq [Ne [Fd Hv]]]].
  rewrite app_nil_r in Eq. rewrite Eq. auto.
Qed.

Lemma take_digits_run : forall ds acc k rest,
  Forall digitP ds -> match rest with [] => True | c :: _ => is_digit c = false end ->
  take_digits acc k (ds ++ rest) = (val acc ds, k + Z.of_nat (length ds), rest).
Proof.
  induction ds as [|c r IH]; intros acc k rest Fd Hr.
  - cbn [app length val fold_left]. unfold val. cbn [fold_left]. rewrite Z.add_0_r.
    destruct rest as [|c r]; [reflexivity|]. cbn [take_digits]. rewrite Hr. reflexivity.
  - inversion Fd as [|x l Hc Fr]; subst. cbn [app take_digits]. unfold digitP in Hc. rewrite Hc.
    rewrite IH by assumption. unfold val. cbn [fold_left length]. f_equal. f_equal. lia.
Qed.

Lemma int_digits_run : forall ds acc prev,
  Forall digitP ds -> (ds <> [] \/ prev = true) -> int_digits acc prev ds = Some (val acc ds).
Proof.
  induction ds as [|c r IH]; intros acc prev Fd H.
  - destruct H as [H| ->]; [contradiction|]. reflexivity.
  - inversion Fd as [|x l Hc Fr]; subst. cbn [int_digits]. unfold digitP in Hc. rewrite Hc.
    rewrite IH; [reflexivity|exact Fr|right; reflexivity].
Qed.

Lemma drop_while_id : forall p s, (forall c, In c s -> p c = false) -> drop_while p s = s.
Proof.
  intros p [|c r] H; [reflexivity|]. cbn [drop_while]. rewrite (H c (or_introl eq_refl)). reflexivity.
Qed.

Lemma strip_id : forall p s, (forall c, In c s -> p c = false) -> strip p s = s.
Proof.
  intros p s H. unfold strip. rewrite (drop_while_id p s H).
  rewrite drop_while_id; [apply rev_involutive|]. intros c Hc. apply H. apply in_rev. exact Hc.
Qed.

Lemma filter_id : forall {A} (f : A -> bool) s, (forall c, In c s -> f c = true) -> filter f s = s.
Proof.
  intros A f s. induction s as [|c r IH]; intro H; [reflexivity|]. cbn [filter].
  rewrite (H c (or_introl eq_refl)). f_equal. apply IH. intros x Hx. apply H. right. exact Hx.
Qed.

(* (the statement is about the ASCII digits: a digit of another script is not in this list) *)
Lemma digit_cases : forall c, is_digit_ascii c = true -> In c [48; 49; 50; 51; 52; 53; 54; 55; 56; 57]%N.
Proof.
  intros c H. unfold is_digit_ascii in H. apply andb_true_iff in H. destruct H as [H1 H2].
  apply N.leb_le in H1. apply N.leb_le in H2. cbn [In].
  assert (K : (c = 48 \/ c = 49 \/ c = 50 \/ c = 51 \/ c = 52 \/ c = 53 \/ c = 54 \/ c = 55 \/ c = 56 \/ c = 57)%N) by lia.
  intuition auto.
Qed.

(* the characters numerals are made of are neither blanks nor underscores, and are not signs
   (for digits) *)
Definition plain (c : N) : Prop := int_space c = false /\ dec_space c = false /\ negb (c =? 95)%N = true.

Lemma plain_digit : forall c, digitP c -> plain c /\ (c =? 43)%N = false /\ (c =? 45)%N = false.
Proof.
  intros c H. unfold digitP in H. destruct (digit_not_space c H) as [S1 S2].
  unfold plain. rewrite S1, S2. unfold is_digit in H. repeat split; lia.
Qed.

Lemma plain_minus : plain 45%N.
Proof. repeat split; reflexivity. Qed.
Lemma plain_e : plain 101%N.
Proof. repeat split; reflexivity. Qed.

Lemma print_Z_shape : forall z, exists ds,
  ds <> [] /\ Forall digitP ds /\ (forall a0, val a0 ds = a0 * 10 ^ Z.of_nat (length ds) + Z.abs z) /\
  print_Z z = if z <? 0 then 45%N :: ds else ds.
Proof.
  intro z. unfold print_Z. destruct (z <? 0) eqn:E.
  - apply Z.ltb_lt in E. destruct (print_nonneg_spec (- z) ltac:(lia)) as [Ne [Fd Hv]].
    exists (print_nonneg (- z)). repeat split; auto. intro a0. rewrite Hv. lia.
  - apply Z.ltb_ge in E. destruct (print_nonneg_spec z E) as [Ne [Fd Hv]].
    exists (print_nonneg z). repeat split; auto. intro a0. rewrite Hv. lia.
Qed.

Lemma print_Z_plain : forall z c, In c (print_Z z) -> plain c.
Proof.
  intros z c H. destruct (print_Z_shape z) as [ds [_ [Fd [_ Eq]]]]. rewrite Eq in H.
  rewrite Forall_forall in Fd.
  destruct (z <? 0); [destruct H as [<-|H]; [exact plain_minus|]|]; apply plain_digit; apply Fd; exact H.
Qed.

Lemma split_sign_print : forall z rest, exists ds,
  ds <> [] /\ Forall digitP ds /\ (forall a0, val a0 ds = a0 * 10 ^ Z.of_nat (length ds) + Z.abs z) /\
  split_sign (print_Z z ++ rest) = (z <? 0, ds ++ rest).
Proof.
  intros z rest. destruct (print_Z_shape z) as [ds [Ne [Fd [Hv Eq]]]]. exists ds.
  repeat split; auto. rewrite Eq. destruct (z <? 0).
  - reflexivity.
  - destruct ds as [|c r]; [contradiction|]. inversion Fd as [|x l Hc Fr]; subst.
    destruct (plain_digit c Hc) as [_ [E1 E2]]. cbn [app split_sign]. rewrite E1, E2. reflexivity.
Qed.

Theorem parse_int_print : forall z, parse_int (print_Z z) = Some z.
Proof.
  intro z. unfold parse_int.
  rewrite strip_id by (intros c Hc; apply (print_Z_plain z c Hc)).
  destruct (split_sign_print z []) as [ds [Ne [Fd [Hv Eq]]]]. rewrite !app_nil_r in Eq. rewrite Eq.
  rewrite int_digits_run; [|exact Fd|left; exact Ne]. rewrite Hv.
  destruct (z <? 0) eqn:E; [apply Z.ltb_lt in E|apply Z.ltb_ge in E]; f_equal; lia.
Qed.

Lemma head_digit_not_special : forall c t, digitP c ->
  let l := map lower (c :: t) in
  str_eqb l s_inf = false /\ str_eqb l s_infinity = false /\
  is_prefix s_nan l = false /\ is_prefix s_snan l = false.
Proof.
  intros c t H. unfold digitP in H. cbv zeta. cbn [map].
  assert (L : lower c = c) by (unfold lower; unfold is_digit in H; replace ((65 <=? c) && (c <=? 90))%N with false by lia; reflexivity).
  rewrite L. unfold s_inf, s_infinity, s_nan, s_snan. cbn [str_eqb is_prefix].
  assert (E1 : (c =? 105)%N = false) by (unfold is_digit in H; lia).
  assert (E2 : (110 =? c)%N = false) by (unfold is_digit in H; lia).
  assert (E3 : (115 =? c)%N = false) by (unfold is_digit in H; lia).
  rewrite E1, E2, E3. repeat split; reflexivity.
Qed.

Theorem parse_dec_print : forall x, parse_dec (print_num x) = Some (Fin (mant x) (expo x)).
Proof.
  intros [m e]. unfold print_num. cbn [mant expo]. unfold parse_dec.
  assert (Pl : forall c, In c (print_Z m ++ 101%N :: print_Z e) -> plain c).
  { intros c Hc. apply in_app_or in Hc. destruct Hc as [Hc|[<-|Hc]];
      [eapply print_Z_plain; eauto|exact plain_e|eapply print_Z_plain; eauto]. }
  rewrite strip_id by (intros c Hc; apply (Pl c Hc)).
  rewrite filter_id by (intros c Hc; apply (Pl c Hc)).
  destruct (split_sign_print m (101%N :: print_Z e)) as [dm [Nm [Fm [Vm Em]]]]. rewrite Em.
  unfold parse_unsigned. cbn zeta.
  destruct dm as [|c r]; [contradiction|].
  assert (Hc : digitP c) by (inversion Fm; assumption).
  pose proof (head_digit_not_special c (r ++ 101%N :: print_Z e) Hc) as HS. cbn zeta in HS.
  change ((c :: r) ++ 101%N :: print_Z e) with (c :: (r ++ 101%N :: print_Z e)).
  destruct HS as [S1 [S2 [S3 S4]]]. rewrite S1, S2, S3, S4. cbn [orb].
  change (c :: (r ++ 101%N :: print_Z e)) with ((c :: r) ++ 101%N :: print_Z e).
  rewrite (take_digits_run (c :: r) 0 0 (101%N :: print_Z e) Fm eq_refl).
  set (dm := c :: r) in *.
  cbn [take_fraction]. change (101 =? 46)%N with false. cbn iota.
  assert (Ln : (0 + Z.of_nat (length dm) + 0 =? 0) = false).
  { apply Z.eqb_neq. unfold dm. cbn [length]. lia. }
  rewrite Ln. cbn [take_exponent]. change ((101 =? 101)%N || (101 =? 69)%N) with true. cbn iota.
  destruct (split_sign_print e []) as [de [Ne [Fe [Ve Ee]]]]. rewrite !app_nil_r in Ee. rewrite Ee.
  pose proof (take_digits_run de 0 0 [] Fe I) as TD. rewrite app_nil_r in TD. rewrite TD.
  assert (Le : (0 + Z.of_nat (length de) =? 0) = false).
  { apply Z.eqb_neq. destruct de; [contradiction|]. cbn [length]. lia. }
  rewrite Le. cbn [is_nil negb orb]. rewrite Vm, Ve. f_equal. f_equal.
  - destruct (m <? 0) eqn:E; [apply Z.ltb_lt in E|apply Z.ltb_ge in E]; lia.
  - destruct (e <? 0) eqn:E; [apply Z.ltb_lt in E|apply Z.ltb_ge in E]; lia.
Qed.
