# C03 probe: maximal template; every format-string location x every symbol class; verdict + named errors vs a scope table
# written from the property text. Then random multisets of simultaneous references.
import copy, random, re, sys
from openjd.model import decode_job_template, decode_environment_template, DecodeValidationError
def env(name, files):
    return {"name": name, "description": "{{ Not.A.Ref }}",
            "variables": {"V1": "lit"},
            "script": {"actions": {"onEnter": {"command": "c", "args": ["a1"]}, "onExit": {"command": "c"}},
                       "embeddedFiles": [{"name": f, "type": "TEXT", "data": "d", "filename": "fn"} for f in files]}}
def skeleton():
    return {"specificationVersion": "jobtemplate-2023-09", "name": "N", "description": "{{ Also.Not }}",
      "parameterDefinitions": [{"name": "Ps", "type": "STRING"}, {"name": "Pi", "type": "INT"}, {"name": "Pf", "type": "FLOAT"}, {"name": "Pp", "type": "PATH"}],
      "jobEnvironments": [env("JE1", ["jf1"]), env("JE2", ["jf2"])],
      "steps": [
        {"name": "S1", "stepEnvironments": [env("SE1", ["sf1"])],
         "parameterSpace": {"taskParameterDefinitions": [
              {"name": "Ti", "type": "INT", "range": [1, "2"]}, {"name": "Tr", "type": "INT", "range": "1-2"},
              {"name": "Tf", "type": "FLOAT", "range": [1.5, "2"]}, {"name": "Ts", "type": "STRING", "range": ["x"]}, {"name": "Tp", "type": "PATH", "range": ["y"]}]},
         "hostRequirements": {"amounts": [{"name": "amount.worker.vcpu", "min": 1}], "attributes": [{"name": "attr.worker.os.family", "anyOf": ["linux"], "allOf": ["linux"]}]},
         "script": {"actions": {"onRun": {"command": "c", "args": ["a"]}}, "embeddedFiles": [{"name": "tf1", "type": "TEXT", "data": "d"}]}},
        {"name": "S2", "dependencies": [{"dependsOn": "S1"}],
         "parameterSpace": {"taskParameterDefinitions": [{"name": "U", "type": "STRING", "range": ["x"]}]},
         "script": {"actions": {"onRun": {"command": "c"}}, "embeddedFiles": [{"name": "tf2", "type": "TEXT", "data": "d"}]}}]}
# locations: (path, kind, context) ; context decides visibility
def E(prefix, which):  # locations inside an environment
    return [(prefix + ["variables", "V1"], ("envvar", which)),
            (prefix + ["script", "actions", "onEnter", "command"], ("envscript", which)),
            (prefix + ["script", "actions", "onEnter", "args", 0], ("envscript", which)),
            (prefix + ["script", "actions", "onExit", "command"], ("envscript", which)),
            (prefix + ["script", "embeddedFiles", 0, "data"], ("envscript", which))]
LOCS = [(["name"], ("template", None))]
LOCS += E(["jobEnvironments", 0], "JE1") + E(["jobEnvironments", 1], "JE2") + E(["steps", 0, "stepEnvironments", 0], "SE1")
for i, t in enumerate(["Ti", "Tf", "Ts", "Tp"]):
    idx = {"Ti": 0, "Tf": 2, "Ts": 3, "Tp": 4}[t]
    LOCS.append((["steps", 0, "parameterSpace", "taskParameterDefinitions", idx, "range", 1 if t in ("Ti", "Tf") else 0], ("template", None)))
LOCS.append((["steps", 0, "parameterSpace", "taskParameterDefinitions", 1, "range"], ("template", None)))
LOCS += [(["steps", 0, "hostRequirements", "amounts", 0, "name"], ("template", None)),
         (["steps", 0, "hostRequirements", "attributes", 0, "name"], ("template", None)),
         (["steps", 0, "hostRequirements", "attributes", 0, "anyOf", 0], ("template", None)),
         (["steps", 0, "hostRequirements", "attributes", 0, "allOf", 0], ("template", None)),
         (["steps", 0, "script", "actions", "onRun", "command"], ("stepscript", "S1")),
         (["steps", 0, "script", "actions", "onRun", "args", 0], ("stepscript", "S1")),
         (["steps", 0, "script", "embeddedFiles", 0, "data"], ("stepscript", "S1")),
         (["steps", 1, "script", "actions", "onRun", "command"], ("stepscript", "S2")),
         (["steps", 1, "script", "embeddedFiles", 0, "data"], ("stepscript", "S2"))]
ENVFILES = {"JE1": ["jf1"], "JE2": ["jf2"], "SE1": ["sf1"]}
STEPSYMS = {"S1": (["Ti", "Tr", "Tf", "Ts", "Tp"], ["tf1"]), "S2": (["U"], ["tf2"])}
SESSION = ["Session.WorkingDirectory", "Session.HasPathMappingRules", "Session.PathMappingRulesFile"]
SYMS = [f"{p}.{n}" for p in ("Param", "RawParam") for n in ("Ps", "Pi", "Pf", "Pp", "Zz")] + SESSION + ["Session.Nope"] + \
       [f"Task.{k}.{n}" for k in ("Param", "RawParam") for n in ("Ti", "Tr", "Tf", "Ts", "Tp", "U", "Zz")] + \
       [f"Task.File.{f}" for f in ("tf1", "tf2", "zz")] + [f"Env.File.{f}" for f in ("jf1", "jf2", "sf1", "zz")] + ["Foo", "Param", "Job.Name"]
def visible(sym, ctx):
    kind, which = ctx
    if sym.startswith("RawParam."): return sym[9:] in ("Ps", "Pi", "Pf", "Pp")
    if sym.startswith("Param."):
        n = sym[6:]
        if n in ("Ps", "Pi", "Pf"): return True
        if n == "Pp": return kind in ("envvar", "envscript", "stepscript")
        return False
    if sym in SESSION: return kind in ("envscript", "stepscript")
    if sym.startswith("Task.Param.") or sym.startswith("Task.RawParam."):
        return kind == "stepscript" and sym.split(".")[2] in STEPSYMS[which][0]
    if sym.startswith("Task.File."): return kind == "stepscript" and sym[10:] in STEPSYMS[which][1]
    if sym.startswith("Env.File."): return kind == "envscript" and sym[9:] in ENVFILES[which]
    return False
def put(doc, path, text):
    cur = doc
    for p in path[:-1]: cur = cur[p]
    cur[path[-1]] = text
def get(doc, path):
    cur = doc
    for p in path: cur = cur[p]
    return cur
def run(doc):
    try: decode_job_template(template=doc); return None
    except DecodeValidationError as e: return str(e)
assert run(skeleton()) is None, run(skeleton())
bad = n = 0
def lit_for(path, refs):
    # keep the field otherwise valid: capability names/values and range strings need care
    txt = " ".join("{{ %s }}" % r for r in refs)
    if path[-1] == "name" and "amounts" in path: return "amount." + txt.replace(" ", "")
    if path[-1] == "name" and "attributes" in path: return "attr." + txt.replace(" ", "")
    return txt
for path, ctx in LOCS:
    for sym in SYMS:
        d = skeleton(); put(d, path, lit_for(path, [sym])); n += 1
        msg = run(d); want_ok = visible(sym, ctx)
        if (msg is None) != want_ok: bad += 1; print("MATRIX", path, sym, "accepted" if msg is None else "rejected", "want", want_ok)
        elif msg is not None and f"Variable {sym} does not exist" not in msg: bad += 1; print("MSG", path, sym, msg[:200])
print("matrix cells", n, "bad", bad)
rnd = random.Random(int(sys.argv[1]) if len(sys.argv) > 1 else 1); bad = 0; m = 0
for _ in range(600):
    d = skeleton(); placed = []
    for path, ctx in rnd.sample(LOCS, rnd.randint(2, 6)):
        refs = [rnd.choice(SYMS) for _ in range(rnd.randint(1, 3))]
        put(d, path, lit_for(path, refs)); placed.append((path, ctx, refs))
    msg = run(d); m += 1
    offending = sorted({(tuple(p), r) for p, c, refs in placed for r in refs if not visible(r, c)})
    if (msg is None) != (not offending): bad += 1; print("MULTI verdict", offending, msg)
    elif msg is not None:
        named = re.findall(r"Variable (\S+) does not exist", msg)
        if sorted(named) != sorted(r for p, c, refs in placed for r in refs if not visible(r, c)): bad += 1; print("MULTI names", sorted(named), offending)
print("multi", m, "bad", bad)
# environment template
et = {"specificationVersion": "environment-2023-09", "parameterDefinitions": skeleton()["parameterDefinitions"], "environment": env("E", ["ef"])}
ELOCS = [(p[2:], c) for p, c in E(["x", "y"], "E")]; ENVFILES["E"] = ["ef"]; bad = 0; n = 0
for path, ctx in ELOCS:
    for sym in SYMS + ["Env.File.ef"]:
        d = copy.deepcopy(et); put(d["environment"], path, "{{%s}}" % sym); n += 1
        try: decode_environment_template(template=d); ok = True
        except DecodeValidationError: ok = False
        if ok != visible(sym, ctx): bad += 1; print("ENVT", path, sym, ok)
print("env template cells", n, "bad", bad)
