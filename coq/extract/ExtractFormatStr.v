(* Extraction of the format-string model (C16).  ExtrOcamlBasic only. *)
From Coq Require Import Extraction ExtrOcamlBasic List NArith ZArith.
Require Import OJD.Base OJD.Lexer OJD.Generated OJD.FormatStr OJD.FormatStrSpec.
Extraction Language OCaml.
Extraction "Model.ml"
  exn_eqb ascii_ok ascii_class lex_for fs_token_kinds
  find slice interp_expr scan mk orig items expressions resolve validate_refs lookup
  str_eqb dom piece_text sumZ.
