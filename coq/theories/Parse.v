(* Parse.v — the structural layer of template validation: a generic model of what pydantic 1.10
   does with a JSON value for the field kinds the OpenJD model uses (DESIGN.md Appendix E),
   driven by a [schema_t] value.  Definitions only.

   Outcomes:  Ok v                 accepted, v = the coerced value
              Raise ValueError     a validation error (the document is rejected)
              Raise RuntimeError   outside the modelled domain (the harness skips such inputs)
   [pre] and [post] are the repo-side validators (Validators.v): [pre cls raw] models pre-root
   and pre-field validators on the raw object, [post cls raw fields] the field and root
   validators on the parsed values. *)
From Coq Require Import List NArith ZArith Bool String.
Import ListNotations.
Require Import OJD.Base OJD.Lexer OJD.Json OJD.Schema OJD.Charsets OJD.Numerals OJD.NumPrint OJD.FormatStr OJD.CreateJob.
Local Open Scope string_scope.
Local Open Scope list_scope.

Definition reject {A} : outcome A := Raise ValueError.
Definition unsupported {A} : outcome A := Raise RuntimeError.

Definition zopt_ok (ge le gt : option Z) (z : Z) : bool :=
  (match ge with Some b => (b <=? z)%Z | None => true end)
  && (match le with Some b => (z <=? b)%Z | None => true end)
  && (match gt with Some b => (b <? z)%Z | None => true end).

(* int(float): truncation toward zero of m * 10^e *)
Definition trunc_dec (m e : Z) : Z :=
  if (0 <=? e)%Z then (m * 10 ^ e)%Z else Z.quot m (10 ^ (- e))%Z.

(* a number with a fractional part is not coerced to an int (fix cb389b6; the translator probes every
   non-strict int field with such a number on every run and fails closed if one truncates) *)
Definition dec_integral (m e : Z) : bool :=
  (0 <=? e)%Z || (Z.rem m (10 ^ (- e)) =? 0)%Z.

Definition s_True : str := $"True".
Definition s_False : str := $"False".

Section Parse.
  Variable SC : schema_t.
  Variable classify : N -> cclass.
  Variable pre : string -> json -> bool.
  Variable post : string -> json -> list (string * mval) -> bool.

  Definition fs_ok (s : str) : bool := match mk classify s with Ok _ => true | Raise _ => false end.

  Definition check_str (minl maxl : option N) (cs : charset) (s : str) : outcome mval :=
    if len_ok minl maxl s && cs_ok cs s then Ok (MStr s) else reject.

  Fixpoint parse_kind (fuel : nat) (k : kind) (v : json) {struct fuel} : outcome mval :=
    match fuel with
    | O => Raise RuntimeError
    | S f =>
      match k with
      | KLiteral lit => match v with JStr s => if str_eqb s (str_of_string lit) then Ok (MStr s) else reject | _ => reject end
      | KEnum members =>
        match v with
        | JStr s => if existsb (fun m => str_eqb s (str_of_string m)) members then Ok (MStr s) else reject
        | _ => reject
        end
      | KStr strict minl maxl cs =>
        match v with
        | JStr s => check_str minl maxl cs s
        | JInt z => if strict then reject else check_str minl maxl cs (print_Z z)
        | JBool b => if strict then reject else check_str minl maxl cs (if b then s_True else s_False)
        | JDec _ _ => if strict then reject else unsupported      (* str(float) *)
        | _ => reject
        end
      | KFormat _ minl maxl cs =>
        match v with
        | JStr s => if len_ok minl maxl s && cs_ok cs s && fs_ok s then Ok (MFmt s) else reject
        | _ => reject
        end
      | KBool strict =>
        match v with
        | JBool b => Ok (MBool b)
        | _ => if strict then reject else unsupported
        end
      | KInt strict ge le gt =>
        let fin (z : Z) : outcome mval := if zopt_ok ge le gt z then Ok (MInt z) else reject in
        match v with
        | JInt z => fin z
        | JBool b => if strict then reject else fin (if b then 1 else 0)%Z
        | JStr s => if strict then reject else match parse_int s with Some z => fin z | None => reject end
        | JDec m e => if strict then reject else if dec_integral m e then fin (trunc_dec m e) else reject
        | _ => reject
        end
      | KFloat gt =>
        let fin (m e : Z) : outcome mval :=
          match gt with
          | Some b => if num_ltb (num_of_Z b) (mkNum m e) then Ok (MFloat m e) else reject
          | None => Ok (MFloat m e)
          end in
        match v with
        | JInt z => fin z 0%Z
        | JDec m e => fin m e
        | JBool b => fin (if b then 1 else 0)%Z 0%Z
        | JStr _ => unsupported                                   (* float(str) *)
        | _ => reject
        end
      | KDec =>
        match v with
        | JInt z => Ok (MDec z 0)
        | JDec m e => Ok (MDec m e)
        | JStr s => match parse_dec s with Some (Fin m e) => Ok (MDec m e) | _ => reject end
        | _ => reject
        end
      | KModel c => parse_cls f c v
      | KDisc key mapping =>
        match v with
        | JObj ms =>
          match assoc (str_of_string key) ms with
          | Some (JStr s) =>
            match List.find (fun kc => str_eqb (str_of_string (fst kc)) s) mapping with
            | Some (_, c) => parse_cls f c v
            | None => reject
            end
          | _ => reject
          end
        | _ => reject
        end
      | KUnion alts =>
        (fix try (l : list ualt) : outcome mval :=
           match l with
           | [] => reject
           | a :: r =>
             let res :=
               match a with
               | UScalar k' => parse_kind f k' v
               | UList minl maxl k' =>
                 match v with
                 | JArr items =>
                   if len_ok_n minl maxl (List.length items)
                   then do l' <- mapM (parse_kind f k') items; Ok (MList l')
                   else reject
                 | _ => reject
                 end
               end in
             match res with
             | Ok x => Ok x
             | Raise RuntimeError => Raise RuntimeError
             | Raise _ => try r
             end
           end) alts
      end
    end
  with parse_cls (fuel : nat) (cname : string) (v : json) {struct fuel} : outcome mval :=
    match fuel with
    | O => Raise RuntimeError
    | S f =>
      match lookup_cls SC cname, v with
      | Some c, JObj ms =>
        if negb (pre cname v) then reject
        else if c_extra_forbid c && negb (forallb (fun kv => existsb (fun fl => str_eqb (fst kv) (str_of_string (f_alias fl))) (c_fields c)) ms)
        then reject
        else
          do fields <-
             mapM (fun fl =>
                     let raw := match assoc (str_of_string (f_alias fl)) ms with Some x => x | None => JNull end in
                     do x <-
                        match raw with
                        | JNull => if f_required fl then reject else Ok MNone
                        | _ =>
                          match f_shape fl with
                          | Single => parse_kind f (f_kind fl) raw
                          | ListOf minl maxl =>
                            match raw with
                            | JArr items =>
                              if len_ok_n minl maxl (List.length items)
                              then do l' <- mapM (parse_kind f (f_kind fl)) items; Ok (MList l')
                              else reject
                            | _ => reject
                            end
                          | DictOf kk =>
                            match raw with
                            | JObj members =>
                              do l' <- mapM (fun kv =>
                                               do _ <- parse_kind f kk (JStr (fst kv));
                                               do y <- parse_kind f (f_kind fl) (snd kv);
                                               Ok (fst kv, y)) members;
                              Ok (MDict l')
                            | _ => reject
                            end
                          end
                        end;
                     Ok (f_name fl, x)) (c_fields c);
          if post cname v fields then Ok (MModel cname fields) else reject
      | Some _, _ => reject
      | None, _ => Raise RuntimeError
      end
    end.

  Definition parse_fuel (j : json) : nat := 6 * json_depth j + 12.

  Definition parse_root (root : string) (j : json) : outcome mval := parse_cls (parse_fuel j) root j.
End Parse.
