(* ExportCreatedRel.v — p17j: the equality of model INSTANCES that pydantic 1.10 implements, as a relation on [mval].

     BaseModel.__eq__(self, other) = (self.dict() == other.dict())        (pydantic/main.py, checked on 1.10.26)

   - the CLASS of a node is not compared: RangeListTaskParameterDefinition(...) == IntRangeListTaskParameterDefinition(...)
     is True on the real classes (both ways), and a Job returned by create_job holds the subclass where the Job decoded
     from its export holds the base class;
   - .dict() is a Python dict from FIELD NAME to value: the order of the fields is irrelevant, a field whose value is
     None IS a key of that dict ({'a': None} != {}), and values are compared recursively (a nested model is its .dict());
   - FormatString is a subclass of str and compares as its text.

   [mval_equiv]: scalars equal (Decimal / float by representation, as Export.mval_eqb: the round trip must reproduce
   them exactly); str and FormatString by text; lists pointwise; a model node as the finite map  field name -> value
   (first binding of a name, as [lookup_s] and [CreateJob.mfield] read it): same names, equivalent values, class names
   and field order ignored.  Dictionaries (MDict: Job.parameters, taskParameterDefinitions, variables) are compared IN
   ORDER, key by key: stricter than Python's dict equality, so [mval_equiv a b] implies a == b for the instances.

   [meqb]: a boolean checker with fuel, sound for [mval_equiv] ([meqb_sound]); used to evaluate examples.
   Export.mval_eqb (class names ignored, fields compared IN ORDER) is finer: [mval_eqb_equiv]. *)
From Coq Require Import List NArith ZArith Bool String Lia.
Import ListNotations.
Require Import OJD.Base OJD.Json OJD.Schema OJD.CreateJob OJD.Export OJD.JsonEquiv OJD.CreateJobExactLib.
Local Open Scope string_scope.
Local Open Scope list_scope.

(* str(x) for the two string-valued constructors *)
Definition mtext (v : mval) : option str :=
  match v with MStr s | MFmt s => Some s | _ => None end.

Inductive mval_equiv : mval -> mval -> Prop :=
| ME_none : mval_equiv MNone MNone
| ME_bool : forall b, mval_equiv (MBool b) (MBool b)
| ME_int : forall z, mval_equiv (MInt z) (MInt z)
| ME_dec : forall m e, mval_equiv (MDec m e) (MDec m e)
| ME_float : forall m e, mval_equiv (MFloat m e) (MFloat m e)
| ME_text : forall a b s, mtext a = Some s -> mtext b = Some s -> mval_equiv a b
| ME_list : forall l l', Forall2 mval_equiv l l' -> mval_equiv (MList l) (MList l')
| ME_dict : forall l l',
    Forall2 (fun p q : str * mval => fst p = fst q /\ mval_equiv (snd p) (snd q)) l l' ->
    mval_equiv (MDict l) (MDict l')
| ME_model : forall c c' fs fs',
    (forall k, opt_rel mval_equiv (lookup_s k fs) (lookup_s k fs')) ->
    mval_equiv (MModel c fs) (MModel c' fs').

Lemma lookup_s_in : forall (A : Type) k (l : list (string * A)) v, lookup_s k l = Some v -> In (k, v) l.
Proof.
  induction l as [|[n x] r IH]; intros v H; [discriminate H|].
  cbn [lookup_s] in H. destruct (String.eqb n k) eqn:E.
  - apply String.eqb_eq in E. injection H as <-. subst n. left. reflexivity.
  - right. apply IH. exact H.
Qed.

Theorem mval_equiv_refl : forall v, mval_equiv v v.
Proof.
  induction v as [ | | | | | | |l IH|l IH|c fs IH] using mval_ind3; try constructor.
  - eapply ME_text; reflexivity.
  - eapply ME_text; reflexivity.
  - apply Forall2_refl_in. exact IH.
  - induction IH as [|kv r Hkv _ IHr]; constructor; [split; [reflexivity|exact Hkv]|exact IHr].
  - intros k. destruct (lookup_s k fs) as [v|] eqn:E; constructor.
    apply lookup_s_in in E. rewrite Forall_forall in IH. exact (IH (k, v) E).
Qed.

(* ------------------------------------------------------------------ a checker *)
Fixpoint meqb (fuel : nat) (a b : mval) : bool :=
  match fuel with
  | O => false
  | S f =>
    match a, b with
    | MNone, MNone => true
    | MBool x, MBool y => Bool.eqb x y
    | MInt x, MInt y => Z.eqb x y
    | MDec m e, MDec m' e' | MFloat m e, MFloat m' e' => Z.eqb m m' && Z.eqb e e'
    | MStr x, MStr y | MFmt x, MFmt y | MStr x, MFmt y | MFmt x, MStr y => str_eqb x y
    | MList l, MList l' =>
      (fix go (p q : list mval) : bool :=
         match p, q with
         | [], [] => true
         | x :: p', y :: q' => meqb f x y && go p' q'
         | _, _ => false
         end) l l'
    | MDict l, MDict l' =>
      (fix go (p q : list (str * mval)) : bool :=
         match p, q with
         | [], [] => true
         | (k, x) :: p', (k', y) :: q' => str_eqb k k' && meqb f x y && go p' q'
         | _, _ => false
         end) l l'
    | MModel _ fs, MModel _ fs' =>
      forallb (fun k => match lookup_s k fs, lookup_s k fs' with
                        | Some x, Some y => meqb f x y
                        | None, None => true
                        | _, _ => false
                        end) (map fst fs ++ map fst fs')
    | _, _ => false
    end
  end.

Lemma lookup_s_notin : forall (A : Type) k (l : list (string * A)), ~ In k (map fst l) -> lookup_s k l = None.
Proof.
  induction l as [|[n x] r IH]; intros H; [reflexivity|].
  cbn [lookup_s]. destruct (String.eqb n k) eqn:E.
  - apply String.eqb_eq in E. exfalso. apply H. left. exact E.
  - apply IH. intros Hc. apply H. right. exact Hc.
Qed.

Theorem meqb_sound : forall F a b, meqb F a b = true -> mval_equiv a b.
Proof.
  induction F as [|f IH]; intros a b H; [discriminate H|].
  destruct a as [|x|x|m e|m e|x|x|l|l|c fs], b as [|y|y|m' e'|m' e'|y|y|l'|l'|c' fs']; cbn [meqb] in H; try discriminate H.
  - constructor.
  - apply Bool.eqb_prop in H. subst y. constructor.
  - apply Z.eqb_eq in H. subst y. constructor.
  - apply andb_true_iff in H. destruct H as [H1 H2]. apply Z.eqb_eq in H1. apply Z.eqb_eq in H2. subst. constructor.
  - apply andb_true_iff in H. destruct H as [H1 H2]. apply Z.eqb_eq in H1. apply Z.eqb_eq in H2. subst. constructor.
  - apply je_str_eqb_eq in H. subst y. eapply ME_text; reflexivity.
  - apply je_str_eqb_eq in H. subst y. eapply ME_text; reflexivity.
  - apply je_str_eqb_eq in H. subst y. eapply ME_text; reflexivity.
  - apply je_str_eqb_eq in H. subst y. eapply ME_text; reflexivity.
  - constructor. revert l' H. induction l as [|x r IHr]; intros [|y r'] H; try discriminate H; constructor.
    + apply andb_true_iff in H. destruct H as [H1 _]. apply IH. exact H1.
    + apply andb_true_iff in H. destruct H as [_ H2]. apply IHr. exact H2.
  - constructor. revert l' H. induction l as [|[k x] r IHr]; intros [|[k' y] r'] H; try discriminate H; constructor.
    + apply andb_true_iff in H. destruct H as [H1 _]. apply andb_true_iff in H1. destruct H1 as [Hk Hx].
      apply je_str_eqb_eq in Hk. split; [exact Hk|apply IH; exact Hx].
    + apply andb_true_iff in H. destruct H as [_ H2]. apply IHr. exact H2.
  - constructor. intros k. rewrite forallb_forall in H.
    destruct (in_dec string_dec k (map fst fs ++ map fst fs')) as [Hin|Hout].
    + specialize (H k Hin). destruct (lookup_s k fs) as [x|], (lookup_s k fs') as [y|]; try discriminate H; constructor.
      apply IH. exact H.
    + rewrite (lookup_s_notin _ k fs), (lookup_s_notin _ k fs'); [constructor| |];
        intros Hc; apply Hout; apply in_or_app; [right|left]; exact Hc.
Qed.

(* Export.mval_eqb (class names ignored, fields IN ORDER) is finer *)
Lemma lookup_s_pointwise : forall (R : mval -> mval -> Prop) (fs fs' : list (string * mval)),
  Forall2 (fun p q => fst p = fst q /\ R (snd p) (snd q)) fs fs' ->
  forall k, opt_rel R (lookup_s k fs) (lookup_s k fs').
Proof.
  intros R fs fs' H k. induction H as [|[n x] [n' y] r r' [Hn Hx] _ IH]; [constructor|].
  cbn [fst snd] in Hn, Hx. subst n'. cbn [lookup_s]. destruct (String.eqb n k); [constructor; exact Hx|exact IH].
Qed.

Theorem mval_eqb_equiv : forall F a b, Export.mval_eqb F a b = true -> mval_equiv a b.
Proof.
  induction F as [|f IH]; intros a b H; [discriminate H|].
  destruct a as [|x|x|m e|m e|x|x|l|l|c fs], b as [|y|y|m' e'|m' e'|y|y|l'|l'|c' fs']; cbn [mval_eqb] in H; try discriminate H.
  - constructor.
  - apply Bool.eqb_prop in H. subst y. constructor.
  - apply Z.eqb_eq in H. subst y. constructor.
  - apply andb_true_iff in H. destruct H as [H1 H2]. apply Z.eqb_eq in H1. apply Z.eqb_eq in H2. subst. constructor.
  - apply andb_true_iff in H. destruct H as [H1 H2]. apply Z.eqb_eq in H1. apply Z.eqb_eq in H2. subst. constructor.
  - apply je_str_eqb_eq in H. subst y. eapply ME_text; reflexivity.
  - apply je_str_eqb_eq in H. subst y. eapply ME_text; reflexivity.
  - apply je_str_eqb_eq in H. subst y. eapply ME_text; reflexivity.
  - apply je_str_eqb_eq in H. subst y. eapply ME_text; reflexivity.
  - constructor. revert l' H. induction l as [|x r IHr]; intros [|y r'] H; try discriminate H; constructor.
    + apply andb_true_iff in H. destruct H as [H1 _]. apply IH. exact H1.
    + apply andb_true_iff in H. destruct H as [_ H2]. apply IHr. exact H2.
  - constructor. revert l' H. induction l as [|[k x] r IHr]; intros [|[k' y] r'] H; try discriminate H; constructor.
    + apply andb_true_iff in H. destruct H as [H1 _]. apply andb_true_iff in H1. destruct H1 as [Hk Hx].
      apply je_str_eqb_eq in Hk. split; [exact Hk|apply IH; exact Hx].
    + apply andb_true_iff in H. destruct H as [_ H2]. apply IHr. exact H2.
  - constructor. apply lookup_s_pointwise.
    revert fs' H. induction fs as [|[k x] r IHr]; intros [|[k' y] r'] H; try discriminate H; constructor.
    + apply andb_true_iff in H. destruct H as [H1 _]. apply andb_true_iff in H1. destruct H1 as [Hk Hx].
      apply String.eqb_eq in Hk. split; [exact Hk|apply IH; exact Hx].
    + apply andb_true_iff in H. destruct H as [_ H2]. apply IHr. exact H2.
Qed.
