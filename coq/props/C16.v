(* props/C16.v — "Format strings parse and resolve literally".

   Model: FormatStr.v ([mk] = FormatString(s), [expressions], [resolve], [validate_refs]);
   specification: FormatStrSpec.v ([Decomp], [DName], [norm], [spec_exprs], [spec_resolve]).
   Every theorem holds for ALL strings over code points and for every class table [classify]
   that agrees with the ASCII table ([ascii_ok], checked on every run against Python's re). *)
From Coq Require Import List NArith Bool Arith.
Import ListNotations.
Require Import OJD.Base OJD.Lexer OJD.Generated OJD.FormatStr OJD.FormatStrSpec OJD.FormatStrProofs.

(* FormatString(s) succeeds exactly when s decomposes as
   L0 "{{" E1 "}}" L1 ... "{{" En "}}" Ln with brace-pair-free literals and dotted names Ei. *)
Theorem C16_accept_iff : forall classify, ascii_ok classify = true -> forall s,
  (exists f, mk classify s = Ok f) <-> (exists segs last, Decomp classify s segs last).
Proof. exact mk_accept_iff. Qed.
Print Assumptions C16_accept_iff.

(* ... and the value built is determined by that decomposition *)
Theorem C16_value_iff : forall classify, ascii_ok classify = true -> forall s f,
  mk classify s = Ok f <->
  exists segs last, Decomp classify s segs last /\ f = mkF s (items_of classify 0 segs last).
Proof. exact mk_value_iff. Qed.
Print Assumptions C16_value_iff.

(* the decomposition is unique *)
Theorem C16_decomp_unique : forall classify, ascii_ok classify = true ->
  forall s segs1 last1 segs2 last2,
  Decomp classify s segs1 last1 -> Decomp classify s segs2 last2 -> segs1 = segs2 /\ last1 = last2.
Proof. exact decomp_unique. Qed.
Print Assumptions C16_decomp_unique.

(* the constructor raises nothing but FormatStringError (the loop fuel |s|+1 is never exhausted) *)
Theorem C16_errors : forall classify s e, mk classify s = Raise e -> e = FormatStringError.
Proof. exact mk_errors. Qed.
Print Assumptions C16_errors.

(* the value compares equal to s, and its pieces concatenate to s *)
Theorem C16_eq : forall classify, ascii_ok classify = true -> forall s f,
  mk classify s = Ok f -> orig f = s /\ concat (map piece_text (items f)) = s.
Proof. exact mk_eq. Qed.
Print Assumptions C16_eq.

(* .expressions lists, in order, (name with blanks removed, start, end) of each reference, and
   s[start:end] is exactly "{{" ++ Ei ++ "}}" *)
Theorem C16_spans : forall classify, ascii_ok classify = true -> forall s f,
  mk classify s = Ok f ->
  exists segs last, Decomp classify s segs last /\
    expressions f = spec_exprs classify 0 segs /\
    Forall2 (fun le x => fst (fst x) = norm classify (snd le) /\
                         slice s (snd (fst x)) (snd x) = open2 ++ snd le ++ close2)
            segs (expressions f).
Proof. exact mk_spans. Qed.
Print Assumptions C16_spans.

(* resolve() is the one-pass substitution computed from the decomposition of the ORIGINAL
   string ([spec_resolve] never looks at substituted text) *)
Theorem C16_resolve : forall classify, ascii_ok classify = true ->
  forall s f segs last sigma, mk classify s = Ok f -> Decomp classify s segs last ->
  resolve sigma f = match spec_resolve classify sigma segs last with
                    | Some r => Ok r
                    | None => Raise FormatStringError
                    end.
Proof. exact mk_resolve. Qed.
Print Assumptions C16_resolve.

Theorem C16_resolve_bound : forall classify, ascii_ok classify = true ->
  forall s f segs last sigma, mk classify s = Ok f -> Decomp classify s segs last ->
  (forall n, In n (refs classify segs) -> lookup sigma n <> None) ->
  exists r, spec_resolve classify sigma segs last = Some r /\ resolve sigma f = Ok r.
Proof. exact mk_resolve_bound. Qed.
Print Assumptions C16_resolve_bound.

(* resolve fails iff some referenced name has no value iff the reference check against the
   table's names fails; and it raises nothing but FormatStringError *)
Theorem C16_resolve_fail_iff : forall classify, ascii_ok classify = true ->
  forall s f sigma, mk classify s = Ok f ->
  (resolve sigma f = Raise FormatStringError <-> exists n, In n (names f) /\ lookup sigma n = None) /\
  ((exists n, In n (names f) /\ lookup sigma n = None) <-> validate_refs (dom sigma) f <> []) /\
  (forall e, resolve sigma f = Raise e -> e = FormatStringError).
Proof. exact mk_resolve_fail_iff. Qed.
Print Assumptions C16_resolve_fail_iff.

(* the parser half on its own: InterpolationExpression(e) succeeds iff e is a dotted name, and
   then yields its normalised name; this needs no assumption on the class table *)
Theorem C16_expr_iff : forall classify e name,
  interp_expr classify e = Ok name <-> DName classify e /\ name = norm classify e.
Proof. exact interp_iff. Qed.
Print Assumptions C16_expr_iff.

(* ------------------------------------------------------------------ non-vacuity, corner cases *)

(* ASCII table plus e-acute (233) and u-umlaut (252) as letters *)
Definition cls (c : N) : cclass :=
  if (c =? 233)%N || (c =? 252)%N then CNameStart else ascii_class c.

Example cls_ok : ascii_ok cls = true.
Proof. vm_compute. reflexivity. Qed.

Local Open Scope N_scope.
(* "x{{ a . b }}y{{c}}" *)
Definition ex1 : str := [120; 123;123; 32;97;32;46;32;98;32; 125;125; 121; 123;123;99;125;125].

Example C16_accept_nonvacuous : exists segs last, Decomp cls ex1 segs last.
Proof. apply (C16_accept_iff cls cls_ok). vm_compute. eauto. Qed.

Example C16_spans_nonvacuous :
  exists f, mk cls ex1 = Ok f /\
    expressions f = [([97;46;98], 1%nat, 12%nat); ([99], 13%nat, 18%nat)].
Proof. eexists. split; vm_compute; reflexivity. Qed.

(* sigma(a.b) = "{{c}}", sigma(c) = "Z":  the substituted "{{c}}" is not rescanned *)
Definition sig1 : symtab := [([97;46;98], [123;123;99;125;125]); ([99], [90])].

Example C16_resolve_nonvacuous :
  exists f, mk cls ex1 = Ok f /\ resolve sig1 f = Ok [120; 123;123;99;125;125; 121; 90].
Proof. eexists. split; vm_compute; reflexivity. Qed.

Example C16_resolve_fail_nonvacuous :
  exists f, mk cls ex1 = Ok f /\
    resolve [([99], [90])] f = Raise FormatStringError /\
    validate_refs (dom [([99], [90])]) f = [[97;46;98]].
Proof. eexists. split; [|split]; vm_compute; reflexivity. Qed.

(* corner cases: verdict of the model under [cls] *)
Definition verdict (s : str) : option (list (str * nat * nat)) :=
  match mk cls s with Ok f => Some (expressions f) | Raise _ => None end.

Example corner_cases :
  verdict [123;123;97;125;125;125] = Some [([97], 0%nat, 5%nat)]            (* "{{a}}}"  ok, literal "}" *)
  /\ verdict [125;125;123;123;97;125;125] = None                        (* "}}{{a}}" *)
  /\ verdict [123;123;123;97;125;125] = None                            (* "{{{a}}"  text is "{a" *)
  /\ verdict [123;123;97;125;125;123;123] = None                        (* "{{a}}{{" *)
  /\ verdict [123;123;97;10;46;98;125;125] = Some [([97;46;98], 0%nat, 8%nat)]    (* "{{a\n.b}}" *)
  /\ verdict [123;123;125;125] = None                                   (* "{{}}" *)
  /\ verdict [123;123;97;46;46;98;125;125] = None                       (* "{{a..b}}" *)
  /\ verdict [123;123;49;97;125;125] = None                             (* "{{1a}}" *)
  /\ verdict [123;123;233;46;252;50;125;125] = Some [([233;46;252;50], 0%nat, 8%nat)]  (* "{{é.ü2}}" *)
  /\ verdict [123] = Some [] /\ verdict [125] = Some []                 (* lone braces *)
  /\ verdict [123;32;123;97;125;32;125] = Some []                       (* "{ {a} }" is a literal *)
  /\ verdict [123;123;97;32;98;125;125] = None.                         (* "{{a b}}" *)
Proof. vm_compute. repeat split. Qed.

(* sanity of the specification: reference texts contain no brace (so the "}}" closing a
   reference is the next one after its "{{"), and with '.' the only dot-class character the
   name is the text with blanks removed *)
Theorem C16_refs_brace_free : forall classify, ascii_ok classify = true ->
  forall s segs last, Decomp classify s segs last ->
  Forall (fun le => ~ In lbrace (snd le) /\ ~ In rbrace (snd le)) segs.
Proof. exact decomp_refs_brace_free. Qed.
Print Assumptions C16_refs_brace_free.

Theorem C16_norm_blanks_removed : forall classify,
  (forall c, is_dot classify c = true -> c = dotc) ->
  forall e, norm classify e = filter (fun c => negb (is_blank classify c)) e.
Proof. exact norm_blanks_removed. Qed.
Print Assumptions C16_norm_blanks_removed.
