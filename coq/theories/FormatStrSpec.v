(* FormatStrSpec.v — declarative specification of C16, written from the property text:

     FormatString(s) succeeds exactly when every '{{' in s is closed by the next '}}', no '}}'
     is unopened, and each enclosed text is a dotted name (identifiers separated by '.',
     optional blanks); [...] its expressions list gives each reference's name and exact
     character span in order.  resolve() returns s with each reference span replaced by the
     string form of that name's value, in one pass; it raises FormatStringError iff some name
     has no value, which is also exactly when checking the references against that set of
     names fails.

   Character classes (blank, identifier start, identifier character, dot) are those of the
   lexer's class table [classify]; nothing here mentions find(), tokens or the scanner. *)
From Coq Require Import List NArith Bool Arith.
Import ListNotations.
Require Import OJD.Base OJD.Lexer OJD.FormatStr.

Section Spec.
  Variable classify : N -> cclass.

  Definition is_blank (c : N) : bool := cclass_eqb (classify c) CSpace.
  Definition is_nstart (c : N) : bool := cclass_eqb (classify c) CNameStart.
  Definition is_word (c : N) : bool :=
    match classify c with CNameStart | CDigit | CUDigit => true | _ => false end.
  Definition is_dot (c : N) : bool := cclass_eqb (classify c) CDot.

  Definition blanks (b : str) : Prop := forallb is_blank b = true.

  (* identifier: [^\d\W]\w*  *)
  Definition ident (w : str) : Prop :=
    match w with
    | [] => False
    | c :: r => is_nstart c = true /\ forallb is_word r = true
    end.

  (* (blanks* '.' blanks* identifier)* blanks*  *)
  Inductive DTail : str -> Prop :=
  | DT_end : forall b, blanks b -> DTail b
  | DT_dot : forall b1 d b2 w r,
      blanks b1 -> is_dot d = true -> blanks b2 -> ident w -> DTail r ->
      DTail (b1 ++ [d] ++ b2 ++ w ++ r).

  (* blanks* identifier (blanks* '.' blanks* identifier)* blanks*  *)
  Definition DName (e : str) : Prop :=
    exists b w r, blanks b /\ ident w /\ DTail r /\ e = b ++ w ++ r.

  (* the reference's name: the enclosed text with blanks removed (dots written '.') *)
  Definition norm (e : str) : str :=
    map (fun c => if is_dot c then dotc else c) (filter (fun c => negb (is_blank c)) e).
End Spec.

(* [p] does not occur in [l] *)
Definition NoSub (p l : str) : Prop := forall a b, l <> a ++ p ++ b.

Section Decomp.
  Variable classify : N -> cclass.

  (* s = L0 ++ "{{" ++ E1 ++ "}}" ++ L1 ++ ... ++ "{{" ++ En ++ "}}" ++ Ln, given as the
     segments [(L0,E1); ...; (L(n-1),En)] and the last literal Ln.
       - no literal contains "}}"                       (no '}}' is unopened);
       - the last literal contains no "{{"              (every '{{' is closed);
       - "{{" does not occur in Li ++ "{" for a literal followed by a reference, i.e. the
         reference's "{{" is the first one after the previous reference (with "{{{a}}" the
         reference text is "{a", not "a");
       - every Ei is a dotted name (so it contains no brace: its "}}" is the next one). *)
  Inductive Decomp : str -> list (str * str) -> str -> Prop :=
  | D_last : forall l, NoSub open2 l -> NoSub close2 l -> Decomp l [] l
  | D_seg : forall l e rest segs last,
      NoSub close2 l -> NoSub open2 (l ++ [lbrace]) -> DName classify e ->
      Decomp rest segs last ->
      Decomp (l ++ open2 ++ e ++ close2 ++ rest) ((l, e) :: segs) last.

  (* what .expressions must list: (name, start, end) of each reference, in order; [off] is
     the position at which the first segment starts *)
  Fixpoint spec_exprs (off : nat) (segs : list (str * str)) : list (str * nat * nat) :=
    match segs with
    | [] => []
    | (l, e) :: r =>
      let a := off + length l in
      let b := a + length open2 + length e + length close2 in
      (norm classify e, a, b) :: spec_exprs b r
    end.

  (* the names referenced *)
  Definition refs (segs : list (str * str)) : list str := map (fun le => norm classify (snd le)) segs.

  (* one-pass substitution defined from the decomposition of the ORIGINAL string only:
     L0 ++ sigma(n1) ++ L1 ++ ... ++ Ln; None when some name has no value *)
  Fixpoint spec_resolve (sigma : symtab) (segs : list (str * str)) (last : str) : option str :=
    match segs with
    | [] => Some last
    | (l, e) :: r =>
      match lookup sigma (norm classify e), spec_resolve sigma r last with
      | Some v, Some t => Some (l ++ v ++ t)
      | _, _ => None
      end
    end.

  (* the FormatString value the constructor must build: the literal and reference pieces in
     order (the code drops an empty literal at the very end of the string) *)
  Fixpoint items_of (off : nat) (segs : list (str * str)) (last : str) : list item :=
    match segs with
    | [] => match last with [] => [] | _ :: _ => [ILit last] end
    | (l, e) :: r =>
      let a := off + length l in
      let b := a + length open2 + length e + length close2 in
      ILit l :: IExpr a b e (norm classify e) :: items_of b r last
    end.
End Decomp.

(* text of one piece of a FormatString *)
Definition piece_text (it : item) : str :=
  match it with
  | ILit l => l
  | IExpr _ _ text _ => open2 ++ text ++ close2
  end.

Definition dom (sigma : symtab) : list str := map fst sigma.
