(* JobParams.v — model of job parameter preprocessing (C10):
     src/openjd/model/_create_job.py : _collect_extra_job_parameter_names,
        _collect_missing_job_parameter_names, _collect_defaults_2023_09, _check_2023_09,
        preprocess_job_parameters (after the definitions have been merged; merging is Merge.v)
     src/openjd/model/v2023_09/_model.py : _check_constraints of
        Job{String,Path,Int,Float}ParameterDefinition.
   Definitions only.

   Modelling decisions (each one is tied to /repo by harness/c10.py):
   * A definition is one record [pdef] for the four classes; fields that a class does not have
     are simply not read by that class's [check_*] function.
   * Numbers: INT bounds/allowed values are [num]s with exponent 0, FLOAT ones are the finite
     Decimal the decoder produced (pydantic rejects non-finite Decimals in a template).
     Comparison and membership are exact numeric comparison ([num_cmp]), which is what
     int.__lt__/__eq__ and Decimal.__lt__/__eq__ compute; `value not in self.allowedValues` is
     therefore NUMERIC equality for INT/FLOAT ("1.0" is a member of [1]) and string equality
     for STRING/PATH.
   * [pdefault] is the TEXT  str(param.default)  that _collect_defaults_2023_09 computes (the
     harness takes it from the decoded definition with Python's own str()); the code re-parses
     that text in _check_constraints, and so does the model.
   * PATH joining is C11's business.  Here a PATH value is an opaque string and the two joins
     are section parameters: [path_in v] is the string stored for a supplied non-empty PATH
     value (join with current_working_dir), [path_default t] the string stored for a non-empty
     PATH default or the ValueError of the containment rules.  Everything below holds for ANY
     such functions; constraints are checked on the stored (joined) string, as the code does.
     [dir_ok] is `allow_job_template_dir_walk_up or job_template_dir.is_absolute()`.
   * Python sets/dicts: the sets of extra/missing names are lists (only emptiness is observed);
     the returned dict is an association list in insertion (= definition) order; definitions
     reaching this code have distinct names (they are the values of a dict keyed by name).
   * [pinned_truthiness] reproduces the historical `if self.minValue and value < self.minValue`
     tests of the INT and FLOAT classes (finding fixed by 5aa47df); the theorems are about
     the instance [false].  STRING/PATH still use truthiness tests in the code today
     (`if self.minLength and ...`, `if self.allowedValues and ...`); they are modelled as
     written. *)
From Coq Require Import List NArith ZArith Bool.
Import ListNotations.
Require Import OJD.Base OJD.Numerals.
Local Open Scope Z_scope.

Inductive ptype : Type := STRING | PATH | INT | FLOAT.

Definition ptype_eqb (a b : ptype) : bool :=
  match a, b with
  | STRING, STRING | PATH, PATH | INT, INT | FLOAT, FLOAT => true
  | _, _ => false
  end.

Inductive objtype : Type := OT_FILE | OT_DIRECTORY.
Inductive dataflow : Type := DF_NONE | DF_IN | DF_OUT | DF_INOUT.

Record pdef : Type := mkDef {
  pname : str;
  ptyp : ptype;
  pminv : option num;               (* minValue   (INT, FLOAT) *)
  pmaxv : option num;               (* maxValue   (INT, FLOAT) *)
  pallowed_n : option (list num);   (* allowedValues (INT, FLOAT) *)
  pallowed_s : option (list str);   (* allowedValues (STRING, PATH) *)
  pminlen : option Z;               (* minLength  (STRING, PATH) *)
  pmaxlen : option Z;               (* maxLength  (STRING, PATH) *)
  pdefault : option str;            (* str(default) *)
  pobjtype : option objtype;        (* PATH *)
  pdataflow : option dataflow       (* PATH *)
}.

Definition is_path (d : pdef) : bool := ptype_eqb (ptyp d) PATH.

Fixpoint lookup {A} (k : str) (l : list (str * A)) : option A :=
  match l with
  | [] => None
  | (k', v) :: r => if str_eqb k k' then Some v else lookup k r
  end.

Definition slen (v : str) : Z := Z.of_nat (length v).

(* Python truthiness of Optional[list] and Optional[int] *)
Definition truthy_list {A} (o : option (list A)) : option (list A) :=
  match o with Some (x :: l) => Some (x :: l) | _ => None end.
Definition truthy_int (o : option Z) : option Z :=
  match o with Some z => if z =? 0 then None else Some z | None => None end.

(* sequencing of checks: the first raise wins *)
Definition andthen (a : outcome unit) (b : outcome unit) : outcome unit :=
  match a with Ok _ => b | Raise e => Raise e end.
Infix ";;;" := andthen (at level 61, left associativity).

Definition vfail (b : bool) : outcome unit := if b then Raise ValueError else Ok tt.

(* a returned entry: ParameterValue(type=..., value=...) under its name *)
Notation entry := (str * (ptype * str))%type (only parsing).

Section Model.
  Variable pinned_truthiness : bool.
  Variable dir_ok : bool.
  Variable path_in : str -> str.
  Variable path_default : str -> outcome str.

  (* the bound actually tested:  `self.minValue is not None`  today;
     `self.minValue` (truthiness: None, 0 and Decimal(0) are skipped) on the pinned tree *)
  Definition tested_bound (o : option num) : option num :=
    match o with
    | None => None
    | Some b => if pinned_truthiness && negb (num_truthy b) then None else Some b
    end.

  (* the shared tail of the INT and FLOAT checks *)
  Definition check_number (d : pdef) (x : num) : outcome unit :=
    match truthy_list (pallowed_n d) with
    | Some l => vfail (negb (mem_num x l))
    | None => Ok tt
    end ;;;
    match tested_bound (pminv d) with
    | Some b => vfail (num_ltb x b)
    | None => Ok tt
    end ;;;
    match tested_bound (pmaxv d) with
    | Some b => vfail (num_ltb b x)
    | None => Ok tt
    end.

  (* JobIntParameterDefinition._check_constraints on a str value *)
  Definition check_int (d : pdef) (v : str) : outcome unit :=
    match parse_int v with
    | None => Raise ValueError                    (* int(value) raised ValueError *)
    | Some z => check_number d (num_of_Z z)
    end.

  (* JobFloatParameterDefinition._check_constraints on a str value *)
  Definition check_float (d : pdef) (v : str) : outcome unit :=
    match parse_dec v with
    | None => Raise ValueError                    (* InvalidOperation -> ValueError *)
    | Some (Inf _) | Some NaN => Raise ValueError (* not value.is_finite() *)
    | Some (Fin m e) => check_number d (mkNum m e)
    end.

  (* Job{String,Path}ParameterDefinition._check_constraints on a str value *)
  Definition check_string (d : pdef) (v : str) : outcome unit :=
    match truthy_list (pallowed_s d) with
    | Some l => vfail (negb (mem_str v l))
    | None => Ok tt
    end ;;;
    match truthy_int (pminlen d) with
    | Some n => vfail (slen v <? n)
    | None => Ok tt
    end ;;;
    match truthy_int (pmaxlen d) with
    | Some n => vfail (n <? slen v)
    | None => Ok tt
    end.

  Definition check_constraints (d : pdef) (v : str) : outcome unit :=
    match ptyp d with
    | STRING | PATH => check_string d v
    | INT => check_int d v
    | FLOAT => check_float d v
    end.

  (* set(job_parameter_values).difference(available) *)
  Definition collect_extra (defs : list pdef) (vals : list (str * str)) : list str :=
    filter (fun n => negb (mem_str n (map pname defs))) (map fst vals).

  (* available.difference(set(return_value.keys())) *)
  Definition collect_missing (defs : list pdef) (rv : list entry) : list str :=
    filter (fun n => negb (mem_str n (map fst rv))) (map pname defs).

  (* the value stored for a defaulted parameter *)
  Definition default_value (d : pdef) (t : str) : outcome str :=
    if is_path d && negb (is_nil t) then path_default t else Ok t.

  (* the value stored for a supplied parameter *)
  Definition supplied_value (d : pdef) (v : str) : str :=
    if is_path d && negb (is_nil v) then path_in v else v.

  (* the loop of _collect_defaults_2023_09 *)
  Fixpoint collect_loop (defs : list pdef) (vals : list (str * str)) : outcome (list entry) :=
    match defs with
    | [] => Ok []
    | d :: ds =>
      match lookup (pname d) vals with
      | None =>
        match pdefault d with
        | None => collect_loop ds vals
        | Some t =>
          do v <- default_value d t;
          do r <- collect_loop ds vals;
          Ok ((pname d, (ptyp d, v)) :: r)
        end
      | Some v =>
        do r <- collect_loop ds vals;
        Ok ((pname d, (ptyp d, supplied_value d v)) :: r)
      end
    end.

  Definition collect_defaults (defs : list pdef) (vals : list (str * str)) : outcome (list entry) :=
    if dir_ok then collect_loop defs vals else Raise ValueError.

  (* _check_2023_09: ValueErrors of the checks are collected, anything else escapes *)
  Fixpoint check_loop (defs : list pdef) (rv : list entry) : outcome nat :=
    match defs with
    | [] => Ok O
    | d :: ds =>
      match lookup (pname d) rv with
      | None => check_loop ds rv
      | Some (_, v) =>
        match check_constraints d v with
        | Ok _ => check_loop ds rv
        | Raise ValueError => do n <- check_loop ds rv; Ok (S n)
        | Raise e => Raise e
        end
      end
    end.

  Definition check_all (defs : list pdef) (rv : list entry) : outcome unit :=
    do n <- check_loop defs rv;
    match n with O => Ok tt | S _ => Raise ValueError end.

  (* preprocess_job_parameters after merge_job_parameter_definitions: [errors] counts the
     messages appended; [rv] is return_value at the end *)
  Definition finish (errors : nat) (rv : list entry) : outcome (list entry) :=
    match errors with O => Ok rv | S _ => Raise ValueError end.

  Definition count_if {A} (l : list A) : nat := match l with [] => O | _ => S O end.

  Definition preprocess (defs : list pdef) (vals : list (str * str)) : outcome (list entry) :=
    let e0 := count_if (collect_extra defs vals) in
    match defs with
    | [] => finish e0 []                          (* `if parameterDefinitions:` is false *)
    | _ :: _ =>
      match collect_defaults defs vals with
      | Ok rv =>
        match check_all defs rv with
        | Ok _ => finish (e0 + count_if (collect_missing defs rv)) rv
        | Raise ValueError => finish (e0 + 1 + count_if (collect_missing defs rv)) rv
        | Raise e => Raise e
        end
      | Raise ValueError => finish (e0 + 1 + count_if (collect_missing defs [])) []
      | Raise e => Raise e
      end
    end.

End Model.

(* ---------- the concrete joins used by the correspondence check ----------
   job_template_dir = /t, current_working_dir = /c, walk-up disallowed, and PATH strings
   restricted by the harness to "", absolute "/..." and plain relative names (letters and
   digits only), on which pathlib's join is the concatenation below (the harness checks this
   claim against pathlib on every value it uses).  C11 owns the general case. *)
Definition starts_with_slash (v : str) : bool := match v with 47%N :: _ => true | _ => false end.
Definition simple_path_in (v : str) : str :=
  if starts_with_slash v then v else [47; 99; 47]%N ++ v.
Definition simple_path_default (t : str) : outcome str :=
  if starts_with_slash t then Raise ValueError else Ok ([47; 116; 47]%N ++ t).
