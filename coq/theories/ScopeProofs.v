(* ScopeProofs.v — C03: the pre-validation walk of ScopeWalk.v, run on Generated.schema, equals the
   document-level specification ScopeSpec.v for ALL json documents (exact list equality).

   One characterisation lemma per model class on the path (walk_Action, walk_StepActions,
   walk_EnvironmentActions, walk_EFT, walk_StepScript, walk_EnvironmentScript, walk_Environment,
   walk_{Int,Float,String,Path}TP, wdisc_task_param, walk_SPSD, walk_AmountRT, walk_AttrRT, walk_HostRT,
   walk_StepTemplate, walk_JobTemplate, walk_EnvTemplate), each obtained by unfolding the generic
   walker one step (ScopeLib.walk_S / collect_S) on the concrete class record looked up in
   Generated.schema (cls_X, lk_X by vm_compute).  Shape of a class lemma: if the fuel is at least
   2 * json_depth v + 2 and the inherited symbol table agrees, by membership, with a visibility
   predicate, then the walk of the class on v is the specification of that class.
   Classes without reference sites (cancelation methods, job parameter definitions and their
   user-interface classes, step dependencies) are discharged by ScopeLib.walk_silent.
   The lemmas mention Generated.schema, so they are re-checked whenever the metadata changes. *)
From Coq Require Import List NArith ZArith Bool String Lia Btauto.
Import ListNotations.
Require Import OJD.Base OJD.Json OJD.Schema OJD.Generated OJD.ScopeWalk OJD.ScopeSpec OJD.ScopeLib.
Local Open Scope string_scope.
Local Open Scope list_scope.

Notation SC := Generated.schema.
Definition dummy_cls : cls := mkCls false false None defs_none [] jcm_trivial [] [].
Definition getc (n : string) : cls := match lookup_cls SC n with Some c => c | None => dummy_cls end.

Definition cls_Action := Eval vm_compute in getc "Action".
Lemma lk_Action : lookup_cls SC "Action" = Some cls_Action. Proof. vm_compute. reflexivity. Qed.
Definition cls_StepActions := Eval vm_compute in getc "StepActions".
Lemma lk_StepActions : lookup_cls SC "StepActions" = Some cls_StepActions. Proof. vm_compute. reflexivity. Qed.
Definition cls_EnvironmentActions := Eval vm_compute in getc "EnvironmentActions".
Lemma lk_EnvironmentActions : lookup_cls SC "EnvironmentActions" = Some cls_EnvironmentActions. Proof. vm_compute. reflexivity. Qed.
Definition cls_EFT := Eval vm_compute in getc "EmbeddedFileText".
Lemma lk_EFT : lookup_cls SC "EmbeddedFileText" = Some cls_EFT. Proof. vm_compute. reflexivity. Qed.

Ltac fields c := let r := eval vm_compute in (c_fields c) in change (c_fields c) with r.
Ltac srcs := repeat match goal with |- context [srcs_of ?c ?n] => let r := eval vm_compute in (srcs_of c n) in change (srcs_of c n) with r end.


Ltac simp_wsc := repeat match goal with |- context [wsc ?c ?s] => let r := eval vm_compute in (wsc c s) in change (wsc c s) with r end.

Ltac wf_inert :=
  repeat match goal with
  | |- context [wfield ?S ?refs (Datatypes.S ?f) ?c ?v ?sc ?p ?m ?syms ?l (mkField ?n ?a ?r ?sh ?k)] =>
    first [ rewrite (wfield_literal S refs (Datatypes.S f) c v sc p m syms l (mkField n a r sh k) eq_refl)
          | rewrite (wfield_inert S refs f c v sc p m syms l (mkField n a r sh k) eq_refl) ]
  end.

(* rewrite every format-string field of the current class; [vis] is the visibility predicate,
   [tac] proves the symbol-table side condition *)
Ltac wf_fmt vis tac :=
  repeat match goal with
  | |- context [wfield ?S ?refs (Datatypes.S ?f) ?c ?v ?sc ?p ?m ?syms ?l (mkField ?n ?a ?r Single (KFormat ?x1 ?x2 ?x3 ?x4))] =>
    rewrite (wfield_fmt_single S refs vis f c v sc p m syms l (mkField n a r Single (KFormat x1 x2 x3 x4)) x1 x2 x3 x4 eq_refl eq_refl); [|tac]
  | |- context [wfield ?S ?refs (Datatypes.S ?f) ?c ?v ?sc ?p ?m ?syms ?l (mkField ?n ?a ?r (ListOf ?mn ?mx) (KFormat ?x1 ?x2 ?x3 ?x4))] =>
    rewrite (wfield_fmt_list S refs vis f c v sc p m syms l (mkField n a r (ListOf mn mx) (KFormat x1 x2 x3 x4)) mn mx x1 x2 x3 x4 eq_refl eq_refl); [|tac]
  | |- context [wfield ?S ?refs (Datatypes.S ?f) ?c ?v ?sc ?p ?m ?syms ?l (mkField ?n ?a ?r (DictOf ?kk) (KFormat ?x1 ?x2 ?x3 ?x4))] =>
    rewrite (wfield_fmt_dict S refs vis f c v sc p m syms l (mkField n a r (DictOf kk) (KFormat x1 x2 x3 x4)) kk x1 x2 x3 x4 eq_refl eq_refl); [|tac]
  end.

Ltac wf_model :=
  repeat match goal with
  | |- context [wfield ?S ?refs (Datatypes.S ?f) ?c ?v ?sc ?p ?m ?syms ?l (mkField ?n ?a ?r Single (KModel ?cn))] =>
    rewrite (wfield_model_single S refs f c v sc p m syms l (mkField n a r Single (KModel cn)) cn eq_refl eq_refl)
  | |- context [wfield ?S ?refs (Datatypes.S ?f) ?c ?v ?sc ?p ?m ?syms ?l (mkField ?n ?a ?r (ListOf ?mn ?mx) (KModel ?cn))] =>
    rewrite (wfield_model_list S refs f c v sc p m syms l (mkField n a r (ListOf mn mx) (KModel cn)) mn mx cn eq_refl eq_refl)
  | |- context [wfield ?S ?refs (Datatypes.S ?f) ?c ?v ?sc ?p ?m ?syms ?l (mkField ?n ?a ?r Single (KDisc ?dk ?mp))] =>
    rewrite (wfield_disc_single S refs f c v sc p m syms l (mkField n a r Single (KDisc dk mp)) dk mp eq_refl eq_refl)
  | |- context [wfield ?S ?refs (Datatypes.S ?f) ?c ?v ?sc ?p ?m ?syms ?l (mkField ?n ?a ?r (ListOf ?mn ?mx) (KDisc ?dk ?mp))] =>
    rewrite (wfield_disc_list S refs f c v sc p m syms l (mkField n a r (ListOf mn mx) (KDisc dk mp)) mn mx dk mp eq_refl eq_refl)
  end.

(* side condition for a class without sources: the symbols are the inherited ones *)
Ltac nosrc Hv :=
  intros; unfold fsyms; cbn [f_name]; srcs; rewrite gather_nil, mem_of_union, mem_of_empty; apply Hv.

(* the fuel obligation of a child value *)
Ltac fuel :=
  intros;
  repeat match goal with
  | H : is_obj (jget ?n ?v) = true |- _ => apply obj_not_null in H; apply jget_depth in H
  | H : In ?x ?items |- _ => apply arr_depth in H
  end; lia.
Definition cls_StepScript := Eval vm_compute in getc "StepScript".
Lemma lk_StepScript : lookup_cls SC "StepScript" = Some cls_StepScript. Proof. vm_compute. reflexivity. Qed.

Ltac streqs := repeat match goal with |- context [String.eqb ?a ?b] => let r := eval vm_compute in (String.eqb a b) in change (String.eqb a b) with r end.

Section P.
Variable refs : str -> option (list str).

Lemma silent_cancel : forall cn, In cn (map snd [("NOTIFY_THEN_TERMINATE", "CancelationMethodNotifyThenTerminate"); ("TERMINATE", "CancelationMethodTerminate")]) -> silent SC 1 cn = true.
Proof. intros cn [H|[H|[]]]; subst; vm_compute; reflexivity. Qed.

Lemma walk_Action : forall f v sc p syms l vis,
  (is_obj v = true -> 2 * json_depth v + 2 <= f) ->
  (forall n, mem_of syms sc n = vis n) ->
  wobj SC refs f "Action" v sc p syms l = spec_action refs vis l v.
Proof.
  intros f v sc p syms l vis Hf Hv. unfold spec_action.
  destruct (is_obj v) eqn:Eo; [|destruct v; try discriminate; reflexivity].
  specialize (Hf eq_refl). destruct v; try discriminate.
  pose proof (json_depth_pos (JObj members)) as Hpos.
  destruct f as [|[|f]]; [lia | lia |].
  unfold wobj. rewrite walk_S, lk_Action.
  destruct (collect_some SC (S f) "Action" (JObj members) (wsc cls_Action sc) (wprefix cls_Action p)) as [m Hm]; [lia|]. rewrite Hm.
  fields cls_Action. cbn [flat_map]. simp_wsc. generalize (wprefix cls_Action p); intros p'.
  wf_inert. wf_fmt vis ltac:(nosrc Hv). wf_model. cbn [f_name].
  rewrite (wdisc_silent SC refs 1); [|exact silent_cancel|fuel].
  rewrite !app_nil_r. reflexivity.
Qed.

Lemma walk_StepActions : forall f v sc p syms l vis,
  (is_obj v = true -> 2 * json_depth v + 2 <= f) ->
  (forall n, mem_of syms sc n = vis n) ->
  wobj SC refs f "StepActions" v sc p syms l
  = if is_obj v then spec_action refs vis (l ++ [key "onRun"]) (jget "onRun" v) else [].
Proof.
  intros f v sc p syms l vis Hf Hv.
  destruct (is_obj v) eqn:Eo; [|destruct v; try discriminate; reflexivity].
  specialize (Hf eq_refl). destruct v; try discriminate.
  pose proof (json_depth_pos (JObj members)) as Hpos.
  destruct f as [|[|f]]; [lia | lia |].
  unfold wobj at 1. rewrite walk_S, lk_StepActions.
  destruct (collect_some SC (S f) "StepActions" (JObj members) (wsc cls_StepActions sc) (wprefix cls_StepActions p)) as [m Hm]; [lia|]. rewrite Hm.
  fields cls_StepActions. cbn [flat_map]. simp_wsc. generalize (wprefix cls_StepActions p); intros p'.
  wf_model. cbn [f_name].
  rewrite (walk_Action _ _ _ _ _ _ vis); [|fuel|nosrc Hv].
  rewrite !app_nil_r. reflexivity.
Qed.

Lemma walk_EnvironmentActions : forall f v sc p syms l vis,
  (is_obj v = true -> 2 * json_depth v + 2 <= f) ->
  (forall n, mem_of syms sc n = vis n) ->
  wobj SC refs f "EnvironmentActions" v sc p syms l
  = if is_obj v then spec_action refs vis (l ++ [key "onEnter"]) (jget "onEnter" v)
                     ++ spec_action refs vis (l ++ [key "onExit"]) (jget "onExit" v) else [].
Proof.
  intros f v sc p syms l vis Hf Hv.
  destruct (is_obj v) eqn:Eo; [|destruct v; try discriminate; reflexivity].
  specialize (Hf eq_refl). destruct v; try discriminate.
  pose proof (json_depth_pos (JObj members)) as Hpos.
  destruct f as [|[|f]]; [lia | lia |].
  unfold wobj at 1. rewrite walk_S, lk_EnvironmentActions.
  destruct (collect_some SC (S f) "EnvironmentActions" (JObj members) (wsc cls_EnvironmentActions sc) (wprefix cls_EnvironmentActions p)) as [m Hm]; [lia|]. rewrite Hm.
  fields cls_EnvironmentActions. cbn [flat_map]. simp_wsc. generalize (wprefix cls_EnvironmentActions p); intros p'.
  wf_model. cbn [f_name].
  rewrite !(walk_Action _ _ _ _ _ _ vis); [|fuel|nosrc Hv|fuel|nosrc Hv].
  rewrite !app_nil_r. reflexivity.
Qed.

Lemma wprefix_nobar : forall c p, d_prefix (c_defs c) = "" -> wprefix c p = p.
Proof. intros c p H. unfold wprefix. rewrite H. cbn. apply app_nil_r. Qed.

(* an embedded file: its data may refer to everything the script sees (which includes the
   file's own name, hence the absorption premise) *)
Lemma walk_EFT : forall f v sc p syms l vis,
  (is_obj v = true -> 2 * json_depth v + 2 <= f) ->
  (forall n, mem_of syms sc n = vis n) ->
  (forall n, mem_of (cself cls_EFT v sc p) sc n = true -> vis n = true) ->
  wobj SC refs f "EmbeddedFileText" v sc p syms l
  = if is_obj v then chk refs vis (l ++ [key "data"]) (jget "data" v) else [].
Proof.
  intros f v sc p syms l vis Hf Hv Habs.
  destruct (is_obj v) eqn:Eo; [|destruct v; try discriminate; reflexivity].
  specialize (Hf eq_refl). destruct v; try discriminate.
  pose proof (json_depth_pos (JObj members)) as Hpos.
  destruct f as [|[|f]]; [lia | lia |].
  unfold wobj at 1. rewrite walk_S, lk_EFT.
  rewrite (wprefix_nobar cls_EFT p eq_refl). simp_wsc.
  destruct (collect_some SC (S f) "EmbeddedFileText" (JObj members) sc p) as [m Hm]; [lia|]. rewrite Hm.
  destruct (collect_inv _ _ _ _ _ _ _ _ lk_EFT Hm) as [es [Hes Hmm]]. subst m.
  fields cls_EFT. cbn [flat_map].
  wf_inert. wf_fmt vis ltac:(idtac). 
  - cbn [f_name]. rewrite !app_nil_r. reflexivity.
  - intros n. unfold fsyms. cbn [f_name]. srcs. rewrite mem_of_union, gather_mem. cbn [existsb].
    rewrite lookup_cresult_self, orb_false_r, <- Hv.
    destruct (mem_of (cself cls_EFT (JObj members) sc p) sc n) eqn:E; [|reflexivity].
    apply Habs in E. rewrite <- Hv in E. rewrite E. reflexivity.
Qed.

End P.

Section P2.
Variable refs : str -> option (list str).

Lemma cself_StepScript : forall v p n, mem_of (cself cls_StepScript v TASK p) TASK n = session_const n.
Proof.
  intros. unfold session_const. cbn.
  repeat match goal with |- context [str_eqb n ?x] => destruct (str_eqb n x) end; reflexivity.
Qed.

Lemma files_mem : forall (pre : string) sc files n,
  scope_le SESSION sc = true ->
  existsb (fun x => mem_of (cexport_self SC (KModel "EmbeddedFileText") x sc (str_of_string pre)) sc n) (obj_list files)
  = named (pre ++ "File.") (file_names files) n.
Proof.
  intros pre sc files n Hsc. unfold file_names. rewrite named_declared. apply existsb_ext_in. intros x _.
  rewrite (cexport_model_mem SC _ _ _ _ _ _ _ _ lk_EFT eq_refl eq_refl eq_refl).
  destruct (decl_name x); [|reflexivity]. cbn [d_defines c_defs cls_EFT existsb fst snd].
  rewrite Hsc. cbn [andb orb]. rewrite orb_false_r.
  unfold sym_name. change (starts_with_bar "File.") with false. cbv iota.
  rewrite str_of_string_app, app_assoc. reflexivity.
Qed.

Lemma walk_StepScript : forall f v sc p syms l vis,
  (is_obj v = true -> 2 * json_depth v + 2 <= f) ->
  (forall n, vis n = mem_of syms TASK n || session_const n
                     || named "Task.File." (file_names (jget "embeddedFiles" v)) n) ->
  wobj SC refs f "StepScript" v sc p syms l
  = if is_obj v then
      (if is_obj (jget "actions" v)
       then spec_action refs vis (l ++ [key "actions"; key "onRun"]) (jget "onRun" (jget "actions" v))
       else [])
      ++ spec_files refs vis (l ++ [key "embeddedFiles"]) (jget "embeddedFiles" v)
    else [].
Proof.
  intros f v sc p syms l vis Hf Hv.
  destruct (is_obj v) eqn:Eo; [|destruct v; try discriminate; reflexivity].
  specialize (Hf eq_refl). destruct v; try discriminate.
  pose proof (json_depth_pos (JObj members)) as Hpos.
  destruct f as [|[|f]]; [lia | lia |].
  unfold wobj at 1. rewrite walk_S, lk_StepScript.
  simp_wsc. change (wprefix cls_StepScript p) with ($"Task.").
  destruct (collect_some SC (S f) "StepScript" (JObj members) TASK $"Task.") as [m Hm]; [lia|]. rewrite Hm.
  destruct (collect_inv _ _ _ _ _ _ _ _ lk_StepScript Hm) as [es [Hes Hmm]]. subst m.
  (* what the script's own table contains *)
  assert (Hsym : forall name n,
            srcs_of cls_StepScript name = ["__self__"; "embeddedFiles"] ->
            mem_of (fsyms cls_StepScript (cresult cls_StepScript (JObj members) TASK $"Task." es) syms name) TASK n = vis n).
  { intros name n Hsrc. unfold fsyms. rewrite Hsrc, mem_of_union, gather_mem. cbn [existsb].
    rewrite lookup_cresult_self, (lookup_cresult_field SC f _ _ _ _ _ "embeddedFiles" Hes eq_refl eq_refl).
    rewrite cself_StepScript, Hv.
    destruct (centry_list_self SC f (JObj members) TASK $"Task."
                (mkField "embeddedFiles" "embeddedFiles" false (ListOf (Some 1%N) None) (KModel "EmbeddedFileText"))
                (Some 1%N) None eq_refl eq_refl eq_refl) as [e [He HM]]; [lia|].
    fields cls_StepScript. cbn [lk_entries f_name]. streqs. cbv iota. rewrite He.
    specialize (HM TASK n). cbn [f_name f_kind] in HM.
    rewrite (files_mem "Task." TASK _ n eq_refl) in HM. change ("Task." ++ "File.")%string with "Task.File." in HM.
    rewrite <- HM. destruct e as [|[? t] ?]; btauto. }
  fields cls_StepScript. cbn [flat_map]. wf_model. cbn [f_name].
  rewrite (walk_StepActions _ _ _ _ _ _ _ vis); [|fuel|intros; apply Hsym; reflexivity].
  rewrite !app_nil_r. f_equal.
  - rewrite <- !app_assoc. reflexivity.
  - unfold spec_files. destruct (jget "embeddedFiles" (JObj members)) eqn:Efiles; try reflexivity.
    apply concat_map_indexed_ext. intros i x Hx. cbn [fst snd].
    rewrite (walk_EFT _ _ _ _ _ _ _ vis).
    + rewrite <- !app_assoc. reflexivity.
    + intros _. assert (Hd : S (json_depth (JArr l0)) <= json_depth (JObj members)).
      { rewrite <- Efiles. apply jget_depth. rewrite Efiles. reflexivity. }
      apply arr_depth in Hx. lia.
    + intros; apply Hsym; reflexivity.
    + intros n Hn. rewrite Hv. 
      assert (Hx' : named "Task.File." (file_names (JArr l0)) n = true).
      { pose proof (files_mem "Task." TASK (JArr l0) n eq_refl) as HF.
        change ("Task." ++ "File.")%string with "Task.File." in HF. rewrite <- HF. cbn [obj_list].
        apply existsb_exists. exists x. split; [exact Hx|].
        unfold cexport_self. cbn [ctarget]. rewrite lk_EFT.
        change (lookup_s "__export__" (c_sources cls_EFT)) with (Some ["__self__"]).
        destruct x; try (cbn in Hn; discriminate).
        rewrite mem_of_union, mem_of_empty. exact Hn. }
      rewrite Hx'. btauto.
Qed.
End P2.

Definition cls_EnvironmentScript := Eval vm_compute in getc "EnvironmentScript".
Lemma lk_EnvironmentScript : lookup_cls SC "EnvironmentScript" = Some cls_EnvironmentScript. Proof. vm_compute. reflexivity. Qed.
Definition cls_Environment := Eval vm_compute in getc "Environment".
Lemma lk_Environment : lookup_cls SC "Environment" = Some cls_Environment. Proof. vm_compute. reflexivity. Qed.

Section P3.
Variable refs : str -> option (list str).

Lemma cself_EnvironmentScript : forall v p n, mem_of (cself cls_EnvironmentScript v SESSION p) SESSION n = session_const n.
Proof.
  intros. unfold session_const. cbn.
  repeat match goal with |- context [str_eqb n ?x] => destruct (str_eqb n x) end; reflexivity.
Qed.

Lemma walk_EnvironmentScript : forall f v p syms l vis,
  (is_obj v = true -> 2 * json_depth v + 2 <= f) ->
  (forall n, vis n = mem_of syms SESSION n || session_const n
                     || named "Env.File." (file_names (jget "embeddedFiles" v)) n) ->
  wobj SC refs f "EnvironmentScript" v SESSION p syms l
  = if is_obj v then
      (if is_obj (jget "actions" v)
       then spec_action refs vis (l ++ [key "actions"; key "onEnter"]) (jget "onEnter" (jget "actions" v))
            ++ spec_action refs vis (l ++ [key "actions"; key "onExit"]) (jget "onExit" (jget "actions" v))
       else [])
      ++ spec_files refs vis (l ++ [key "embeddedFiles"]) (jget "embeddedFiles" v)
    else [].
Proof.
  intros f v p syms l vis Hf Hv.
  destruct (is_obj v) eqn:Eo; [|destruct v; try discriminate; reflexivity].
  specialize (Hf eq_refl). destruct v; try discriminate.
  pose proof (json_depth_pos (JObj members)) as Hpos.
  destruct f as [|[|f]]; [lia | lia |].
  unfold wobj at 1. rewrite walk_S, lk_EnvironmentScript.
  simp_wsc. change (wprefix cls_EnvironmentScript p) with ($"Env.").
  destruct (collect_some SC (S f) "EnvironmentScript" (JObj members) SESSION $"Env.") as [m Hm]; [lia|]. rewrite Hm.
  destruct (collect_inv _ _ _ _ _ _ _ _ lk_EnvironmentScript Hm) as [es [Hes Hmm]]. subst m.
  assert (Hsym : forall name n,
            srcs_of cls_EnvironmentScript name = ["__self__"; "embeddedFiles"] ->
            mem_of (fsyms cls_EnvironmentScript (cresult cls_EnvironmentScript (JObj members) SESSION $"Env." es) syms name) SESSION n = vis n).
  { intros name n Hsrc. unfold fsyms. rewrite Hsrc, mem_of_union, gather_mem. cbn [existsb].
    rewrite lookup_cresult_self, (lookup_cresult_field SC f _ _ _ _ _ "embeddedFiles" Hes eq_refl eq_refl).
    rewrite cself_EnvironmentScript, Hv.
    destruct (centry_list_self SC f (JObj members) SESSION $"Env."
                (mkField "embeddedFiles" "embeddedFiles" false (ListOf (Some 1%N) None) (KModel "EmbeddedFileText"))
                (Some 1%N) None eq_refl eq_refl eq_refl) as [e [He HM]]; [lia|].
    fields cls_EnvironmentScript. cbn [lk_entries f_name]. streqs. cbv iota. rewrite He.
    specialize (HM SESSION n). cbn [f_name f_kind] in HM.
    rewrite (files_mem "Env." SESSION _ n eq_refl) in HM. change ("Env." ++ "File.")%string with "Env.File." in HM.
    rewrite <- HM. destruct e as [|[? t] ?]; btauto. }
  fields cls_EnvironmentScript. cbn [flat_map]. wf_model. cbn [f_name].
  rewrite (walk_EnvironmentActions _ _ _ _ _ _ _ vis); [|fuel|intros; apply Hsym; reflexivity].
  rewrite !app_nil_r. f_equal.
  - rewrite <- !app_assoc. reflexivity.
  - unfold spec_files. destruct (jget "embeddedFiles" (JObj members)) eqn:Efiles; try reflexivity.
    apply concat_map_indexed_ext. intros i x Hx. cbn [fst snd].
    rewrite (walk_EFT _ _ _ _ _ _ _ vis).
    + rewrite <- !app_assoc. reflexivity.
    + intros _. assert (Hd : S (json_depth (JArr l0)) <= json_depth (JObj members)).
      { rewrite <- Efiles. apply jget_depth. rewrite Efiles. reflexivity. }
      apply arr_depth in Hx. lia.
    + intros; apply Hsym; reflexivity.
    + intros n Hn. rewrite Hv.
      assert (Hx' : named "Env.File." (file_names (JArr l0)) n = true).
      { pose proof (files_mem "Env." SESSION (JArr l0) n eq_refl) as HF.
        change ("Env." ++ "File.")%string with "Env.File." in HF. rewrite <- HF. cbn [obj_list].
        apply existsb_exists. exists x. split; [exact Hx|].
        unfold cexport_self. cbn [ctarget]. rewrite lk_EFT.
        change (lookup_s "__export__" (c_sources cls_EFT)) with (Some ["__self__"]).
        destruct x; try (cbn in Hn; discriminate).
        rewrite mem_of_union, mem_of_empty. exact Hn. }
      rewrite Hx'. btauto.
Qed.

Lemma walk_Environment : forall f v sc p syms l base,
  (is_obj v = true -> 2 * json_depth v + 2 <= f) ->
  (forall n, mem_of syms SESSION n = base n) ->
  wobj SC refs f "Environment" v sc p syms l = spec_env refs base l v.
Proof.
  intros f v sc p syms l base Hf Hv. unfold spec_env.
  destruct (is_obj v) eqn:Eo; [|destruct v; try discriminate; reflexivity].
  specialize (Hf eq_refl). destruct v; try discriminate.
  pose proof (json_depth_pos (JObj members)) as Hpos.
  destruct f as [|[|f]]; [lia | lia |].
  unfold wobj at 1. rewrite walk_S, lk_Environment.
  destruct (collect_some SC (S f) "Environment" (JObj members) (wsc cls_Environment sc) (wprefix cls_Environment p)) as [m Hm]; [lia|]. rewrite Hm.
  fields cls_Environment. cbn [flat_map]. simp_wsc. generalize (wprefix cls_Environment p); intros p'.
  wf_inert. wf_fmt base ltac:(nosrc Hv). wf_model. cbn [f_name].
  unfold spec_env_script.
  erewrite walk_EnvironmentScript; [|fuel|].
  - rewrite !app_nil_r. cbn [app]. rewrite <- !app_assoc. reflexivity.
  - intros n. cbv beta. 
    replace (mem_of (fsyms cls_Environment m syms "script") SESSION n) with (base n); [reflexivity|].
    symmetry. nosrc Hv.
Qed.
End P3.

Definition cls_IntTP := Eval vm_compute in getc "IntTaskParameterDefinition".
Lemma lk_IntTP : lookup_cls SC "IntTaskParameterDefinition" = Some cls_IntTP. Proof. vm_compute. reflexivity. Qed.
Definition cls_FloatTP := Eval vm_compute in getc "FloatTaskParameterDefinition".
Lemma lk_FloatTP : lookup_cls SC "FloatTaskParameterDefinition" = Some cls_FloatTP. Proof. vm_compute. reflexivity. Qed.
Definition cls_StringTP := Eval vm_compute in getc "StringTaskParameterDefinition".
Lemma lk_StringTP : lookup_cls SC "StringTaskParameterDefinition" = Some cls_StringTP. Proof. vm_compute. reflexivity. Qed.
Definition cls_PathTP := Eval vm_compute in getc "PathTaskParameterDefinition".
Lemma lk_PathTP : lookup_cls SC "PathTaskParameterDefinition" = Some cls_PathTP. Proof. vm_compute. reflexivity. Qed.
Definition cls_SPSD := Eval vm_compute in getc "StepParameterSpaceDefinition".
Lemma lk_SPSD : lookup_cls SC "StepParameterSpaceDefinition" = Some cls_SPSD. Proof. vm_compute. reflexivity. Qed.

Definition tp_mapping : list (string * string) :=
  [("INT", "IntTaskParameterDefinition"); ("FLOAT", "FloatTaskParameterDefinition");
   ("STRING", "StringTaskParameterDefinition"); ("PATH", "PathTaskParameterDefinition")].

Section P4.
Variable refs : str -> option (list str).

Lemma walk_IntTP : forall f v sc p syms l vis,
  (is_obj v = true -> 2 * json_depth v + 2 <= f) ->
  (forall n, mem_of syms sc n = vis n) ->
  wobj SC refs f "IntTaskParameterDefinition" v sc p syms l
  = if is_obj v then
      match jget "range" v with
      | JArr items => flat_map (fun item => chk refs vis (l ++ [key "range"]) item) items
      | JStr _ => chk refs vis (l ++ [key "range"]) (jget "range" v)
      | _ => []
      end
    else [].
Proof.
  intros f v sc p syms l vis Hf Hv.
  destruct (is_obj v) eqn:Eo; [|destruct v; try discriminate; reflexivity].
  specialize (Hf eq_refl). destruct v; try discriminate.
  pose proof (json_depth_pos (JObj members)) as Hpos.
  destruct f as [|[|[|[|f]]]]; [lia | lia | lia | lia |].
  unfold wobj at 1. rewrite walk_S, lk_IntTP.
  destruct (collect_some SC (S (S (S f))) "IntTaskParameterDefinition" (JObj members) (wsc cls_IntTP sc) (wprefix cls_IntTP p)) as [m Hm]; [lia|]. rewrite Hm.
  fields cls_IntTP. cbn [flat_map]. simp_wsc. generalize (wprefix cls_IntTP p); intros p'.
  wf_inert. rewrite wfield_single; [|reflexivity|reflexivity]. cbn [f_name f_kind].
  assert (Hs : forall n, mem_of (fsyms cls_IntTP m syms "range") sc n = vis n) by (nosrc Hv).
  rewrite !app_nil_r. cbn [app].
  destruct (jget "range" (JObj members)) eqn:Er; cbn [is_null]; try reflexivity.
  - rewrite vsingle_union. cbn [flat_map]. rewrite (vsingle_format_chk SC refs vis); [|exact Hs].
    rewrite app_nil_r. reflexivity.
  - rewrite vsingle_union. cbn [flat_map]. rewrite (vsingle_format_chk SC refs vis); [|exact Hs].
    rewrite !app_nil_r. apply flat_map_ext. intros item.
    rewrite vsingle_union. cbn [flat_map]. rewrite vsingle_inert; [|reflexivity].
    rewrite (vsingle_format_chk SC refs vis); [|exact Hs]. rewrite app_nil_r. reflexivity.
Qed.

Lemma walk_FloatTP : forall f v sc p syms l vis,
  (is_obj v = true -> 2 * json_depth v + 2 <= f) ->
  (forall n, mem_of syms sc n = vis n) ->
  wobj SC refs f "FloatTaskParameterDefinition" v sc p syms l
  = if is_obj v then chk_list refs vis (l ++ [key "range"]) (jget "range" v) else [].
Proof.
  intros f v sc p syms l vis Hf Hv.
  destruct (is_obj v) eqn:Eo; [|destruct v; try discriminate; reflexivity].
  specialize (Hf eq_refl). destruct v; try discriminate.
  pose proof (json_depth_pos (JObj members)) as Hpos.
  destruct f as [|[|[|f]]]; [lia | lia | lia |].
  unfold wobj at 1. rewrite walk_S, lk_FloatTP.
  destruct (collect_some SC (S (S f)) "FloatTaskParameterDefinition" (JObj members) (wsc cls_FloatTP sc) (wprefix cls_FloatTP p)) as [m Hm]; [lia|]. rewrite Hm.
  fields cls_FloatTP. cbn [flat_map]. simp_wsc. generalize (wprefix cls_FloatTP p); intros p'.
  wf_inert. rewrite (wfield_list _ _ _ _ _ _ _ _ _ _ _ (Some 1%N) (Some 1024%N)); [|reflexivity|reflexivity]. cbn [f_name f_kind].
  assert (Hs : forall n, mem_of (fsyms cls_FloatTP m syms "range") sc n = vis n) by (nosrc Hv).
  rewrite !app_nil_r. cbn [app]. unfold chk_list.
  destruct (jget "range" (JObj members)) eqn:Er; try reflexivity.
  f_equal. apply map_ext. intros iv. rewrite vsingle_union. cbn [flat_map].
  rewrite vsingle_inert; [|reflexivity].
  rewrite (vsingle_format_chk SC refs vis); [|exact Hs]. rewrite app_nil_r. reflexivity.
Qed.

Lemma walk_StringTP : forall f v sc p syms l vis,
  (is_obj v = true -> 2 * json_depth v + 2 <= f) ->
  (forall n, mem_of syms sc n = vis n) ->
  wobj SC refs f "StringTaskParameterDefinition" v sc p syms l
  = if is_obj v then chk_list refs vis (l ++ [key "range"]) (jget "range" v) else [].
Proof.
  intros f v sc p syms l vis Hf Hv.
  destruct (is_obj v) eqn:Eo; [|destruct v; try discriminate; reflexivity].
  specialize (Hf eq_refl). destruct v; try discriminate.
  pose proof (json_depth_pos (JObj members)) as Hpos.
  destruct f as [|[|f]]; [lia | lia |].
  unfold wobj at 1. rewrite walk_S, lk_StringTP.
  destruct (collect_some SC (S f) "StringTaskParameterDefinition" (JObj members) (wsc cls_StringTP sc) (wprefix cls_StringTP p)) as [m Hm]; [lia|]. rewrite Hm.
  fields cls_StringTP. cbn [flat_map]. simp_wsc. generalize (wprefix cls_StringTP p); intros p'.
  wf_inert. wf_fmt vis ltac:(nosrc Hv). cbn [f_name]. rewrite !app_nil_r. reflexivity.
Qed.

Lemma walk_PathTP : forall f v sc p syms l vis,
  (is_obj v = true -> 2 * json_depth v + 2 <= f) ->
  (forall n, mem_of syms sc n = vis n) ->
  wobj SC refs f "PathTaskParameterDefinition" v sc p syms l
  = if is_obj v then chk_list refs vis (l ++ [key "range"]) (jget "range" v) else [].
Proof.
  intros f v sc p syms l vis Hf Hv.
  destruct (is_obj v) eqn:Eo; [|destruct v; try discriminate; reflexivity].
  specialize (Hf eq_refl). destruct v; try discriminate.
  pose proof (json_depth_pos (JObj members)) as Hpos.
  destruct f as [|[|f]]; [lia | lia |].
  unfold wobj at 1. rewrite walk_S, lk_PathTP.
  destruct (collect_some SC (S f) "PathTaskParameterDefinition" (JObj members) (wsc cls_PathTP sc) (wprefix cls_PathTP p)) as [m Hm]; [lia|]. rewrite Hm.
  fields cls_PathTP. cbn [flat_map]. simp_wsc. generalize (wprefix cls_PathTP p); intros p'.
  wf_inert. wf_fmt vis ltac:(nosrc Hv). cbn [f_name]. rewrite !app_nil_r. reflexivity.
Qed.

Lemma wdisc_task_param : forall f x sc p syms l vis,
  (is_obj x = true -> 2 * json_depth x + 2 <= f) ->
  (forall n, mem_of syms sc n = vis n) ->
  wdisc SC refs f "type" tp_mapping x sc p syms l = spec_task_param refs vis l x.
Proof.
  intros f x sc p syms l vis Hf Hv. unfold spec_task_param.
  destruct (is_obj x) eqn:Eo; [|destruct x; try discriminate; reflexivity].
  specialize (Hf eq_refl). assert (Hf' : is_obj x = true -> 2 * json_depth x + 2 <= f) by (intros _; exact Hf).
  destruct (disc4_cases "IntTaskParameterDefinition" "FloatTaskParameterDefinition"
              "StringTaskParameterDefinition" "PathTaskParameterDefinition" x)
    as [H|[H|[H|[H|H]]]]; destruct H as [HI [HF [HS [HP Hr]]]]; fold tp_mapping in Hr;
    rewrite ?HI, ?HF, ?HS, ?HP; cbn [orb]; cbv iota.
  - rewrite (wdisc_wobj _ _ _ _ _ _ _ _ _ _ _ Hr), (walk_IntTP _ _ _ _ _ _ vis Hf' Hv), Eo. reflexivity.
  - rewrite (wdisc_wobj _ _ _ _ _ _ _ _ _ _ _ Hr), (walk_FloatTP _ _ _ _ _ _ vis Hf' Hv), Eo. reflexivity.
  - rewrite (wdisc_wobj _ _ _ _ _ _ _ _ _ _ _ Hr), (walk_StringTP _ _ _ _ _ _ vis Hf' Hv), Eo. reflexivity.
  - rewrite (wdisc_wobj _ _ _ _ _ _ _ _ _ _ _ Hr), (walk_PathTP _ _ _ _ _ _ vis Hf' Hv), Eo. reflexivity.
  - unfold wdisc. rewrite Hr. destruct x; reflexivity.
Qed.

Lemma walk_SPSD : forall f v sc p syms l vis,
  (is_obj v = true -> 2 * json_depth v + 2 <= f) ->
  (forall n, mem_of syms sc n = vis n) ->
  wobj SC refs f "StepParameterSpaceDefinition" v sc p syms l = spec_param_space refs vis l v.
Proof.
  intros f v sc p syms l vis Hf Hv. unfold spec_param_space.
  destruct (is_obj v) eqn:Eo; [|destruct v; try discriminate; reflexivity].
  specialize (Hf eq_refl). destruct v; try discriminate.
  pose proof (json_depth_pos (JObj members)) as Hpos.
  destruct f as [|[|f]]; [lia | lia |].
  unfold wobj at 1. rewrite walk_S, lk_SPSD.
  destruct (collect_some SC (S f) "StepParameterSpaceDefinition" (JObj members) (wsc cls_SPSD sc) (wprefix cls_SPSD p)) as [m Hm]; [lia|]. rewrite Hm.
  fields cls_SPSD. cbn [flat_map]. simp_wsc. generalize (wprefix cls_SPSD p); intros p'.
  wf_inert. wf_model. cbn [f_name]. rewrite !app_nil_r.
  destruct (jget "taskParameterDefinitions" (JObj members)) eqn:Etp; try reflexivity.
  assert (Hd : S (json_depth (JArr l0)) <= json_depth (JObj members)).
  { rewrite <- Etp. apply jget_depth. rewrite Etp. reflexivity. }
  apply concat_map_indexed_ext. intros i x Hx. cbn [fst snd].
  fold tp_mapping. rewrite (wdisc_task_param _ _ _ _ _ _ vis).
  - rewrite <- !app_assoc. reflexivity.
  - intros _. apply arr_depth in Hx. lia.
  - nosrc Hv.
Qed.

(* what a step's parameter space exports to the step script *)
Lemma tparam_item_mem : forall x sc p n,
  mem_of (cexport_self SC (KDisc "type" tp_mapping) x sc p) TASK n
  = (has_param_type x && match decl_name x with Some nm => str_eqb n ($"Task.Param." ++ nm) | None => false end)
    || (has_param_type x && match decl_name x with Some nm => str_eqb n ($"Task.RawParam." ++ nm) | None => false end).
Proof.
  intros x sc p n. unfold has_param_type.
  destruct (is_obj x) eqn:Eo.
  2:{ rewrite cexport_nonobj; [|exact Eo]. destruct x; try discriminate; cbn [decl_name]; btauto. }
  destruct (disc4_cases "IntTaskParameterDefinition" "FloatTaskParameterDefinition"
              "StringTaskParameterDefinition" "PathTaskParameterDefinition" x)
    as [H|[H|[H|[H|H]]]]; destruct H as [HI [HF [HS [HP Hr]]]]; fold tp_mapping in Hr;
    rewrite ?HI, ?HF, ?HS, ?HP; cbn [orb andb].
  - rewrite (cexport_disc_mem SC _ _ _ _ _ _ _ _ _ n Eo Hr lk_IntTP eq_refl eq_refl eq_refl).
    destruct (decl_name x); [|reflexivity]. cbn [d_defines c_defs cls_IntTP existsb fst snd scope_le andb].
    rewrite orb_false_r. reflexivity.
  - rewrite (cexport_disc_mem SC _ _ _ _ _ _ _ _ _ n Eo Hr lk_FloatTP eq_refl eq_refl eq_refl).
    destruct (decl_name x); [|reflexivity]. cbn [d_defines c_defs cls_FloatTP existsb fst snd scope_le andb].
    rewrite orb_false_r. reflexivity.
  - rewrite (cexport_disc_mem SC _ _ _ _ _ _ _ _ _ n Eo Hr lk_StringTP eq_refl eq_refl eq_refl).
    destruct (decl_name x); [|reflexivity]. cbn [d_defines c_defs cls_StringTP existsb fst snd scope_le andb].
    rewrite orb_false_r. reflexivity.
  - rewrite (cexport_disc_mem SC _ _ _ _ _ _ _ _ _ n Eo Hr lk_PathTP eq_refl eq_refl eq_refl).
    destruct (decl_name x); [|reflexivity]. cbn [d_defines c_defs cls_PathTP existsb fst snd scope_le andb].
    rewrite orb_false_r. reflexivity.
  - apply cexport_disc_none. exact Hr.
Qed.

Lemma csingle_SPSD : forall f sc p w,
  json_depth w <= f ->
  exists T, csingle SC f sc p (KModel "StepParameterSpaceDefinition") w = Some T /\
    forall n, mem_of T TASK n = named "Task.Param." (task_param_names w) n
                               || named "Task.RawParam." (task_param_names w) n.
Proof.
  intros f sc p w Hd. unfold task_param_names, csingle.
  destruct w; try (eexists; split; [reflexivity|]; intros; reflexivity).
  cbn [ctarget is_obj]. rewrite lk_SPSD.
  change (lookup_s "__export__" (c_sources cls_SPSD)) with (Some ["taskParameterDefinitions"]).
  pose proof (json_depth_pos (JObj members)) as Hpos.
  destruct f as [|f]; [lia|].
  destruct (collect_some SC (S f) "StepParameterSpaceDefinition" (JObj members) sc p Hd) as [m Hm]. rewrite Hm.
  destruct (collect_inv _ _ _ _ _ _ _ _ lk_SPSD Hm) as [es [Hes Hmm]]. subst m.
  rewrite (lookup_cresult_export SC f _ _ _ _ _ Hes eq_refl).
  eexists. split; [reflexivity|]. intros n.
  change (srcs_of cls_SPSD "__export__") with ["taskParameterDefinitions"].
  rewrite gather_mem. cbn [existsb lookup_s]. streqs. cbv iota.
  rewrite (lookup_centries SC _ _ _ _ "taskParameterDefinitions" _ _ Hes), orb_false_r.
  destruct (centry_list_self SC f (JObj members) sc p
              (mkField "taskParameterDefinitions" "taskParameterDefinitions" true (ListOf (Some 1%N) (Some 16%N)) (KDisc "type" tp_mapping))
              (Some 1%N) (Some 16%N) eq_refl eq_refl eq_refl) as [e [He HM]]; [lia|].
  fields cls_SPSD. cbn [lk_entries f_name]. streqs. cbv iota. fold tp_mapping. rewrite He.
  specialize (HM TASK n). cbn [f_name f_kind] in HM.
  rewrite !named_declared, existsb_orb.
  transitivity (existsb (fun x => mem_of (cexport_self SC (KDisc "type" tp_mapping) x sc p) TASK n)
                        (obj_list (jget "taskParameterDefinitions" (JObj members)))).
  - rewrite <- HM. destruct e as [|[? t] ?]; reflexivity.
  - apply existsb_ext_in. intros x _. apply tparam_item_mem.
Qed.
End P4.

Definition cls_AmountRT := Eval vm_compute in getc "AmountRequirementTemplate".
Lemma lk_AmountRT : lookup_cls SC "AmountRequirementTemplate" = Some cls_AmountRT. Proof. vm_compute. reflexivity. Qed.
Definition cls_AttrRT := Eval vm_compute in getc "AttributeRequirementTemplate".
Lemma lk_AttrRT : lookup_cls SC "AttributeRequirementTemplate" = Some cls_AttrRT. Proof. vm_compute. reflexivity. Qed.
Definition cls_HostRT := Eval vm_compute in getc "HostRequirementsTemplate".
Lemma lk_HostRT : lookup_cls SC "HostRequirementsTemplate" = Some cls_HostRT. Proof. vm_compute. reflexivity. Qed.
Definition cls_StepTemplate := Eval vm_compute in getc "StepTemplate".
Lemma lk_StepTemplate : lookup_cls SC "StepTemplate" = Some cls_StepTemplate. Proof. vm_compute. reflexivity. Qed.

Section P5.
Variable refs : str -> option (list str).

Lemma walk_AmountRT : forall f v sc p syms l vis,
  (is_obj v = true -> 2 * json_depth v + 2 <= f) ->
  (forall n, mem_of syms sc n = vis n) ->
  wobj SC refs f "AmountRequirementTemplate" v sc p syms l
  = if is_obj v then chk refs vis (l ++ [key "name"]) (jget "name" v) else [].
Proof.
  intros f v sc p syms l vis Hf Hv.
  destruct (is_obj v) eqn:Eo; [|destruct v; try discriminate; reflexivity].
  specialize (Hf eq_refl). destruct v; try discriminate.
  pose proof (json_depth_pos (JObj members)) as Hpos.
  destruct f as [|[|f]]; [lia | lia |].
  unfold wobj at 1. rewrite walk_S, lk_AmountRT.
  destruct (collect_some SC (S f) "AmountRequirementTemplate" (JObj members) (wsc cls_AmountRT sc) (wprefix cls_AmountRT p)) as [m Hm]; [lia|]. rewrite Hm.
  fields cls_AmountRT. cbn [flat_map]. simp_wsc. generalize (wprefix cls_AmountRT p); intros p'.
  wf_inert. wf_fmt vis ltac:(nosrc Hv). cbn [f_name]. rewrite !app_nil_r. reflexivity.
Qed.

Lemma walk_AttrRT : forall f v sc p syms l vis,
  (is_obj v = true -> 2 * json_depth v + 2 <= f) ->
  (forall n, mem_of syms sc n = vis n) ->
  wobj SC refs f "AttributeRequirementTemplate" v sc p syms l
  = if is_obj v then chk refs vis (l ++ [key "name"]) (jget "name" v)
                     ++ chk_list refs vis (l ++ [key "anyOf"]) (jget "anyOf" v)
                     ++ chk_list refs vis (l ++ [key "allOf"]) (jget "allOf" v) else [].
Proof.
  intros f v sc p syms l vis Hf Hv.
  destruct (is_obj v) eqn:Eo; [|destruct v; try discriminate; reflexivity].
  specialize (Hf eq_refl). destruct v; try discriminate.
  pose proof (json_depth_pos (JObj members)) as Hpos.
  destruct f as [|[|f]]; [lia | lia |].
  unfold wobj at 1. rewrite walk_S, lk_AttrRT.
  destruct (collect_some SC (S f) "AttributeRequirementTemplate" (JObj members) (wsc cls_AttrRT sc) (wprefix cls_AttrRT p)) as [m Hm]; [lia|]. rewrite Hm.
  fields cls_AttrRT. cbn [flat_map]. simp_wsc. generalize (wprefix cls_AttrRT p); intros p'.
  wf_inert. wf_fmt vis ltac:(nosrc Hv). cbn [f_name]. rewrite !app_nil_r. reflexivity.
Qed.

Lemma walk_HostRT : forall f v sc p syms l vis,
  (is_obj v = true -> 2 * json_depth v + 2 <= f) ->
  (forall n, mem_of syms sc n = vis n) ->
  wobj SC refs f "HostRequirementsTemplate" v sc p syms l = spec_host_req refs vis l v.
Proof.
  intros f v sc p syms l vis Hf Hv. unfold spec_host_req.
  destruct (is_obj v) eqn:Eo; [|destruct v; try discriminate; reflexivity].
  specialize (Hf eq_refl). destruct v; try discriminate.
  pose proof (json_depth_pos (JObj members)) as Hpos.
  destruct f as [|[|f]]; [lia | lia |].
  unfold wobj at 1. rewrite walk_S, lk_HostRT.
  destruct (collect_some SC (S f) "HostRequirementsTemplate" (JObj members) (wsc cls_HostRT sc) (wprefix cls_HostRT p)) as [m Hm]; [lia|]. rewrite Hm.
  fields cls_HostRT. cbn [flat_map]. simp_wsc. generalize (wprefix cls_HostRT p); intros p'.
  wf_model. cbn [f_name]. rewrite !app_nil_r. f_equal.
  - destruct (jget "amounts" (JObj members)) eqn:Ea; try reflexivity.
    assert (Hd : S (json_depth (JArr l0)) <= json_depth (JObj members)).
    { rewrite <- Ea. apply jget_depth. rewrite Ea. reflexivity. }
    apply concat_map_indexed_ext. intros i x Hx. cbn [fst snd].
    rewrite (walk_AmountRT _ _ _ _ _ _ vis); [|intros _; apply arr_depth in Hx; lia|nosrc Hv].
    rewrite <- !app_assoc. reflexivity.
  - destruct (jget "attributes" (JObj members)) eqn:Ea; try reflexivity.
    assert (Hd : S (json_depth (JArr l0)) <= json_depth (JObj members)).
    { rewrite <- Ea. apply jget_depth. rewrite Ea. reflexivity. }
    apply concat_map_indexed_ext. intros i x Hx. cbn [fst snd].
    rewrite (walk_AttrRT _ _ _ _ _ _ vis); [|intros _; apply arr_depth in Hx; lia|nosrc Hv].
    rewrite <- !app_assoc. reflexivity.
Qed.

Lemma cself_none : forall c v sc p, d_field (c_defs c) = "" -> d_inject (c_defs c) = [] -> cself c v sc p = st_empty.
Proof. intros c v sc p H1 H2. unfold cself. cbv zeta. rewrite H1, H2. reflexivity. Qed.

Definition visfor (sc : scope) (pdefs : json) : str -> bool :=
  match sc with TEMPLATE => vis_template pdefs | _ => vis_session pdefs end.

Lemma walk_StepTemplate : forall f v p syms l pdefs,
  (is_obj v = true -> 2 * json_depth v + 2 <= f) ->
  (forall sc' n, mem_of syms sc' n = visfor sc' pdefs n) ->
  wobj SC refs f "StepTemplate" v TEMPLATE p syms l = spec_step refs pdefs l v.
Proof.
  intros f v p syms l pdefs Hf Hv. unfold spec_step.
  destruct (is_obj v) eqn:Eo; [|destruct v; try discriminate; reflexivity].
  specialize (Hf eq_refl). destruct v; try discriminate.
  pose proof (json_depth_pos (JObj members)) as Hpos.
  destruct f as [|[|f]]; [lia | lia |].
  unfold wobj at 1. rewrite walk_S, lk_StepTemplate.
  simp_wsc. generalize (wprefix cls_StepTemplate p); intros p'.
  destruct (collect_some SC (S f) "StepTemplate" (JObj members) TEMPLATE p') as [m Hm]; [lia|]. rewrite Hm.
  destruct (collect_inv _ _ _ _ _ _ _ _ lk_StepTemplate Hm) as [es [Hes Hmm]]. subst m.
  fields cls_StepTemplate. cbn [flat_map]. wf_inert. wf_model. cbn [f_name]. rewrite !app_nil_r. cbn [app].
  f_equal; [|f_equal; [|f_equal]].
  - (* script *)
    unfold spec_step_script. erewrite walk_StepScript; [reflexivity|fuel|].
    intros n. cbv beta. unfold fsyms.
    change (srcs_of cls_StepTemplate "script") with ["__self__"; "parameterSpace"].
    rewrite mem_of_union, gather_mem. cbn [existsb].
    rewrite lookup_cresult_self, (lookup_cresult_field SC f _ _ _ _ _ "parameterSpace" Hes eq_refl eq_refl).
    rewrite (cself_none cls_StepTemplate _ _ _ eq_refl eq_refl), mem_of_empty, (Hv TASK n).
    fields cls_StepTemplate. cbn [lk_entries f_name]. streqs. cbv iota.
    unfold centry. cbn [f_name f_kind f_shape kind_is_literal]. cbv zeta.
    destruct (is_null (jget "parameterSpace" (JObj members))) eqn:En.
    + destruct (jget "parameterSpace" (JObj members)); try discriminate. cbn. btauto.
    + apply jget_depth in En.
      destruct (csingle_SPSD f TEMPLATE p' (jget "parameterSpace" (JObj members))) as [T [HT HM]]; [lia|].
      rewrite HT, HM. cbn [visfor]. btauto.
  - (* stepEnvironments *)
    unfold spec_env_list. destruct (jget "stepEnvironments" (JObj members)) eqn:Ee; try reflexivity.
    assert (Hd : S (json_depth (JArr l0)) <= json_depth (JObj members)).
    { rewrite <- Ee. apply jget_depth. rewrite Ee. reflexivity. }
    apply concat_map_indexed_ext. intros i x Hx. cbn [fst snd].
    apply walk_Environment; [intros _; apply arr_depth in Hx; lia|].
    intros n. unfold fsyms. change (srcs_of cls_StepTemplate "stepEnvironments") with ["__self__"].
    rewrite mem_of_union, gather_mem. cbn [existsb].
    rewrite lookup_cresult_self, (cself_none cls_StepTemplate _ _ _ eq_refl eq_refl), mem_of_empty.
    apply (Hv SESSION n).
  - (* parameterSpace *)
    apply walk_SPSD; [fuel|]. intros n. unfold fsyms. srcs. rewrite gather_nil, mem_of_union, mem_of_empty.
    apply (Hv TEMPLATE n).
  - (* hostRequirements, dependencies *)
    rewrite (walk_HostRT _ _ _ _ _ _ (vis_template pdefs)); [|fuel|].
    2:{ intros n. unfold fsyms. srcs. rewrite gather_nil, mem_of_union, mem_of_empty. apply (Hv TEMPLATE n). }
    destruct (jget "dependencies" (JObj members)) eqn:Ed; try (rewrite app_nil_r; reflexivity).
    assert (Hd : S (json_depth (JArr l0)) <= json_depth (JObj members)).
    { rewrite <- Ed. apply jget_depth. rewrite Ed. reflexivity. }
    erewrite concat_map_indexed_ext; [rewrite concat_map_nil; apply app_nil_r|].
    intros i x Hx. cbn [fst snd]. apply (walk_silent SC refs 1); [vm_compute; reflexivity|].
    intros _. apply arr_depth in Hx. lia.
Qed.
End P5.

Definition cls_JobIntPD := Eval vm_compute in getc "JobIntParameterDefinition".
Lemma lk_JobIntPD : lookup_cls SC "JobIntParameterDefinition" = Some cls_JobIntPD. Proof. vm_compute. reflexivity. Qed.
Definition cls_JobFloatPD := Eval vm_compute in getc "JobFloatParameterDefinition".
Lemma lk_JobFloatPD : lookup_cls SC "JobFloatParameterDefinition" = Some cls_JobFloatPD. Proof. vm_compute. reflexivity. Qed.
Definition cls_JobStringPD := Eval vm_compute in getc "JobStringParameterDefinition".
Lemma lk_JobStringPD : lookup_cls SC "JobStringParameterDefinition" = Some cls_JobStringPD. Proof. vm_compute. reflexivity. Qed.
Definition cls_JobPathPD := Eval vm_compute in getc "JobPathParameterDefinition".
Lemma lk_JobPathPD : lookup_cls SC "JobPathParameterDefinition" = Some cls_JobPathPD. Proof. vm_compute. reflexivity. Qed.
Definition cls_JobTemplate := Eval vm_compute in getc "JobTemplate".
Lemma lk_JobTemplate : lookup_cls SC "JobTemplate" = Some cls_JobTemplate. Proof. vm_compute. reflexivity. Qed.
Definition cls_EnvTemplate := Eval vm_compute in getc "EnvironmentTemplate".
Lemma lk_EnvTemplate : lookup_cls SC "EnvironmentTemplate" = Some cls_EnvTemplate. Proof. vm_compute. reflexivity. Qed.

Definition jp_mapping : list (string * string) :=
  [("INT", "JobIntParameterDefinition"); ("FLOAT", "JobFloatParameterDefinition");
   ("STRING", "JobStringParameterDefinition"); ("PATH", "JobPathParameterDefinition")].

Definition fld_pd : field :=
  mkField "parameterDefinitions" "parameterDefinitions" false (ListOf (Some 1%N) (Some 50%N)) (KDisc "type" jp_mapping).

Lemma silent_jp : forall cn, In cn (map snd jp_mapping) -> silent SC 3 cn = true.
Proof. intros cn [H|[H|[H|[H|[]]]]]; subst; vm_compute; reflexivity. Qed.

Lemma jparam_item_mem : forall x sc p sc' n,
  mem_of (cexport_self SC (KDisc "type" jp_mapping) x sc p) sc' n
  = (has_param_type x && match decl_name x with Some nm => str_eqb n ($"RawParam." ++ nm) | None => false end)
    || ((has_param_type x && negb (type_is x "PATH")) && match decl_name x with Some nm => str_eqb n ($"Param." ++ nm) | None => false end)
    || (scope_le SESSION sc' && (type_is x "PATH" && match decl_name x with Some nm => str_eqb n ($"Param." ++ nm) | None => false end)).
Proof.
  intros x sc p sc' n. unfold has_param_type.
  destruct (is_obj x) eqn:Eo.
  2:{ rewrite cexport_nonobj; [|exact Eo]. destruct x; try discriminate; cbn [decl_name]; btauto. }
  destruct (disc4_cases "JobIntParameterDefinition" "JobFloatParameterDefinition"
              "JobStringParameterDefinition" "JobPathParameterDefinition" x)
    as [H|[H|[H|[H|H]]]]; destruct H as [HI [HF [HS [HP Hr]]]]; fold jp_mapping in Hr;
    rewrite ?HI, ?HF, ?HS, ?HP; cbn [orb andb negb].
  - rewrite (cexport_disc_mem SC _ _ _ _ _ _ _ _ _ n Eo Hr lk_JobIntPD eq_refl eq_refl eq_refl).
    destruct (decl_name x) as [nm|]; [|btauto]. cbn [d_defines c_defs cls_JobIntPD existsb fst snd scope_le andb]. change (sym_name p "|RawParam." nm) with ($"RawParam." ++ nm); change (sym_name p "|Param." nm) with ($"Param." ++ nm).
    btauto.
  - rewrite (cexport_disc_mem SC _ _ _ _ _ _ _ _ _ n Eo Hr lk_JobFloatPD eq_refl eq_refl eq_refl).
    destruct (decl_name x) as [nm|]; [|btauto]. cbn [d_defines c_defs cls_JobFloatPD existsb fst snd scope_le andb]. change (sym_name p "|RawParam." nm) with ($"RawParam." ++ nm); change (sym_name p "|Param." nm) with ($"Param." ++ nm).
    btauto.
  - rewrite (cexport_disc_mem SC _ _ _ _ _ _ _ _ _ n Eo Hr lk_JobStringPD eq_refl eq_refl eq_refl).
    destruct (decl_name x) as [nm|]; [|btauto]. cbn [d_defines c_defs cls_JobStringPD existsb fst snd scope_le andb]. change (sym_name p "|RawParam." nm) with ($"RawParam." ++ nm); change (sym_name p "|Param." nm) with ($"Param." ++ nm).
    btauto.
  - rewrite (cexport_disc_mem SC _ _ _ _ _ _ _ _ _ n Eo Hr lk_JobPathPD eq_refl eq_refl eq_refl).
    destruct (decl_name x) as [nm|]; [|btauto]. cbn [d_defines c_defs cls_JobPathPD existsb fst snd andb].
    change (scope_le TEMPLATE sc') with true. cbn [andb]. change (sym_name p "|RawParam." nm) with ($"RawParam." ++ nm); change (sym_name p "|Param." nm) with ($"Param." ++ nm).
    btauto.
  - rewrite cexport_disc_none; [|exact Hr]. btauto.
Qed.

Lemma visfor_eq : forall sc' pdefs n,
  visfor sc' pdefs n
  = existsb (fun x =>
      (has_param_type x && match decl_name x with Some nm => str_eqb n ($"RawParam." ++ nm) | None => false end)
      || ((has_param_type x && negb (type_is x "PATH")) && match decl_name x with Some nm => str_eqb n ($"Param." ++ nm) | None => false end)
      || (scope_le SESSION sc' && (type_is x "PATH" && match decl_name x with Some nm => str_eqb n ($"Param." ++ nm) | None => false end)))
    (obj_list pdefs).
Proof.
  intros sc' pdefs n.
  assert (HT : vis_template pdefs n = existsb (fun x =>
      (has_param_type x && match decl_name x with Some nm => str_eqb n ($"RawParam." ++ nm) | None => false end)
      || ((has_param_type x && negb (type_is x "PATH")) && match decl_name x with Some nm => str_eqb n ($"Param." ++ nm) | None => false end)) (obj_list pdefs)).
  { unfold vis_template, all_params, nonpath_params. rewrite !named_declared, existsb_orb. reflexivity. }
  destruct sc'; cbn [visfor scope_le].
  - rewrite HT. apply existsb_ext_in. intros x _. cbn [andb]. rewrite orb_false_r. reflexivity.
  - unfold vis_session, path_params. rewrite HT, named_declared, existsb_orb. reflexivity.
  - unfold vis_session, path_params. rewrite HT, named_declared, existsb_orb. reflexivity.
Qed.

(* the parameterDefinitions field of a template root: what it contributes to the tables *)
Lemma pd_entry : forall f v sc p,
  json_depth v <= S f ->
  exists e, centry SC f v sc p fld_pd = Some e /\
    forall sc' n, match e with (_, t) :: _ => mem_of t sc' n | [] => false end
                  = visfor sc' (jget "parameterDefinitions" v) n.
Proof.
  intros f v sc p Hd.
  destruct (centry_list_self SC f v sc p fld_pd (Some 1%N) (Some 50%N) eq_refl eq_refl eq_refl Hd) as [e [He HM]].
  exists e. split; [exact He|]. intros sc' n. rewrite HM, visfor_eq. cbn [f_name f_kind fld_pd].
  apply existsb_ext_in. intros x _. apply jparam_item_mem.
Qed.

Section P6.
Variable refs : str -> option (list str).

Lemma jget_depth_le : forall n v, json_depth (jget n v) <= json_depth v.
Proof.
  intros n v. destruct (is_null (jget n v)) eqn:En.
  - destruct (jget n v); try discriminate. apply json_depth_pos.
  - apply jget_depth in En. lia.
Qed.

Lemma pd_silent : forall f v sc p syms (L : nat * json -> loc),
  2 * json_depth v <= f ->
  match v with
  | JArr items => List.concat (map (fun iv => wdisc SC refs f "type" jp_mapping (snd iv) sc p syms (L iv)) (indexed items))
  | _ => []
  end = [].
Proof.
  intros f v sc p syms L Hf. destruct v as [|?|?|? ?|?|items|?]; try reflexivity.
  erewrite concat_map_indexed_ext; [apply concat_map_nil|].
  intros i x Hx. cbn [fst snd]. apply (wdisc_silent SC refs 3); [exact silent_jp|].
  intros _. apply arr_depth in Hx. lia.
Qed.

Lemma walk_JobTemplate : forall f j,
  2 * json_depth j + 2 <= f ->
  walk SC refs f "JobTemplate" j TEMPLATE [] st_empty [] = spec_job_template refs j.
Proof.
  intros f j Hf. unfold spec_job_template. cbv zeta.
  pose proof (json_depth_pos j) as Hpos.
  destruct f as [|[|f]]; [lia | lia |].
  rewrite walk_S, lk_JobTemplate.
  simp_wsc. generalize (wprefix cls_JobTemplate []); intros p'.
  destruct (collect_some SC (S f) "JobTemplate" j TEMPLATE p') as [m Hm]; [lia|]. rewrite Hm.
  destruct (collect_inv _ _ _ _ _ _ _ _ lk_JobTemplate Hm) as [es [Hes Hmm]]. subst m.
  assert (Hsym : forall name sc' n,
            srcs_of cls_JobTemplate name = ["parameterDefinitions"] ->
            mem_of (fsyms cls_JobTemplate (cresult cls_JobTemplate j TEMPLATE p' es) st_empty name) sc' n
            = visfor sc' (jget "parameterDefinitions" j) n).
  { intros name sc' n Hsrc. unfold fsyms. rewrite Hsrc, mem_of_union, gather_mem, mem_of_empty. cbn [existsb].
    rewrite (lookup_cresult_field SC f _ _ _ _ _ "parameterDefinitions" Hes eq_refl eq_refl), !orb_false_r.
    destruct (pd_entry f j TEMPLATE p') as [e [He HM]]; [lia|].
    fields cls_JobTemplate. cbn [lk_entries f_name]. streqs. cbv iota. fold jp_mapping. fold fld_pd. rewrite He.
    rewrite <- HM. destruct e as [|[? t] ?]; reflexivity. }
  fields cls_JobTemplate. cbn [flat_map].
  wf_inert. wf_fmt (vis_template (jget "parameterDefinitions" j)) ltac:(intros n; apply (Hsym _ TEMPLATE n); reflexivity).
  wf_model. cbn [f_name]. rewrite !app_nil_r. cbn [app].
  f_equal. f_equal.
  - (* steps *)
    destruct (jget "steps" j) as [|?|?|? ?|?|items|?] eqn:Es; try reflexivity.
    assert (Hd : S (json_depth (JArr items)) <= json_depth j).
    { rewrite <- Es. apply jget_depth. rewrite Es. reflexivity. }
    apply concat_map_indexed_ext. intros i x Hx. cbn [fst snd].
    apply walk_StepTemplate; [intros _; apply arr_depth in Hx; lia|].
    intros sc' n. apply Hsym. reflexivity.
  - (* parameterDefinitions (no reference site), jobEnvironments *)
    fold jp_mapping. rewrite pd_silent; [|pose proof (jget_depth_le "parameterDefinitions" j); lia].
    cbn [app]. unfold spec_env_list.
    destruct (jget "jobEnvironments" j) as [|?|?|? ?|?|items|?] eqn:Ee; try reflexivity.
    assert (Hd : S (json_depth (JArr items)) <= json_depth j).
    { rewrite <- Ee. apply jget_depth. rewrite Ee. reflexivity. }
    apply concat_map_indexed_ext. intros i x Hx. cbn [fst snd].
    apply walk_Environment; [intros _; apply arr_depth in Hx; lia|].
    intros n. apply (Hsym _ SESSION n). reflexivity.
Qed.

Lemma walk_EnvTemplate : forall f j,
  2 * json_depth j + 2 <= f ->
  walk SC refs f "EnvironmentTemplate" j TEMPLATE [] st_empty [] = spec_env_template refs j.
Proof.
  intros f j Hf. unfold spec_env_template. cbv zeta.
  pose proof (json_depth_pos j) as Hpos.
  destruct f as [|[|f]]; [lia | lia |].
  rewrite walk_S, lk_EnvTemplate.
  simp_wsc. generalize (wprefix cls_EnvTemplate []); intros p'.
  destruct (collect_some SC (S f) "EnvironmentTemplate" j TEMPLATE p') as [m Hm]; [lia|]. rewrite Hm.
  destruct (collect_inv _ _ _ _ _ _ _ _ lk_EnvTemplate Hm) as [es [Hes Hmm]]. subst m.
  assert (Hsym : forall name sc' n,
            srcs_of cls_EnvTemplate name = ["parameterDefinitions"] ->
            mem_of (fsyms cls_EnvTemplate (cresult cls_EnvTemplate j TEMPLATE p' es) st_empty name) sc' n
            = visfor sc' (jget "parameterDefinitions" j) n).
  { intros name sc' n Hsrc. unfold fsyms. rewrite Hsrc, mem_of_union, gather_mem, mem_of_empty. cbn [existsb].
    rewrite (lookup_cresult_field SC f _ _ _ _ _ "parameterDefinitions" Hes eq_refl eq_refl), !orb_false_r.
    destruct (pd_entry f j TEMPLATE p') as [e [He HM]]; [lia|].
    fields cls_EnvTemplate. cbn [lk_entries f_name]. streqs. cbv iota. fold jp_mapping. fold fld_pd. rewrite He.
    rewrite <- HM. destruct e as [|[? t] ?]; reflexivity. }
  fields cls_EnvTemplate. cbn [flat_map].
  wf_inert. wf_model. cbn [f_name]. rewrite !app_nil_r. cbn [app].
  fold jp_mapping. rewrite pd_silent; [|pose proof (jget_depth_le "parameterDefinitions" j); lia].
  cbn [app].
  destruct (is_null (jget "environment" j)) eqn:En.
  - destruct (jget "environment" j); try discriminate. reflexivity.
  - apply walk_Environment; [intros _; apply jget_depth in En; lia|].
    intros n. apply (Hsym _ SESSION n). reflexivity.
Qed.

Theorem exact_job : forall j, prevalidate SC refs "JobTemplate" j = spec_job_template refs j.
Proof. intros j. unfold prevalidate, walk_fuel. apply walk_JobTemplate. lia. Qed.

Theorem exact_env : forall j, prevalidate SC refs "EnvironmentTemplate" j = spec_env_template refs j.
Proof. intros j. unfold prevalidate, walk_fuel. apply walk_EnvTemplate. lia. Qed.
End P6.

(* ---------------- the specification never mentions EFuel ---------------- *)
Definition is_ref (e : werr) : Prop := match e with ERef _ _ => True | EFuel => False end.

Lemma nf_concat_map : forall {A} (f : A -> list werr) l,
  (forall x, Forall is_ref (f x)) -> Forall is_ref (List.concat (map f l)).
Proof.
  intros A f l H. induction l as [|x l IH]; cbn; [constructor|].
  apply Forall_app. split; [apply H | exact IH].
Qed.

Lemma nf_flat_map : forall {A} (f : A -> list werr) l,
  (forall x, Forall is_ref (f x)) -> Forall is_ref (flat_map f l).
Proof.
  intros A f l H. induction l as [|x l IH]; cbn; [constructor|].
  apply Forall_app. split; [apply H | exact IH].
Qed.

Section NF.
Variable refs : str -> option (list str).

Lemma nf_chk : forall vis l v, Forall is_ref (chk refs vis l v).
Proof.
  intros vis l v. destruct v; try constructor. cbn [chk].
  destruct (refs s) as [names|]; [|constructor].
  apply nf_flat_map. intros n. destruct (vis n); repeat constructor.
Qed.

Lemma nf_chk_list : forall vis l v, Forall is_ref (chk_list refs vis l v).
Proof.
  intros vis l v. destruct v; try constructor. cbn [chk_list].
  apply nf_concat_map. intros. apply nf_chk.
Qed.

Ltac nf :=
  repeat first
    [ apply Forall_nil
    | apply nf_chk
    | apply nf_chk_list
    | apply Forall_app; split
    | apply nf_concat_map; intros
    | apply nf_flat_map; intros
    | match goal with
      | |- Forall _ (if ?b then _ else _) => destruct b
      | |- Forall _ (match ?v with _ => _ end) => destruct v
      end ].

Lemma nf_action : forall vis l a, Forall is_ref (spec_action refs vis l a).
Proof. intros. unfold spec_action. nf. Qed.

Lemma nf_files : forall vis l a, Forall is_ref (spec_files refs vis l a).
Proof. intros. unfold spec_files. nf. Qed.

Lemma nf_env : forall base l e, Forall is_ref (spec_env refs base l e).
Proof.
  intros. unfold spec_env, spec_env_script. cbv zeta.
  repeat first [apply nf_action | apply nf_files | progress nf].
Qed.

Lemma nf_env_list : forall base l e, Forall is_ref (spec_env_list refs base l e).
Proof. intros. unfold spec_env_list. destruct e; try constructor. apply nf_concat_map. intros. apply nf_env. Qed.

Lemma nf_task_param : forall vis l e, Forall is_ref (spec_task_param refs vis l e).
Proof. intros. unfold spec_task_param. cbv zeta. nf. Qed.

Lemma nf_param_space : forall vis l e, Forall is_ref (spec_param_space refs vis l e).
Proof.
  intros. unfold spec_param_space. destruct (is_obj e); [|constructor].
  destruct (jget "taskParameterDefinitions" e); try constructor.
  apply nf_concat_map. intros. apply nf_task_param.
Qed.

Lemma nf_host_req : forall vis l e, Forall is_ref (spec_host_req refs vis l e).
Proof. intros. unfold spec_host_req. cbv zeta. nf. Qed.

Lemma nf_step : forall pdefs l e, Forall is_ref (spec_step refs pdefs l e).
Proof.
  intros. unfold spec_step, spec_step_script. cbv zeta.
  repeat first [apply nf_action | apply nf_files | apply nf_env_list | apply nf_param_space
               | apply nf_host_req | progress nf].
Qed.

Lemma nf_job : forall j, Forall is_ref (spec_job_template refs j).
Proof.
  intros. unfold spec_job_template. cbv zeta.
  repeat first [apply nf_step | apply nf_env_list | progress nf].
Qed.

Lemma nf_envt : forall j, Forall is_ref (spec_env_template refs j).
Proof. intros. unfold spec_env_template. cbv zeta. apply nf_env. Qed.

Theorem no_fuel : forall j,
  ~ In EFuel (prevalidate SC refs "JobTemplate" j) /\ ~ In EFuel (prevalidate SC refs "EnvironmentTemplate" j).
Proof.
  intros j. rewrite exact_job, exact_env. split; intros H.
  - pose proof (nf_job j) as F. rewrite Forall_forall in F. exact (F _ H).
  - pose proof (nf_envt j) as F. rewrite Forall_forall in F. exact (F _ H).
Qed.

Theorem spec_visible : forall vis l s names,
  refs s = Some names ->
  chk refs vis l (JStr s) = map (ERef l) (filter (fun n => negb (vis n)) names).
Proof.
  intros vis l s names H. cbn [chk]. rewrite H. clear H.
  induction names as [|n names IH]; cbn; [reflexivity|].
  destruct (vis n); cbn; rewrite IH; reflexivity.
Qed.
End NF.
