(* NumPrint.v — str(int) and str(Decimal) on code-point lists.  Definitions only.
   print_dec follows decimal.Decimal.__str__ for finite values (coefficient m, exponent e):
   plain notation when e <= 0 and the adjusted exponent is > -7, scientific otherwise.
   A negative zero cannot be represented by (m : Z) and is outside the domain. *)
From Coq Require Import List NArith ZArith Bool.
Import ListNotations.
Require Import OJD.Base.

(* decimal digits of a positive number, most significant first; fuel = number of bits + 1 *)
Fixpoint digits_fuel (fuel : nat) (n : N) (acc : str) : str :=
  match fuel with
  | O => acc
  | S f =>
    let d := N.modulo n 10 in
    let q := N.div n 10 in
    let acc' := (48 + d)%N :: acc in
    if N.eqb q 0 then acc' else digits_fuel f q acc'
  end.

Definition digits_of_N (n : N) : str := digits_fuel (S (N.to_nat (N.size n))) n [].

Definition minus_c : N := 45%N.
Definition dot_c : N := 46%N.
Definition zero_c : N := 48%N.

Definition print_Z (z : Z) : str :=
  match z with
  | Z0 => [zero_c]
  | Zpos p => digits_of_N (Npos p)
  | Zneg p => minus_c :: digits_of_N (Npos p)
  end.

Definition zeros (n : nat) : str := repeat zero_c n.

Definition print_dec (m e : Z) : str :=
  let sign := if (m <? 0)%Z then [minus_c] else [] in
  let ds := digits_of_N (Z.abs_N m) in
  let nd := Z.of_nat (length ds) in
  let leftdigits := (e + nd)%Z in
  let dotplace := if ((e <=? 0) && (-6 <? leftdigits))%Z then leftdigits else 1%Z in
  let body :=
    if (dotplace <=? 0)%Z then [zero_c; dot_c] ++ zeros (Z.to_nat (- dotplace)) ++ ds
    else if (nd <=? dotplace)%Z then ds ++ zeros (Z.to_nat (dotplace - nd))
    else firstn (Z.to_nat dotplace) ds ++ [dot_c] ++ skipn (Z.to_nat dotplace) ds in
  let ex := (leftdigits - dotplace)%Z in
  let exp_part :=
    if (ex =? 0)%Z then []
    else [69%N] ++ (if (ex <? 0)%Z then [minus_c] else [43%N]) ++ digits_of_N (Z.abs_N ex) in
  sign ++ body ++ exp_part.
