(* CreateJobFull.v — ONE function for all of openjd.model.create_job (src/openjd/model/_create_job.py),
   composed from the models of its parts.  Definitions only.

     create_job(job_template, job_parameter_values, environment_templates)
       1. preprocess_job_parameters(job_template, {name: value}, Path(), Path(), walk-up allowed, envs)
            a. merge_job_parameter_definitions: the definitions of the environment templates (in
               order) then of the job template, grouped by parameter name in order of first
               occurrence (a dict), each group merged by merge_job_parameter_definitions_for_one
               (Merge.merge); CompatibilityErrors are collected over ALL groups and re-raised as
               one CompatibilityError, which preprocess_job_parameters turns into ValueError;
            b. extra names / defaults / constraint checks / missing names (JobParams.preprocess)
               with the two PATH joins of the server-mode call (Paths.server_value,
               Paths.server_default);
          a ValueError of step 1 becomes DecodeValidationError;
       2. the symbol table (CreateJob.symtab_of: Param.<n> for non-PATH, RawParam.<n> for all);
       3. instantiate_model (CreateJob.inst); a FormatStringError is reported by the code as a
          validation error, i.e. DecodeValidationError; pydantic validates every target model when
          it is constructed (Export.nodes_ok on the coerced tree): a refusal is DecodeValidationError.

   NEW here: [pdef_of_mval] reads a DECODED job parameter definition (the instance Parse.parse_cls
   builds for Job{Int,Float,String,Path}ParameterDefinition) into the record [JobParams.pdef] the
   preprocessing model works on — the attribute reads `param.name`, `param.type`, `.minValue`,
   `.allowedValues`, `.default`, `.objectType`, ... of the code.  A value of a shape the decoder
   cannot produce is [Raise RuntimeError] ("outside the modelled domain"), never a default;
   CreateJobFullProofs.pdef_total shows that it does not happen on accepted templates.

   Inputs of [create_job_full]: the class table, the decoded environment templates, the decoded job
   template, and the caller's values (name, text) — nothing computed by the implementation. *)
From Coq Require Import List NArith ZArith Bool String.
Import ListNotations.
Require Import OJD.Base OJD.Lexer OJD.Json OJD.Schema OJD.Generated OJD.Numerals OJD.NumPrint OJD.FormatStr
               OJD.CreateJob OJD.Parse OJD.Validators OJD.Accept OJD.Export OJD.JobParams OJD.Merge OJD.Paths.
Local Open Scope string_scope.
Local Open Scope list_scope.

(* ------------------------------------------------------------------ reading a decoded definition *)

(* JobParameterType(value) *)
Definition ptype_of_str (s : str) : option ptype :=
  if str_eqb s $"STRING" then Some STRING
  else if str_eqb s $"PATH" then Some PATH
  else if str_eqb s $"INT" then Some INT
  else if str_eqb s $"FLOAT" then Some FLOAT
  else None.

(* ParameterValueType(param.type).value *)
Definition ptype_str (t : ptype) : str :=
  match t with STRING => $"STRING" | PATH => $"PATH" | INT => $"INT" | FLOAT => $"FLOAT" end.

(* an Optional attribute: None, or a value of the expected shape *)
Definition rd_opt {A : Type} (f : mval -> option A) (v : mval) : outcome (option A) :=
  match v with
  | MNone => Ok None
  | _ => match f v with Some a => Ok (Some a) | None => Raise RuntimeError end
  end.

Fixpoint opt_list {A : Type} (l : list (option A)) : option (list A) :=
  match l with
  | [] => Some []
  | Some x :: r => match opt_list r with Some xs => Some (x :: xs) | None => None end
  | None :: _ => None
  end.

Definition as_int (v : mval) : option Z := match v with MInt z => Some z | _ => None end.
Definition as_str (v : mval) : option str := match v with MStr s => Some s | _ => None end.

(* a bound / allowed value: int for INT, (finite) Decimal for FLOAT *)
Definition as_num (t : ptype) (v : mval) : option num :=
  match t, v with
  | INT, MInt z => Some (num_of_Z z)
  | FLOAT, MDec m e => Some (mkNum m e)
  | _, _ => None
  end.

Definition as_list {A : Type} (f : mval -> option A) (v : mval) : option (list A) :=
  match v with MList l => opt_list (map f l) | _ => None end.

(* str(param.default) *)
Definition as_text (t : ptype) (v : mval) : option str :=
  match t, v with
  | INT, MInt z => Some (print_Z z)
  | FLOAT, MDec m e => Some (print_dec m e)
  | STRING, MStr s | PATH, MStr s => Some s
  | _, _ => None
  end.

Definition as_objtype (v : mval) : option objtype :=
  match v with
  | MStr s => if str_eqb s $"FILE" then Some OT_FILE
              else if str_eqb s $"DIRECTORY" then Some OT_DIRECTORY else None
  | _ => None
  end.

Definition as_dataflow (v : mval) : option dataflow :=
  match v with
  | MStr s => if str_eqb s $"NONE" then Some DF_NONE
              else if str_eqb s $"IN" then Some DF_IN
              else if str_eqb s $"OUT" then Some DF_OUT
              else if str_eqb s $"INOUT" then Some DF_INOUT else None
  | _ => None
  end.

(* the attributes of one Job*ParameterDefinition instance that merging and preprocessing read;
   which ones depends on param.type exactly as in the code (minValue/maxValue for INT and FLOAT,
   minLength/maxLength for STRING and PATH, objectType/dataFlow for PATH) *)
Definition pdef_of_fields (fs : list (string * mval)) : outcome pdef :=
  match mfield "name" fs, mfield "type" fs with
  | MStr n, MStr ts =>
    match ptype_of_str ts with
    | Some t =>
      do df <- rd_opt (as_text t) (mfield "default" fs);
      if is_numeric t then
        do mn <- rd_opt (as_num t) (mfield "minValue" fs);
        do mx <- rd_opt (as_num t) (mfield "maxValue" fs);
        do al <- rd_opt (as_list (as_num t)) (mfield "allowedValues" fs);
        Ok (mkDef n t mn mx al None None None df None None)
      else
        do mn <- rd_opt as_int (mfield "minLength" fs);
        do mx <- rd_opt as_int (mfield "maxLength" fs);
        do al <- rd_opt (as_list as_str) (mfield "allowedValues" fs);
        do ot <- (if ptype_eqb t PATH then rd_opt as_objtype (mfield "objectType" fs) else Ok None);
        do fl <- (if ptype_eqb t PATH then rd_opt as_dataflow (mfield "dataFlow" fs) else Ok None);
        Ok (mkDef n t None None None al mn mx df ot fl)
    | None => Raise RuntimeError
    end
  | _, _ => Raise RuntimeError
  end.

Definition pdef_of_mval (v : mval) : outcome pdef :=
  match v with
  | MModel _ fs => pdef_of_fields fs
  | _ => Raise RuntimeError
  end.

(* template.parameterDefinitions of a JobTemplate / EnvironmentTemplate instance: None, or a list *)
Definition defs_of_value (x : mval) : outcome (list pdef) :=
  match x with
  | MNone => Ok []
  | MList l => mapM pdef_of_mval l
  | _ => Raise RuntimeError
  end.

Definition defs_of_template (t : mval) : outcome (list pdef) :=
  match t with
  | MModel _ fs => defs_of_value (mfield "parameterDefinitions" fs)
  | _ => Raise RuntimeError
  end.

(* ------------------------------------------------------------------ merge_job_parameter_definitions *)

(* collected_definitions[param.name].append(...): a dict in order of first insertion *)
Fixpoint group_add (d : pdef) (gs : list (str * list pdef)) : list (str * list pdef) :=
  match gs with
  | [] => [(pname d, [d])]
  | (k, g) :: r => if str_eqb (pname d) k then (k, g ++ [d]) :: r else (k, g) :: group_add d r
  end.

Definition collect_groups (ds : list pdef) : list (str * list pdef) :=
  fold_left (fun gs d => group_add d gs) ds [].

(* the loop over collected_definitions.items(): (return_value, `errors` is non-empty);
   a CompatibilityError of one parameter is recorded and the loop goes on, anything else escapes *)
Fixpoint merge_groups (gs : list (str * list pdef)) : outcome (list pdef * bool) :=
  match gs with
  | [] => Ok ([], false)
  | (_, g) :: r =>
    match merge false g with
    | Ok m => do x <- merge_groups r; Ok (m :: fst x, snd x)
    | Raise CompatibilityError => do x <- merge_groups r; Ok (fst x, true)
    | Raise e => Raise e
    end
  end.

(* environment templates first, in the order given, the job template last *)
Definition merge_definitions (env_defs : list (list pdef)) (job_defs : list pdef) : outcome (list pdef) :=
  do x <- merge_groups (collect_groups (List.concat env_defs ++ job_defs));
  if snd x then Raise CompatibilityError else Ok (fst x).

(* ------------------------------------------------------------------ preprocess_job_parameters, as create_job calls it *)

Definition preprocess_server (defs : list pdef) (vals : list (str * str)) : outcome (list (str * (ptype * str))) :=
  preprocess false true Paths.server_value Paths.server_default defs vals.

(* (name, ParameterValue.type.value, ParameterValue.value) in dict order *)
Definition pvals_of (r : list (str * (ptype * str))) : list (str * str * str) :=
  map (fun e => (fst e, ptype_str (fst (snd e)), snd (snd e))) r.

(* the `try: preprocess_job_parameters(...) except ValueError: raise DecodeValidationError` block *)
Definition prep_full (envs : list mval) (template : mval) (vals : list (str * str)) : outcome (list (str * str * str)) :=
  do ed <- mapM defs_of_template envs;
  do jd <- defs_of_template template;
  match merge_definitions ed jd with
  | Ok defs =>
    match preprocess_server defs vals with
    | Ok r => Ok (pvals_of r)
    | Raise ValueError => Raise DecodeValidationError
    | Raise e => Raise e
    end
  | Raise CompatibilityError => Raise DecodeValidationError      (* -> ValueError -> DecodeValidationError *)
  | Raise e => Raise e
  end.

(* ------------------------------------------------------------------ create_job *)
Section Full.
  Variable classify : N -> cclass.

  (* the Job instance (after the job-side representation changes of CreateJob.coerce_job), or the
     exception that leaves create_job; RuntimeError = outside the modelled pydantic domain *)
  Definition create_job_full (envs : list mval) (template : mval) (vals : list (str * str)) : outcome mval :=
    do pvals <- prep_full envs template vals;
    let fuel := S (mval_depth template) in
    match inst Generated.schema (fs_resolve classify) (symtab_of pvals) fuel template with
    | Ok job =>
      let cj := coerce_job fuel job in
      match nodes_ok classify (S (S fuel)) cj with
      | Ok true => Ok cj
      | Ok false => Raise DecodeValidationError
      | Raise e => Raise e
      end
    | Raise FormatStringError => Raise DecodeValidationError
    | Raise e => Raise e
    end.

  (* from the raw documents: decode_job_template / decode_environment_template, then create_job.
     (outer) Raise = a template is not accepted: create_job is never reached *)
  Definition create_job_docs (env_docs : list json) (doc : json) (vals : list (str * str))
    : outcome (outcome json) :=
    do t <- decode_job classify doc;
    do envs <- mapM (decode_env classify) env_docs;
    Ok (match create_job_full envs t vals with
        | Ok job => Ok (export job)
        | Raise e => Raise e
        end).
End Full.
