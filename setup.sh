#!/bin/bash
# Offline build of the whole framework from files on disk: Generated.v from /repo's working tree,
# every Coq file (full .vo), every extracted OCaml driver.  Idempotent.
set -u
cd "$(dirname "$0")"
export PYTHONHASHSEED=0
export PYTHONPATH="${VERIF_REPO:-/repo}/src"
exec /venv/bin/python -W ignore harness/setup_all.py "$@"
