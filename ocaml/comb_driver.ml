(* comb_driver.ml — serves the extracted combination-expression model (C14). *)
open Sx
open Model
open Conv

let table : (int, cclass) Hashtbl.t = Hashtbl.create 64

let class_of_name = function
  | "space" -> CSpace | "namestart" -> CNameStart | "digit" -> CDigit | "udigit" -> CUDigit
  | "dot" -> CDot | "star" -> CStar | "lparen" -> CLParen | "rparen" -> CRParen
  | "comma" -> CComma | "hyphen" -> CHyphen | "colon" -> CColon | "other" -> COther
  | s -> failwith ("class " ^ s)

let classify (c : n) : cclass =
  let i = match c with N0 -> 0 | Npos p -> (match int_of_pos p with Some v -> v | None -> -1) in
  match Hashtbl.find_opt table i with
  | Some cl -> cl
  | None -> if i >= 0 && i < 128 then ascii_class c else COther

let sx_of_tok = function
  | TName s -> L [A "N"; sx_of_str s]
  | TDot -> A "D" | TStar -> A "S" | TLParen -> A "LP" | TRParen -> A "RP" | TComma -> A "M"
  | TPosInt v -> L [A "P"; sx_of_n v]
  | THyphen -> A "H" | TColon -> A "C"

let rec sx_of_tree = function
  | Id s -> L [A "I"; sx_of_str s]
  | Prod cs -> L (A "P" :: List.map sx_of_tree cs)
  | Assoc cs -> L (A "A" :: List.map sx_of_tree cs)

let lens_of_sx (x : Sx.t) : (n list * n) list =
  list_of_sx (function L [k; v] -> (str_of_sx k, n_of_sx v) | _ -> failwith "lens") x

(* (tree, tokens of __str__, whether parsing those tokens gives the tree back) *)
let describe (t : ctree) : Sx.t =
  let toks = to_tokens t in
  let again = match parse toks with Ok t' -> t' = t | Raise _ -> false in
  L [sx_of_tree t; sx_of_list sx_of_tok toks; sx_of_bool again]

let handle (req : Sx.t) : Sx.t =
  match req with
  | L (A "table" :: entries) ->
    Hashtbl.reset table;
    List.iter (function L [A cp; A cl] -> Hashtbl.replace table (int_of_string cp) (class_of_name cl) | _ -> failwith "table") entries;
    L [A "table-ok"; sx_of_bool (ascii_ok classify)]
  | L [A "parse"; s] ->
    (match parse_str classify (str_of_sx s) with
     | Ok t -> L [A "ok"; describe t]
     | Raise x -> L [A "raise"; A (exn_name x)])
  | L [A "template"; pinned; params; s] ->
    sx_of_bool (template_check (bool_of_sx pinned) classify (list_of_sx str_of_sx params) (str_of_sx s))
  | L [A "charset"; s] ->
    let s = str_of_sx s in
    L [sx_of_bool (charsetb s); sx_of_bool (lengthb s)]
  | L [A "dims"; lens; s] ->
    (* _validate_expr_tree on the parsed tree, and the create_job view of the same *)
    let al = lens_of_sx lens in
    (match parse_str classify (str_of_sx s) with
     | Raise x -> L [A "raise"; A (exn_name x)]
     | Ok t -> L [A "parsed"; sx_of_outcome sx_of_n (dims (lookup_len al) t);
                  sx_of_outcome sx_of_n (job_dims (lookup_len al) t)])
  | _ -> failwith "unknown-request"

let () = serve handle
