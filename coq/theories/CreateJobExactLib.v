(* CreateJobExactLib.v — tools for C05_exact (the end-to-end theorem: model of create_job on the decoded
   template = document-level specification [expected_job], up to [json_equiv]).

     1. [tobj] / [jobj]: fuel-free forms of [to_object] and of [to_object ∘ coerce_job];
     2. [inst] does not increase the depth of an instance tree (so the fuels of
        [create_job_object] suffice);
     3. [strip_nulls] preserves [json_equiv];
     4. numerals: what a printed number looks like, and that a brace-free string resolves to itself. *)
From Coq Require Import List NArith ZArith Bool String Lia.
Import ListNotations.
Require Import OJD.Base OJD.Lexer OJD.Json OJD.Schema OJD.Numerals OJD.NumPrint OJD.NumRoundtrip
               OJD.FormatStr OJD.FormatStrSpec OJD.FormatStrProofs
               OJD.CreateJob OJD.CreateJobProofs OJD.CreateJobSpec OJD.JsonEquiv.
Local Open Scope string_scope.
Local Open Scope list_scope.

(* ------------------------------------------------------------------------------------------ *)
(* 0. induction on instance trees                                                              *)
Section MvalInd.
  Variable P : mval -> Prop.
  Hypothesis HNone : P MNone.
  Hypothesis HBool : forall b, P (MBool b).
  Hypothesis HInt : forall z, P (MInt z).
  Hypothesis HDec : forall m e, P (MDec m e).
  Hypothesis HFloat : forall m e, P (MFloat m e).
  Hypothesis HStr : forall s, P (MStr s).
  Hypothesis HFmt : forall s, P (MFmt s).
  Hypothesis HList : forall l, Forall P l -> P (MList l).
  Hypothesis HDict : forall l, Forall (fun kv => P (snd kv)) l -> P (MDict l).
  Hypothesis HModel : forall c fs, Forall (fun kv => P (snd kv)) fs -> P (MModel c fs).

  Fixpoint mval_ind3 (v : mval) : P v :=
    match v with
    | MNone => HNone
    | MBool b => HBool b
    | MInt z => HInt z
    | MDec m e => HDec m e
    | MFloat m e => HFloat m e
    | MStr s => HStr s
    | MFmt s => HFmt s
    | MList l =>
      HList l ((fix go (l : list mval) : Forall P l :=
                  match l with
                  | [] => Forall_nil _
                  | x :: r => Forall_cons x (mval_ind3 x) (go r)
                  end) l)
    | MDict l =>
      HDict l ((fix go (l : list (str * mval)) : Forall (fun kv => P (snd kv)) l :=
                  match l with
                  | [] => Forall_nil _
                  | x :: r => Forall_cons x (mval_ind3 (snd x)) (go r)
                  end) l)
    | MModel c fs =>
      HModel c fs ((fix go (l : list (string * mval)) : Forall (fun kv => P (snd kv)) l :=
                      match l with
                      | [] => Forall_nil _
                      | x :: r => Forall_cons x (mval_ind3 (snd x)) (go r)
                      end) fs)
    end.
End MvalInd.

(* ------------------------------------------------------------------------------------------ *)
(* 1. fuel-free export                                                                         *)

Section Tobj.
  Variable SC : schema_t.

  Fixpoint tobj (v : mval) : json :=
    match v with
    | MNone => JNull
    | MBool b => JBool b
    | MInt z => JInt z
    | MDec m e => JStr (print_dec m e)
    | MFloat m e => JDec m e
    | MStr s | MFmt s => JStr s
    | MList l => JArr (map tobj l)
    | MDict l => JObj (flat_map (fun kv => match snd kv with
                                           | MNone => []
                                           | _ => [(fst kv, tobj (snd kv))]
                                           end) l)
    | MModel c fs => JObj (flat_map (fun fv => match snd fv with
                                               | MNone => []
                                               | _ => [(str_of_string (alias_of SC c (fst fv)), tobj (snd fv))]
                                               end) fs)
    end.

  (* the value of one field of a job-side model: a list under the name "range" has its int / Decimal
     items printed (coerce_job), everything else is exported as it is *)
  Definition range_item (i : mval) : json := tobj (coerce_range_item i).

  Fixpoint jobj (v : mval) : json :=
    match v with
    | MList l => JArr (map jobj l)
    | MDict l => JObj (flat_map (fun kv => match snd kv with
                                           | MNone => []
                                           | _ => [(fst kv, jobj (snd kv))]
                                           end) l)
    | MModel c fs =>
      JObj (flat_map (fun fv =>
                        match snd fv with
                        | MNone => []
                        | _ =>
                          [(str_of_string (alias_of SC c (fst fv)),
                            if String.eqb (fst fv) "range"
                            then match snd fv with
                                 | MList items => JArr (map range_item items)
                                 | _ => tobj (snd fv)
                                 end
                            else jobj (snd fv))]
                        end) fs)
    | _ => tobj v
    end.

  Lemma tobj_null : forall x, tobj x = JNull -> x = MNone.
  Proof. intros x H. destruct x; try discriminate H. reflexivity. Qed.

  Lemma jobj_null : forall x, jobj x = JNull -> x = MNone.
  Proof. intros x H. destruct x; try discriminate H. reflexivity. Qed.

  Lemma flat_map_ext_in2 : forall (A B : Type) (f g : A -> list B) l,
    (forall a, In a l -> f a = g a) -> flat_map f l = flat_map g l.
  Proof.
    induction l as [|a l IH]; intros H; [reflexivity|]. cbn [flat_map].
    rewrite (H a (or_introl eq_refl)). rewrite IH; [reflexivity|]. intros b Hb. apply H. right. exact Hb.
  Qed.

  Lemma flat_map_map2 : forall (A B C : Type) (f : A -> B) (g : B -> list C) l,
    flat_map g (map f l) = flat_map (fun x => g (f x)) l.
  Proof. induction l as [|a l IH]; [reflexivity|]. cbn [map flat_map]. rewrite IH. reflexivity. Qed.

  Lemma item_depth : forall l (x : mval), In x l -> mval_depth x < mval_depth (MList l).
  Proof. intros l x H. apply (depth_le_max _ mval_depth) in H. cbn [mval_depth]. lia. Qed.

  Lemma member_depth : forall (l : list (str * mval)) kv, In kv l -> mval_depth (snd kv) < mval_depth (MDict l).
  Proof. intros l kv H. apply (depth_le_max _ (fun kv : str * mval => mval_depth (snd kv))) in H. cbn [mval_depth]. lia. Qed.

  Lemma field_depth : forall c (l : list (string * mval)) kv, In kv l -> mval_depth (snd kv) < mval_depth (MModel c l).
  Proof. intros c l kv H. apply (depth_le_max _ (fun kv : string * mval => mval_depth (snd kv))) in H. cbn [mval_depth]. lia. Qed.

  Lemma to_object_tobj : forall v F, mval_depth v < F -> to_object SC F v = tobj v.
  Proof.
    induction v as [ | | | | | | |l IH|l IH|c fs IH] using mval_ind3; intros F HF;
      (destruct F as [|F]; [lia|]); try reflexivity.
    - cbn [to_object tobj]. f_equal. apply map_ext_in. intros y Hy.
      rewrite Forall_forall in IH. apply (IH y Hy). pose proof (item_depth l y Hy). lia.
    - cbn [to_object tobj]. f_equal. apply flat_map_ext_in2. intros kv Hkv.
      rewrite Forall_forall in IH. assert (E : to_object SC F (snd kv) = tobj (snd kv))
        by (apply (IH kv Hkv); pose proof (member_depth l kv Hkv); lia).
      destruct kv as [k y]. cbn [snd fst] in *. destruct y; try reflexivity; rewrite E; reflexivity.
    - cbn [to_object tobj]. f_equal. apply flat_map_ext_in2. intros kv Hkv.
      rewrite Forall_forall in IH. assert (E : to_object SC F (snd kv) = tobj (snd kv))
        by (apply (IH kv Hkv); pose proof (field_depth c fs kv Hkv); lia).
      destruct kv as [k y]. cbn [snd fst] in *. destruct y; try reflexivity; rewrite E; reflexivity.
  Qed.
  Lemma coerce_range_item_depth : forall i, mval_depth (coerce_range_item i) <= mval_depth i.
  Proof. intros i. destruct i; cbn [coerce_range_item mval_depth]; lia. Qed.

  (* the export of the coerced Job, whatever the (sufficient) fuels *)
  Lemma to_object_coerce_jobj : forall v F1 F2, mval_depth v < F1 -> mval_depth v < F2 ->
    to_object SC F2 (coerce_job F1 v) = jobj v.
  Proof.
    induction v as [ | | | | | | |l IH|l IH|c fs IH] using mval_ind3; intros F1 F2 H1 H2;
      (destruct F1 as [|F1]; [lia|]); (destruct F2 as [|F2]; [lia|]); try reflexivity.
    - cbn [coerce_job to_object jobj]. rewrite map_map. f_equal. apply map_ext_in. intros y Hy.
      rewrite Forall_forall in IH. pose proof (item_depth l y Hy). apply (IH y Hy); lia.
    - cbn [coerce_job to_object jobj]. rewrite flat_map_map2. f_equal. apply flat_map_ext_in2. intros kv Hkv.
      rewrite Forall_forall in IH. pose proof (member_depth l kv Hkv) as Hd.
      assert (E : to_object SC F2 (coerce_job F1 (snd kv)) = jobj (snd kv)) by (apply (IH kv Hkv); lia).
      destruct kv as [k y]. cbn [snd fst] in *.
      destruct F1 as [|F1]; [lia|].
      destruct y; cbn [coerce_job] in *; try reflexivity; rewrite E; reflexivity.
    - cbn [coerce_job to_object jobj]. rewrite flat_map_map2. f_equal. apply flat_map_ext_in2. intros kv Hkv.
      rewrite Forall_forall in IH. pose proof (field_depth c fs kv Hkv) as Hd.
      destruct kv as [n y]. cbn [snd fst] in *.
      destruct (String.eqb n "range") eqn:En.
      + destruct y as [ | | | | | | |items| | ]; cbn [snd fst]; try reflexivity;
          try (rewrite to_object_tobj by lia; reflexivity).
        destruct F2 as [|F2]; [lia|].
        cbn [to_object]. rewrite map_map. f_equal. f_equal. f_equal. apply map_ext_in. intros i Hi.
        unfold range_item. apply to_object_tobj.
        pose proof (item_depth items i Hi). pose proof (coerce_range_item_depth i). lia.
      + assert (E : to_object SC F2 (coerce_job F1 y) = jobj y) by (apply (IH (n, y) Hkv); cbn [snd]; lia).
        destruct F1 as [|F1]; [lia|].
        destruct y; cbn [coerce_job snd fst] in *; try reflexivity; rewrite E; reflexivity.
  Qed.
End Tobj.

(* the export never holds a null MEMBER *)
Section NoNullMembers.
  Variable SC : schema_t.

  Lemma nnm_tobj : forall v, no_null_members (tobj SC v) = true.
  Proof.
    induction v as [ | | | | | | |l IH|l IH|c fs IH] using mval_ind3; try reflexivity.
    - cbn [tobj no_null_members]. rewrite forallb_forall. intros y Hy. apply in_map_iff in Hy.
      destruct Hy as [x [<- Hx]]. rewrite Forall_forall in IH. exact (IH x Hx).
    - cbn [tobj no_null_members]. rewrite forallb_forall. intros kv Hkv. apply in_flat_map in Hkv.
      destruct Hkv as [[k x] [Hx Hkv]]. rewrite Forall_forall in IH. specialize (IH _ Hx). cbn [snd fst] in *.
      destruct x. 1: destruct Hkv. all: destruct Hkv as [<-|[]]; cbn [snd]; try reflexivity; rewrite IH; reflexivity.
    - cbn [tobj no_null_members]. rewrite forallb_forall. intros kv Hkv. apply in_flat_map in Hkv.
      destruct Hkv as [[k x] [Hx Hkv]]. rewrite Forall_forall in IH. specialize (IH _ Hx). cbn [snd fst] in *.
      destruct x. 1: destruct Hkv. all: destruct Hkv as [<-|[]]; cbn [snd]; try reflexivity; rewrite IH; reflexivity.
  Qed.

  Lemma nnm_jobj : forall v, no_null_members (jobj SC v) = true.
  Proof.
    induction v as [ | | | | | | |l IH|l IH|c fs IH] using mval_ind3; try reflexivity.
    - cbn [jobj no_null_members]. rewrite forallb_forall. intros y Hy. apply in_map_iff in Hy.
      destruct Hy as [x [<- Hx]]. rewrite Forall_forall in IH. exact (IH x Hx).
    - cbn [jobj no_null_members]. rewrite forallb_forall. intros kv Hkv. apply in_flat_map in Hkv.
      destruct Hkv as [[k x] [Hx Hkv]]. rewrite Forall_forall in IH. specialize (IH _ Hx). cbn [snd fst] in *.
      destruct x. 1: destruct Hkv. all: destruct Hkv as [<-|[]]; cbn [snd]; try reflexivity; rewrite IH; reflexivity.
    - cbn [jobj no_null_members]. rewrite forallb_forall. intros kv Hkv. apply in_flat_map in Hkv.
      destruct Hkv as [[k x] [Hx Hkv]]. rewrite Forall_forall in IH. specialize (IH _ Hx). cbn [snd fst] in *.
      destruct (String.eqb k "range").
      + destruct x as [ | | | | | | |items| | ]. 1: destruct Hkv.
        all: destruct Hkv as [<-|[]]; cbn [snd]; try reflexivity;
          try (rewrite nnm_tobj; reflexivity).
        cbn [is_null negb andb no_null_members]. rewrite forallb_forall. intros y Hy. apply in_map_iff in Hy.
        destruct Hy as [i [<- _]]. unfold range_item. apply nnm_tobj.
      + destruct x. 1: destruct Hkv. all: destruct Hkv as [<-|[]]; cbn [snd]; try reflexivity; rewrite IH; reflexivity.
  Qed.
End NoNullMembers.

(* ------------------------------------------------------------------------------------------ *)
(* 2. instantiate_model does not deepen the tree                                               *)

Definition maxd {K : Type} (l : list (K * mval)) : nat :=
  fold_right (fun x acc => Nat.max (mval_depth (snd x)) acc) O l.

Lemma maxd_le : forall (K : Type) (l : list (K * mval)) M,
  (forall kv, In kv l -> mval_depth (snd kv) <= M) -> maxd l <= M.
Proof.
  induction l as [|a r IH]; intros M H; [cbn; lia|].
  cbn [maxd fold_right]. fold (maxd r). pose proof (H a (or_introl eq_refl)).
  assert (maxd r <= M) by (apply IH; intros kv Hkv; apply H; right; exact Hkv). lia.
Qed.

Lemma maxd_in : forall (K : Type) (l : list (K * mval)) kv, In kv l -> mval_depth (snd kv) <= maxd l.
Proof. intros K l kv H. exact (depth_le_max _ (fun kv : K * mval => mval_depth (snd kv)) l kv H). Qed.

Lemma maxl_le : forall (l : list mval) M,
  (forall x, In x l -> mval_depth x <= M) -> fold_right (fun x acc => Nat.max (mval_depth x) acc) O l <= M.
Proof.
  induction l as [|a r IH]; intros M H; [cbn; lia|].
  cbn [fold_right]. pose proof (H a (or_introl eq_refl)).
  assert (fold_right (fun x acc => Nat.max (mval_depth x) acc) O r <= M) by (apply IH; intros x Hx; apply H; right; exact Hx). lia.
Qed.

Lemma mapM_in_ok : forall (A B : Type) (f : A -> outcome B) l ys,
  mapM f l = Ok ys -> forall y, In y ys -> exists x, In x l /\ f x = Ok y.
Proof.
  induction l as [|a r IH]; intros ys H y Hy.
  - injection H as <-. destruct Hy.
  - cbn [mapM] in H. destruct (f a) as [b|e] eqn:Ea; cbn [bind] in H; [|discriminate H].
    destruct (mapM f r) as [bs|e] eqn:Er; cbn [bind] in H; [|discriminate H].
    injection H as <-. destruct Hy as [<-|Hy].
    + exists a. split; [left; reflexivity|exact Ea].
    + destruct (IH bs eq_refl y Hy) as [x [Hx Hf]]. exists x. split; [right; exact Hx|exact Hf].
Qed.

Lemma dict_set_in : forall d k v kv, In kv (dict_set d k v) -> kv = (k, v) \/ In kv d.
Proof.
  induction d as [|[k' v'] r IH]; intros k v kv H.
  - destruct H as [H|[]]. left. symmetry. exact H.
  - cbn [dict_set] in H. destruct (str_eqb k k').
    + destruct H as [H|H]; [left; symmetry; exact H|right; right; exact H].
    + destruct H as [H|H]; [right; left; exact H|]. destruct (IH _ _ _ H) as [E|E]; [left; exact E|right; right; exact E].
Qed.

Section InstDepth.
  Variable SC : schema_t.
  Variable resolve : symtab -> str -> outcome str.
  Variable sigma : symtab.

  Lemma inst_item_depth : forall rec j fn x y,
    (forall a b, rec a = Ok b -> mval_depth b <= mval_depth a) ->
    inst_item resolve sigma rec j fn x = Ok y -> mval_depth y <= mval_depth x.
  Proof.
    intros rec j fn x y Hrec H. destruct x; cbn [inst_item] in H; try (injection H as <-; lia).
    - destruct (mem_s fn (j_resolve j)); [|injection H as <-; lia].
      destruct (resolve sigma s); cbn [bind] in H; [injection H as <-; cbn; lia|discriminate H].
    - exact (Hrec _ _ H).
  Qed.

  Lemma reshape_fold_depth : forall rec j fn kf items acc d M,
    (forall a b, rec a = Ok b -> mval_depth b <= mval_depth a) ->
    (forall x, In x items -> mval_depth x <= M) ->
    (forall kv, In kv acc -> mval_depth (snd kv) <= M) ->
    fold_left (reshape_step resolve sigma rec j fn kf) items (Ok acc) = Ok d ->
    forall kv, In kv d -> mval_depth (snd kv) <= M.
  Proof.
    intros rec j fn kf items. induction items as [|it r IH]; intros acc d M Hrec Hit Hacc H kv Hkv.
    - cbn [fold_left] in H. injection H as <-. exact (Hacc kv Hkv).
    - cbn [fold_left] in H.
      destruct (reshape_step resolve sigma rec j fn kf (Ok acc) it) as [acc'|e] eqn:Es.
      + apply (IH acc' d M Hrec); try assumption.
        * intros x Hx. apply Hit. right. exact Hx.
        * intros kv' Hkv'. unfold reshape_step in Es. cbn [bind] in Es.
          destruct (key_of it kf) as [k|e]; cbn [bind] in Es; [|discriminate Es].
          destruct (inst_item resolve sigma rec j fn it) as [y|e] eqn:Ei; cbn [bind] in Es; [|discriminate Es].
          injection Es as <-. apply dict_set_in in Hkv'. destruct Hkv' as [->|Hkv'].
          -- cbn [snd]. pose proof (inst_item_depth _ _ _ _ _ Hrec Ei). pose proof (Hit it (or_introl eq_refl)). lia.
          -- exact (Hacc kv' Hkv').
      + exfalso. clear - H. induction r as [|it' r IH]; [discriminate H|]. cbn [fold_left] in H. apply IH. exact H.
  Qed.

  Lemma inst_val_depth : forall rec j fn x y,
    (forall a b, rec a = Ok b -> mval_depth b <= mval_depth a) ->
    inst_val resolve sigma rec j fn x = Ok y -> mval_depth y <= mval_depth x.
  Proof.
    intros rec j fn x y Hrec H. destruct x as [ | | | | | | |items|members|c fs];
      try exact (inst_item_depth _ _ _ _ _ Hrec H).
    - cbn [inst_val] in H. destruct (lookup_s fn (j_reshape j)) as [kf|].
      + destruct (fold_left _ items (Ok [])) as [d|e] eqn:Ef; cbn [bind] in H; [|discriminate H].
        injection H as <-. cbn [mval_depth]. apply le_n_S. apply maxd_le. intros kv Hkv.
        apply (reshape_fold_depth rec j fn kf items [] d _ Hrec) with (kv := kv); try assumption.
        * intros x Hx. exact (depth_le_max _ mval_depth items x Hx).
        * intros kv' [].
      + destruct (mapM _ items) as [l|e] eqn:Em; cbn [bind] in H; [|discriminate H].
        injection H as <-. cbn [mval_depth]. apply le_n_S. apply maxl_le. intros y Hy.
        destruct (mapM_in_ok _ _ _ _ _ Em y Hy) as [x [Hx Hf]].
        pose proof (inst_item_depth _ _ _ _ _ Hrec Hf). pose proof (depth_le_max _ mval_depth items x Hx). lia.
    - cbn [inst_val] in H. destruct (mapM _ members) as [l|e] eqn:Em; cbn [bind] in H; [|discriminate H].
      injection H as <-. cbn [mval_depth]. apply le_n_S. apply maxd_le. intros kv Hkv.
      destruct (mapM_in_ok _ _ _ _ _ Em kv Hkv) as [kv0 [Hx Hf]]. unfold inst_member in Hf.
      pose proof (maxd_in _ members kv0 Hx) as Hm. unfold maxd in Hm.
      destruct kv0 as [k0 x0]. cbn [snd fst] in *.
      destruct x0; cbn [bind] in Hf; try (injection Hf as <-; cbn [snd]; exact Hm).
      + destruct (existsb _ (j_resolve j)); cbn [bind] in Hf; [|injection Hf as <-; exact Hm].
        destruct (resolve sigma s); cbn [bind] in Hf; [injection Hf as <-; cbn [snd mval_depth] in *; lia|discriminate Hf].
      + destruct (rec (MModel cls fields)) as [y|e] eqn:Er; cbn [bind] in Hf; [|discriminate Hf].
        injection Hf as <-. cbn [snd]. pose proof (Hrec _ _ Er). lia.
  Qed.

  Theorem inst_depth : forall f v y, inst SC resolve sigma f v = Ok y -> mval_depth y <= mval_depth v.
  Proof.
    induction f as [|f IH]; intros v y H; [rewrite inst_O in H; discriminate H|].
    rewrite inst_S in H. destruct v as [ | | | | | | | | |c fields]; try (injection H as <-; lia).
    unfold inst_model in H.
    destruct (mapM _ fields) as [fss|e] eqn:Em; cbn [bind] in H; [|discriminate H].
    destruct (add_value sigma (jcm_of SC c) fields (List.concat fss)) as [fs'|e] eqn:Ea; cbn [bind] in H; [|discriminate H].
    injection H as <-. cbn [mval_depth]. apply le_n_S. fold (maxd fs'). fold (maxd fields).
    assert (Hc : forall kv, In kv (List.concat fss) -> mval_depth (snd kv) <= maxd fields).
    { intros kv Hkv. apply in_concat in Hkv. destruct Hkv as [fs0 [Hfs0 Hkv]].
      destruct (mapM_in_ok _ _ _ _ _ Em fs0 Hfs0) as [[fn x] [Hx Hf]]. unfold inst_field in Hf.
      destruct (mem_s fn (j_exclude (jcm_of SC c))); [injection Hf as <-; destruct Hkv|].
      destruct (inst_val resolve sigma (inst SC resolve sigma f) (jcm_of SC c) fn x) as [y|e] eqn:Ev; cbn [bind] in Hf; [|discriminate Hf].
      injection Hf as <-. destruct Hkv as [<-|[]]. cbn [snd].
      pose proof (inst_val_depth _ _ _ _ _ IH Ev). pose proof (maxd_in _ fields (fn, x) Hx) as Hm. cbn [snd] in Hm. lia. }
    unfold add_value in Ea. destruct (j_adds_value (jcm_of SC c)).
    - destruct (mfield "name" fields) as [ | | | | |n| | | | ] eqn:En; try discriminate Ea.
      destruct (st_lookup sigma _); [|discriminate Ea]. injection Ea as <-.
      apply maxd_le. intros kv Hkv. apply in_app_or in Hkv. destruct Hkv as [Hkv|[<-|[]]]; [exact (Hc kv Hkv)|].
      cbn [snd mval_depth]. unfold mfield in En.
      destruct (lookup_s "name" fields) as [x|] eqn:El; [|discriminate En]. subst x.
      assert (Hin : exists k, In (k, MStr n) fields).
      { clear - El. induction fields as [|[k x] r IH]; [discriminate El|]. cbn [lookup_s] in El.
        destruct (String.eqb k "name"); [injection El as ->; exists k; left; reflexivity|].
        destruct (IH El) as [k' Hk']. exists k'. right. exact Hk'. }
      destruct Hin as [k Hk]. pose proof (maxd_in _ fields _ Hk) as Hm. cbn [snd mval_depth] in Hm. exact Hm.
    - injection Ea as <-. apply maxd_le. exact Hc.
  Qed.
End InstDepth.

(* ------------------------------------------------------------------------------------------ *)
(* 3. explicit nulls are absent members                                                        *)

Lemma strip_nulls_nn : forall f x, x <> JNull -> strip_nulls f x <> JNull.
Proof. intros f x H. destruct f; [exact H|]. destruct x; cbn [strip_nulls]; try discriminate. contradiction. Qed.

Theorem json_equiv_strip_r : forall f a b, json_equiv a b -> json_equiv a (strip_nulls f b).
Proof.
  induction f as [|f IH]; intros a b H; [exact H|].
  destruct b as [| | | | |l|ms]; cbn [strip_nulls]; try exact H.
  - inversion H as [| | | | |la l' HF|]; subst. constructor.
    clear H. induction HF as [|x y r r' Hxy _ IH2]; cbn [map]; constructor; [apply IH; exact Hxy|exact IH2].
  - inversion H as [| | | | | |msa ms' HF]; subst. constructor. intros k.
    change (flat_map (fun kv : str * json => match snd kv with
                                             | JNull => []
                                             | x => [(fst kv, strip_nulls f x)]
                                             end) ms)
      with (drop_null_members (strip_nulls f) ms).
    rewrite jfind_drop_nulls by (apply strip_nulls_nn).
    specialize (HF k). destruct HF as [|x y Hxy]; cbn [option_map]; constructor. apply IH. exact Hxy.
Qed.

Corollary json_equiv_same_r : forall a b, json_equiv a b -> json_equiv a (same b).
Proof. intros a b H. unfold same. apply json_equiv_strip_r. exact H. Qed.

(* ------------------------------------------------------------------------------------------ *)
(* 4. numerals and brace-free strings                                                          *)

Lemma print_Z_okc : forall z, forallb okc (print_Z z) = true.
Proof.
  intros z. destruct z as [|p|p]; [reflexivity| |].
  - apply all_digits_okc. apply digits_of_N_spec.
  - cbn [print_Z forallb]. rewrite all_digits_okc by apply digits_of_N_spec. reflexivity.
Qed.

Lemma print_dec_okc : forall m e, forallb okc (print_dec m e) = true.
Proof.
  intros m e. rewrite print_dec_eq. cbv zeta.
  destruct (digits_of_N_spec (Z.abs_N m)) as [Hd [Hne Hv]].
  set (ds := digits_of_N (Z.abs_N m)) in *.
  rewrite !forallb_app. rewrite exp_part_okc.
  match goal with |- context [dec_body ds ?dp] => set (dpv := dp) end.
  assert (Hb : forallb okc (dec_body ds dpv) = true).
  { unfold dec_body. destruct (dpv <=? 0)%Z.
    - rewrite !forallb_app. rewrite (all_digits_okc _ Hd), (all_digits_okc _ (all_digits_zeros _)). reflexivity.
    - destruct (Z.of_nat (List.length ds) <=? dpv)%Z.
      + rewrite !forallb_app. rewrite (all_digits_okc _ Hd), (all_digits_okc _ (all_digits_zeros _)). reflexivity.
      + rewrite !forallb_app. rewrite (all_digits_okc _ (all_digits_firstn _ _ Hd)), (all_digits_okc _ (all_digits_skipn _ _ Hd)). reflexivity. }
  rewrite Hb. destruct (m <? 0)%Z; reflexivity.
Qed.

(* str(Decimal(z)) = str(z) *)
Lemma print_dec_int : forall z, print_dec z 0 = print_Z z.
Proof.
  intros z. rewrite print_dec_eq. cbv zeta.
  destruct (digits_of_N_spec (Z.abs_N z)) as [Hd [Hne Hv]].
  set (ds := digits_of_N (Z.abs_N z)) in *.
  assert (Hnd : (0 < Z.of_nat (List.length ds))%Z) by (destruct ds; [contradiction|cbn [List.length]; lia]).
  assert (E1 : ((0 <=? 0) && (-6 <? 0 + Z.of_nat (List.length ds)))%Z = true) by lia.
  rewrite E1. replace (0 + Z.of_nat (List.length ds) - (0 + Z.of_nat (List.length ds)))%Z with 0%Z by lia.
  unfold exp_part. cbn [Z.eqb]. rewrite app_nil_r.
  unfold dec_body.
  assert (E2 : (0 + Z.of_nat (List.length ds) <=? 0)%Z = false) by lia. rewrite E2.
  assert (E3 : (Z.of_nat (List.length ds) <=? 0 + Z.of_nat (List.length ds))%Z = true) by lia. rewrite E3.
  replace (Z.to_nat (0 + Z.of_nat (List.length ds) - Z.of_nat (List.length ds))) with O by lia.
  cbn [zeros repeat]. rewrite app_nil_r.
  subst ds. destruct z as [|p|p]; reflexivity.
Qed.

Lemma okc_not_brace : forall c, okc c = true -> c <> lbrace /\ c <> rbrace.
Proof. intros c H. unfold okc, is_digit in H. unfold lbrace, rbrace. lia. Qed.

Lemma NoSub_absent : forall x s, ~ In x s -> NoSub [x; x] s.
Proof.
  intros x s H a b E. apply H. rewrite E. apply in_or_app. right. left. reflexivity.
Qed.

(* a string made of the characters of a printed number is no reference: it resolves to itself *)
Theorem resolve_plain : forall classify, ascii_ok classify = true ->
  forall sigma s, forallb okc s = true -> CreateJobProofs.fs_resolve classify sigma s = Ok s.
Proof.
  intros classify Hok sigma s Hs.
  assert (Hd : Decomp classify s [] s).
  { rewrite forallb_forall in Hs. constructor; apply NoSub_absent; intros Hin; apply Hs in Hin; apply okc_not_brace in Hin; tauto. }
  rewrite (fs_resolve_single_pass classify Hok s [] s sigma Hd). reflexivity.
Qed.

(* ------------------------------------------------------------------------------------------ *)
(* 5. objects written with [opt] (CreateJobSpec) have the bindings of the full member list     *)

Definition members_eq (a b : list (str * json)) : Prop := forall k, jfind k a = jfind k b.

Lemma meq_refl : forall a, members_eq a a.
Proof. intros a k. reflexivity. Qed.

Lemma meq_cons : forall x a b, members_eq a b -> members_eq (x :: a) (x :: b).
Proof. intros [k' v] a b H k. cbn [jfind]. rewrite (H k). reflexivity. Qed.

Lemma meq_opt : forall key v a b, members_eq a b -> members_eq (opt key v ++ a) ((str_of_string key, v) :: b).
Proof.
  intros key v a b H k. unfold opt. destruct v; cbn [app jfind onn]; rewrite (H k); try reflexivity.
  destruct (str_eqb k (str_of_string key)); reflexivity.
Qed.

Lemma meq_opt_last : forall key v, members_eq (opt key v) [(str_of_string key, v)].
Proof.
  intros key v k. unfold opt. destruct v; cbn [jfind onn]; try reflexivity.
  destruct (str_eqb k (str_of_string key)); reflexivity.
Qed.

Lemma json_equiv_meq_r : forall a ms ms', members_eq ms ms' -> json_equiv a (JObj ms') -> json_equiv a (JObj ms).
Proof.
  intros a ms ms' H He. inversion He as [| | | | | |msa ms0 HF]; subst. constructor. intros k. rewrite (H k). exact (HF k).
Qed.

Lemma json_equiv_meq_l : forall a ms ms', members_eq ms ms' -> json_equiv (JObj ms') a -> json_equiv (JObj ms) a.
Proof.
  intros a ms ms' H He. inversion He as [| | | | | |ms0 msa HF]; subst. constructor. intros k. rewrite (H k). exact (HF k).
Qed.

Ltac meq_tac := repeat first [apply meq_opt_last | apply meq_opt | apply meq_cons | apply meq_refl].

Ltac in_tac := cbn [In]; first [left; reflexivity | right; in_tac].
Ltac incl_tac := let a := fresh "a" in let Ha := fresh "Ha" in
  intros a Ha; cbn [map fst In] in Ha;
  repeat (destruct Ha as [Ha|Ha]; [rewrite <- Ha; in_tac|]); destruct Ha.

(* bindings in explicit member lists with literal keys *)
Ltac jf_none := repeat rewrite jfind_miss by reflexivity; reflexivity.
Ltac jf := repeat first [rewrite jfind_miss by reflexivity | rewrite jfind_hit by first [reflexivity | jf_none]].

Ltac keys_split := repeat apply Forall_cons; try apply Forall_nil.

(* aliases: every class but JobTemplate exports its fields under their own names *)
Section Alias.
  Variable SC : schema_t.
  Definition aliases_plain (c : string) : bool :=
    match lookup_cls SC c with
    | Some c0 => forallb (fun fl => String.eqb (f_alias fl) (f_name fl)) (c_fields c0)
    | None => true
    end.

  Lemma alias_plain : forall c, aliases_plain c = true -> forall n, alias_of SC c n = n.
  Proof.
    intros c H n. unfold aliases_plain in H. unfold alias_of. destruct (lookup_cls SC c) as [c0|]; [|reflexivity].
    destruct (List.find (fun fl => String.eqb (f_name fl) n) (c_fields c0)) as [fl|] eqn:Ef; [|reflexivity].
    apply find_some in Ef. destruct Ef as [Hin Hn]. rewrite forallb_forall in H. specialize (H fl Hin).
    apply String.eqb_eq in H. apply String.eqb_eq in Hn. congruence.
  Qed.
End Alias.

(* pointwise equivalent member lists with the same key sequence *)
Lemma json_equiv_obj_pointwise : forall (ms ms' : list (str * json)),
  Forall2 (fun a b => fst a = fst b /\ json_equiv (snd a) (snd b)) ms ms' -> json_equiv (JObj ms) (JObj ms').
Proof.
  intros ms ms' HF. constructor. intros k. induction HF as [|[k1 v1] [k2 v2] r r' [Hk Hv] _ IH]; [constructor|].
  cbn [fst snd] in Hk, Hv. subst k2. cbn [jfind]. destruct (str_eqb k k1); [|exact IH].
  pose proof (onn_equiv _ _ Hv) as Ho. destruct Ho as [|a b Hab]; [exact IH|constructor; exact Hab].
Qed.
