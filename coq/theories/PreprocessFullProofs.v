(* PreprocessFullProofs.v — lemmas behind props/C10x.v: C10 / C11 / C12 transported through the composition
   PreprocessFull.preprocess_docs (decode -> read the definitions -> merge -> preprocess with the PATH rules).
     1. the merged definitions: exactly one per distinct name, each the merge of its group; success of the
        merge = every group merges; a refused group = ValueError;
     2. JobParams.preprocess for either value of [dir_ok];
     3. reading the documents: total on accepted templates, the definitions are wf_def / wf_default;
     4. the theorems. *)
From Coq Require Import List NArith ZArith Bool String Lia.
Import ListNotations.
Require Import OJD.Base OJD.Lexer OJD.Json OJD.Schema OJD.Generated OJD.Numerals OJD.NumeralsSpec
               OJD.CreateJob OJD.Parse OJD.Validators OJD.Accept OJD.DecodeInv
               OJD.JobParams OJD.JobParamsSpec OJD.JobParamsProofs OJD.Merge OJD.MergeSpec OJD.MergeProofs
               OJD.Paths OJD.PathsSpec OJD.PathsProofs OJD.CreateJobFull OJD.CreateJobFullProofs
               OJD.PreprocessFull OJD.PreprocessFullSpec OJD.PreprocessFullLib.
Local Open Scope list_scope.

(* ------------------------------------------------------------------ 1. merged definitions *)

Lemma merge_groups_ok : forall gs ms,
  merge_groups gs = Ok (ms, false) <-> Forall2 (fun kg m => merge false (snd kg) = Ok m) gs ms.
Proof.
  induction gs as [|[k g] r IH]; intros ms.
  - cbn [merge_groups]. split.
    + intro H. injection H as <-. constructor.
    + intro H. inversion H. reflexivity.
  - cbn [merge_groups]. split.
    + intro H. destruct (merge false g) as [m|e] eqn:Em.
      * destruct (merge_groups r) as [[ms' b]|e'] eqn:Er; cbn [bind fst snd] in H; [|discriminate H].
        injection H as <- ->. constructor; [exact Em|]. apply IH. reflexivity.
      * destruct e; try discriminate H.
        destruct (merge_groups r) as [[ms' b]|e'] eqn:Er; cbn [bind fst snd] in H; discriminate H.
    + intro H. inversion H as [|kg m r' ms' Hm Hr]; subst. cbn [snd] in Hm. rewrite Hm.
      apply IH in Hr. rewrite Hr. reflexivity.
Qed.

(* a group that is refused makes the whole merge a CompatibilityError (whatever the other groups do, unless one of
   them leaves the modelled domain — excluded for decoded definitions by wf_default) *)
Lemma merge_groups_refused : forall gs x, merge_groups gs = Ok x ->
  (exists k g, In (k, g) gs /\ merge false g = Raise CompatibilityError) -> snd x = true.
Proof.
  induction gs as [|[k0 g0] r IH]; intros x H [k [g [Hin Hm]]]; [destruct Hin|].
  cbn [merge_groups] in H. destruct Hin as [E|Hin].
  - injection E as <- <-. rewrite Hm in H.
    destruct (merge_groups r) as [y|e]; cbn [bind] in H; [|discriminate H]. injection H as <-. reflexivity.
  - destruct (merge false g0) as [m|e].
    + destruct (merge_groups r) as [y|e'] eqn:Er; cbn [bind] in H; [|discriminate H]. injection H as <-.
      cbn [snd]. eapply IH; [reflexivity|]. exists k, g. split; assumption.
    + destruct e; try discriminate H.
      destruct (merge_groups r) as [y|e'] eqn:Er; cbn [bind] in H; [|discriminate H]. injection H as <-. reflexivity.
Qed.

Section Merged.
  Variable eds : list (list pdef).
  Variable jd : list pdef.
  Let srcs := List.concat eds ++ jd.

  Lemma group_names : forall k g, In (k, g) (collect_groups srcs) ->
    g = group_of k srcs /\ g <> [] /\ (forall d, In d g -> pname d = k) /\ In k (map pname srcs).
  Proof.
    intros k g H. destruct (collect_groups_spec srcs) as [_ [EL _]]. destruct (EL k g H) as [E NE].
    assert (A : forall d, In d g -> pname d = k /\ In d srcs).
    { intros d Hd. rewrite E in Hd. unfold group_of in Hd. apply filter_In in Hd. destruct Hd as [H1 H2].
      split; [apply JobParamsProofs.str_eqb_eq; exact H2|exact H1]. }
    split; [exact E|]. split; [exact NE|]. split; [intros d Hd; apply A; exact Hd|].
    destruct g as [|d g']; [contradiction NE; reflexivity|].
    destruct (A d (or_introl eq_refl)) as [<- Hs]. apply in_map. exact Hs.
  Qed.

  Lemma merged_each : forall gs ms,
    (forall k g, In (k, g) gs -> g = group_of k srcs /\ g <> [] /\ (forall d, In d g -> pname d = k)) ->
    Forall2 (fun kg m => merge false (snd kg) = Ok m) gs ms ->
    forall m, In m ms -> merge false (group_of (pname m) srcs) = Ok m.
  Proof.
    intros gs ms G F. induction F as [|[k g] m gs' ms' Hm _ IH]; intros m0 Hin; [destruct Hin|].
    destruct Hin as [<-|Hin].
    - cbn [snd] in Hm. destruct (G k g (or_introl eq_refl)) as [E [NE Hn]].
      destruct g as [|d g']; [contradiction NE; reflexivity|].
      assert (K : pname m = k).
      { rewrite <- (merge_ok_name _ _ Hm d (or_introl eq_refl)). apply Hn. left. reflexivity. }
      rewrite K, <- E. exact Hm.
    - apply IH; [|exact Hin]. intros k' g' H'. apply G. right. exact H'.
  Qed.

  Lemma merged_names : forall gs defs,
    (forall k g, In (k, g) gs -> g <> [] /\ (forall d, In d g -> pname d = k)) ->
    Forall2 (fun kg m => merge false (snd kg) = Ok m) gs defs -> map pname defs = map fst gs.
  Proof.
    intros gs defs G F. induction F as [|[k g] m gs' ds' Hm _ IH]; [reflexivity|].
    cbn [map fst]. f_equal.
    - cbn [snd] in Hm. destruct (G k g (or_introl eq_refl)) as [NE Hn].
      destruct g as [|d g']; [contradiction NE; reflexivity|].
      rewrite <- (merge_ok_name _ _ Hm d (or_introl eq_refl)). apply Hn. left. reflexivity.
    - apply IH. intros k' g' H'. apply G. right. exact H'.
  Qed.

  Theorem merge_definitions_merged : forall defs, merge_definitions eds jd = Ok defs ->
    merged_from srcs defs /\ Forall wf_def defs.
  Proof.
    intros defs H. unfold merge_definitions in H. fold srcs in H.
    destruct (merge_groups (collect_groups srcs)) as [[ms b]|e] eqn:Em; cbn [bind fst snd] in H; [|discriminate H].
    destruct b; [discriminate H|]. injection H as <-.
    apply merge_groups_ok in Em.
    assert (G : forall k g, In (k, g) (collect_groups srcs) -> g <> [] /\ (forall d, In d g -> pname d = k)).
    { intros k g Hin. destruct (group_names k g Hin) as [_ [A [B _]]]. split; assumption. }
    pose proof (merged_names _ _ G Em) as Names.
    destruct (collect_groups_spec srcs) as [ND [_ CV]].
    assert (Each : forall m, In m ms -> merge false (group_of (pname m) srcs) = Ok m).
    { apply (merged_each (collect_groups srcs) ms); [|exact Em].
      intros k g Hin. destruct (group_names k g Hin) as [A [B [C _]]]. split; [exact A|]. split; assumption. }
    split.
    - split; [rewrite Names; exact ND|]. split.
      + apply Each.
      + intros d Hd. rewrite Names. apply CV. exact Hd.
    - apply Forall_forall. intros m Hm. eapply merged_wf_def. apply Each. exact Hm.
  Qed.

  (* the merge succeeds exactly when the definitions of every name can be merged *)
  Theorem merge_definitions_ok_iff :
    (exists defs, merge_definitions eds jd = Ok defs) <->
    (forall k, In k (map pname srcs) -> exists m, merge false (group_of k srcs) = Ok m).
  Proof.
    split.
    - intros [defs H] k Hk. destruct (merge_definitions_merged defs H) as [[_ [Each CV]] _].
      apply in_map_iff in Hk. destruct Hk as [d [<- Hd]].
      specialize (CV d Hd). apply in_map_iff in CV. destruct CV as [m [E Hm]].
      exists m. rewrite <- E. apply Each. exact Hm.
    - intros A. unfold merge_definitions. fold srcs.
      assert (T : exists ms, merge_groups (collect_groups srcs) = Ok (ms, false)).
      { assert (G : forall k g, In (k, g) (collect_groups srcs) -> exists m, merge false g = Ok m).
        { intros k g Hin. destruct (group_names k g Hin) as [E [_ [_ Hk]]]. rewrite E. apply A. exact Hk. }
        revert G. generalize (collect_groups srcs) as gs. induction gs as [|[k g] r IH]; intros G.
        - exists []. reflexivity.
        - destruct (G k g (or_introl eq_refl)) as [m Hm].
          destruct IH as [ms Hms]; [intros k' g' H'; apply (G k' g'); right; exact H'|].
          exists (m :: ms). cbn [merge_groups]. rewrite Hm, Hms. reflexivity. }
      destruct T as [ms Hms]. exists ms. rewrite Hms. reflexivity.
  Qed.

  (* one refused name refuses the whole merge *)
  Theorem merge_definitions_refused : forall k,
    Forall (Forall wf_default) eds -> Forall wf_default jd ->
    merge false (group_of k srcs) = Raise CompatibilityError -> In k (map pname srcs) ->
    merge_definitions eds jd = Raise CompatibilityError.
  Proof.
    intros k We Wj Hm Hk.
    destruct (merge_definitions eds jd) as [defs|e] eqn:E.
    - exfalso. destruct (proj1 merge_definitions_ok_iff (ex_intro _ defs E) k Hk) as [m Hm']. congruence.
    - rewrite (merge_definitions_raise eds jd e We Wj E). reflexivity.
  Qed.
End Merged.

(* what a merged definition accepts, and its default, in terms of ALL the sources of its name (C12) *)
Theorem merged_sat : forall srcs defs m v, Forall wf_def srcs -> merged_from srcs defs -> In m defs ->
  (sat m v <-> Forall (fun d => sat d v) (group_of (pname m) srcs)) /\
  pdefault m = last_given_default (group_of (pname m) srcs).
Proof.
  intros srcs defs m v W [_ [Each _]] Hm. specialize (Each m Hm).
  assert (Wg : Forall wf_def (group_of (pname m) srcs)).
  { apply Forall_forall. intros d Hd. unfold group_of in Hd. apply filter_In in Hd. destruct Hd as [Hd _].
    rewrite Forall_forall in W. apply W. exact Hd. }
  split; [split|].
  - apply merge_sound; assumption.
  - apply merge_complete; assumption.
  - apply merge_default. exact Each.
Qed.

(* ------------------------------------------------------------------ 2. preprocess, either dir_ok *)

Section Pre.
  Variable path_in : str -> str.
  Variable path_default : str -> outcome str.

  Lemma preprocess_dirok : forall dok defs vals r,
    preprocess false dok path_in path_default defs vals = Ok r <->
    (defs = [] \/ dok = true) /\ preprocess false true path_in path_default defs vals = Ok r.
  Proof.
    intros dok defs vals r. destruct dok; [tauto|].
    destruct defs as [|d0 ds].
    - split; [intro H; split; [left; reflexivity|exact H]|intros [_ H]; exact H].
    - split.
      + intro H. exfalso. unfold preprocess, JobParams.collect_defaults in H.
        apply finish_ok in H. destruct H as [H _]. lia.
      + intros [[H|H] _]; discriminate H.
  Qed.
End Pre.

Section Defs.
  Variables dir cwd : str.
  Variable walkup : bool.
  Notation pin := (path_supplied cwd).
  Notation pd := (default_body dir walkup).

  Lemma dir_rule_check : forall defs, (defs = [] \/ negb (dir_check dir walkup) = true) <-> dir_rule_ok dir walkup defs.
  Proof.
    intros defs. unfold dir_rule_ok, dir_check. destruct walkup, (is_absolute dir); cbn; intuition discriminate.
  Qed.

  Theorem preprocess_defs_ok_iff : forall defs vals r, Forall wf_def defs -> NoDup (map pname defs) ->
    (preprocess_defs dir cwd walkup defs vals = Ok r <->
     r = entries pin pd vals defs /\ dir_rule_ok dir walkup defs /\
     no_extra defs vals /\ no_missing defs vals /\ path_defaults_ok pd defs vals /\ all_sat pin pd defs vals).
  Proof.
    intros defs vals r W ND. unfold preprocess_defs. rewrite preprocess_dirok, dir_rule_check.
    rewrite (preprocess_ok_iff pin pd defs vals r W ND). tauto.
  Qed.

  Theorem preprocess_defs_iff : forall defs vals, Forall wf_def defs -> NoDup (map pname defs) ->
    ((exists r, preprocess_defs dir cwd walkup defs vals = Ok r) <->
     dir_rule_ok dir walkup defs /\
     no_extra defs vals /\ no_missing defs vals /\ path_defaults_ok pd defs vals /\ all_sat pin pd defs vals).
  Proof.
    intros defs vals W ND. split.
    - intros [r H]. apply preprocess_defs_ok_iff in H; try assumption. tauto.
    - intro H. exists (entries pin pd vals defs). apply preprocess_defs_ok_iff; try assumption. tauto.
  Qed.

  Lemma preprocess_defs_true : forall defs vals r, preprocess_defs dir cwd walkup defs vals = Ok r ->
    preprocess false true pin pd defs vals = Ok r.
  Proof. intros defs vals r H. unfold preprocess_defs in H. apply preprocess_dirok in H. tauto. Qed.

  Theorem preprocess_defs_error : forall defs vals e, preprocess_defs dir cwd walkup defs vals = Raise e -> e = ValueError.
  Proof.
    intros defs vals e H. unfold preprocess_defs in H. eapply preprocess_error; [|exact H].
    intros t e' Ht. eapply default_body_only_ValueError. exact Ht.
  Qed.

  (* a relative template directory, walk-up not allowed, at least one definition *)
  Theorem preprocess_defs_reldir : forall defs vals, walkup = false -> is_absolute dir = false -> defs <> [] ->
    preprocess_defs dir cwd walkup defs vals = Raise ValueError.
  Proof.
    intros defs vals Hw Ha Hne. destruct (preprocess_defs dir cwd walkup defs vals) as [r|e] eqn:E.
    - exfalso. unfold preprocess_defs in E. apply preprocess_dirok in E. destruct E as [[E|E] _]; [contradiction|].
      unfold dir_check in E. rewrite Hw, Ha in E. discriminate E.
    - rewrite (preprocess_defs_error defs vals e E). reflexivity.
  Qed.
End Defs.

(* the server-mode instance is what create_job's model (CreateJobFull.preprocess_server) computes *)
Lemma preprocess_defs_server : forall defs vals, preprocess_defs [] [] true defs vals = preprocess_server defs vals.
Proof. reflexivity. Qed.

(* ------------------------------------------------------------------ 3. reading the documents *)

Section Docs.
  Variable classify : N -> cclass.

  Lemma env_defs_wf : forall docs envs eds, mapM (decode_env classify) docs = Ok envs ->
    mapM defs_of_template envs = Ok eds -> Forall (Forall wf_def) eds.
  Proof.
    induction docs as [|dj r IH]; intros envs eds H Hd.
    - injection H as <-. injection Hd as <-. constructor.
    - apply mapM_cons_ok in H. destruct H as [y [ys [Hy [Hr ->]]]].
      apply mapM_cons_ok in Hd. destruct Hd as [d [ds [Hd1 [Hd2 ->]]]].
      constructor; [eapply decode_env_defs_wf; eassumption|eapply IH; eassumption].
  Qed.

  (* the facts every theorem below starts from *)
  Lemma docs_read : forall env_docs doc t envs,
    decode_job classify doc = Ok t -> mapM (decode_env classify) env_docs = Ok envs ->
    exists eds jd,
      mapM defs_of_template envs = Ok eds /\ defs_of_template t = Ok jd /\
      Forall (Forall wf_default) eds /\ Forall wf_default jd /\
      Forall wf_def (List.concat eds ++ jd) /\ Forall wf_default (List.concat eds ++ jd).
  Proof.
    intros env_docs doc t envs Hd He.
    destruct (env_defs_total classify envs (mapM_decode_envs classify env_docs envs He)) as [eds [Heds Hwe]].
    destruct (decode_job_defs classify doc t Hd) as [jd [Hjd [Hwj _]]].
    exists eds, jd. split; [exact Heds|]. split; [exact Hjd|]. split; [exact Hwe|]. split; [exact Hwj|]. split.
    - apply Forall_app. split; [|eapply decode_job_defs_wf; eassumption].
      apply Forall_concat. eapply env_defs_wf; eassumption.
    - apply Forall_app. split; [apply Forall_concat; exact Hwe|exact Hwj].
  Qed.

  Notation accepted := (PreprocessFullSpec.accepted classify).

  (* reading and grouping are total on accepted documents; the sources are well formed *)
  Theorem docs_sources_total : forall env_docs doc, accepted env_docs doc ->
    exists srcs, docs_sources classify env_docs doc = Ok srcs /\ Forall wf_def srcs /\ Forall wf_default srcs.
  Proof.
    intros env_docs doc [t [envs [Hd He]]].
    destruct (docs_read env_docs doc t envs Hd He) as [eds [jd [Heds [Hjd [_ [_ [W1 W2]]]]]]].
    exists (List.concat eds ++ jd). split; [|split; assumption].
    unfold docs_sources, source_defs. rewrite Hd, He. cbn [bind]. rewrite Heds, Hjd. reflexivity.
  Qed.

  (* unfolding the three document-level functions on accepted documents *)
  Lemma docs_unfold : forall env_docs doc srcs, docs_sources classify env_docs doc = Ok srcs ->
    exists t envs eds jd,
      decode_job classify doc = Ok t /\ mapM (decode_env classify) env_docs = Ok envs /\
      mapM defs_of_template envs = Ok eds /\ defs_of_template t = Ok jd /\ srcs = List.concat eds ++ jd /\
      docs_merged classify env_docs doc = merge_definitions eds jd /\
      (forall m tdir cwd walk vals, preprocess_docs classify m tdir cwd walk env_docs doc vals =
         Ok (match merge_definitions eds jd with
             | Ok defs => preprocess_defs (eff_dir m tdir) (eff_cwd m cwd) (eff_walk m walk) defs vals
             | Raise CompatibilityError => Raise ValueError
             | Raise e => Raise e
             end)).
  Proof.
    intros env_docs doc srcs H. unfold docs_sources in H.
    destruct (decode_job classify doc) as [t|e] eqn:Hd; cbn [bind] in H; [|discriminate H].
    destruct (mapM (decode_env classify) env_docs) as [envs|e] eqn:He; cbn [bind] in H; [|discriminate H].
    unfold source_defs in H.
    destruct (mapM defs_of_template envs) as [eds|e] eqn:Heds; cbn [bind] in H; [|discriminate H].
    destruct (defs_of_template t) as [jd|e] eqn:Hjd; cbn [bind] in H; [|discriminate H].
    injection H as <-. exists t, envs, eds, jd.
    split; [reflexivity|]. split; [reflexivity|]. split; [exact Heds|]. split; [exact Hjd|]. split; [reflexivity|]. split.
    - unfold docs_merged, merged_defs. rewrite Hd, He. cbn [bind]. rewrite Heds, Hjd. reflexivity.
    - intros m tdir cwd walk vals. unfold preprocess_docs, preprocess_templates, merged_defs.
      rewrite Hd, He. cbn [bind]. rewrite Heds, Hjd. reflexivity.
  Qed.

  Lemma docs_sources_wf : forall env_docs doc srcs, docs_sources classify env_docs doc = Ok srcs ->
    Forall wf_def srcs /\ Forall wf_default srcs.
  Proof.
    intros env_docs doc srcs H.
    destruct (docs_unfold env_docs doc srcs H) as [t [envs [eds [jd [Hd [He [Heds [Hjd [-> _]]]]]]]]].
    destruct (docs_read env_docs doc t envs Hd He) as [eds' [jd' [Heds' [Hjd' [_ [_ [W1 W2]]]]]]].
    rewrite Heds in Heds'. injection Heds' as <-. rewrite Hjd in Hjd'. injection Hjd' as <-. split; assumption.
  Qed.

  (* ---------------------------------------------------------------- 4. the theorems *)

  (* C12 through the composition: what the merged definitions are *)
  Theorem docs_merged_spec : forall env_docs doc srcs defs,
    docs_sources classify env_docs doc = Ok srcs -> docs_merged classify env_docs doc = Ok defs ->
    merged_from srcs defs /\ Forall wf_def defs.
  Proof.
    intros env_docs doc srcs defs Hs Hm.
    destruct (docs_unfold env_docs doc srcs Hs) as [t [envs [eds [jd [_ [_ [_ [_ [-> [Em _]]]]]]]]]].
    rewrite Em in Hm. apply merge_definitions_merged. exact Hm.
  Qed.

  Theorem docs_merged_ok_iff : forall env_docs doc srcs,
    docs_sources classify env_docs doc = Ok srcs ->
    ((exists defs, docs_merged classify env_docs doc = Ok defs) <->
     (forall k, In k (map pname srcs) -> exists m, merge false (group_of k srcs) = Ok m)).
  Proof.
    intros env_docs doc srcs Hs.
    destruct (docs_unfold env_docs doc srcs Hs) as [t [envs [eds [jd [_ [_ [_ [_ [-> [Em _]]]]]]]]]].
    rewrite Em. apply merge_definitions_ok_iff.
  Qed.

  Theorem docs_merged_error : forall env_docs doc e, accepted env_docs doc ->
    docs_merged classify env_docs doc = Raise e -> e = CompatibilityError.
  Proof.
    intros env_docs doc e [t [envs [Hd He]]] H.
    destruct (docs_read env_docs doc t envs Hd He) as [eds [jd [Heds [Hjd [We [Wj _]]]]]].
    unfold docs_merged, merged_defs in H. rewrite Hd, He in H. cbn [bind] in H. rewrite Heds, Hjd in H. cbn [bind] in H.
    eapply merge_definitions_raise; eassumption.
  Qed.

  (* a refused merge is the ValueError of preprocess_job_parameters, in either mode *)
  Theorem preprocess_docs_refused : forall m tdir cwd walk env_docs doc vals, accepted env_docs doc ->
    docs_merged classify env_docs doc = Raise CompatibilityError ->
    preprocess_docs classify m tdir cwd walk env_docs doc vals = Ok (Raise ValueError).
  Proof.
    intros m tdir cwd walk env_docs doc vals [t [envs [Hd He]]] H. unfold docs_merged in H.
    unfold preprocess_docs, preprocess_templates. rewrite Hd, He in *. cbn [bind] in *.
    rewrite H. reflexivity.
  Qed.

  Theorem preprocess_docs_refused_name : forall m tdir cwd walk env_docs doc vals srcs k,
    docs_sources classify env_docs doc = Ok srcs -> In k (map pname srcs) ->
    merge false (group_of k srcs) = Raise CompatibilityError ->
    preprocess_docs classify m tdir cwd walk env_docs doc vals = Ok (Raise ValueError).
  Proof.
    intros m tdir cwd walk env_docs doc vals srcs k Hs Hk Hm.
    destruct (docs_unfold env_docs doc srcs Hs) as [t [envs [eds [jd [Hd [He [Heds [Hjd [-> [Em _]]]]]]]]]].
    apply preprocess_docs_refused; [exists t, envs; split; assumption|].
    destruct (docs_read env_docs doc t envs Hd He) as [eds' [jd' [Heds' [Hjd' [We [Wj _]]]]]].
    rewrite Heds in Heds'. injection Heds' as <-. rewrite Hjd in Hjd'. injection Hjd' as <-.
    rewrite Em. eapply merge_definitions_refused; eassumption.
  Qed.

  (* the call succeeds only through a successful merge *)
  Lemma preprocess_docs_ok_inv : forall m tdir cwd walk env_docs doc vals r,
    preprocess_docs classify m tdir cwd walk env_docs doc vals = Ok (Ok r) ->
    exists srcs defs, docs_sources classify env_docs doc = Ok srcs /\ docs_merged classify env_docs doc = Ok defs /\
      preprocess_defs (eff_dir m tdir) (eff_cwd m cwd) (eff_walk m walk) defs vals = Ok r.
  Proof.
    intros m tdir cwd walk env_docs doc vals r H.
    assert (A : accepted env_docs doc).
    { unfold preprocess_docs in H.
      destruct (decode_job classify doc) as [t|e] eqn:Hd; cbn [bind] in H; [|discriminate H].
      destruct (mapM (decode_env classify) env_docs) as [envs|e] eqn:He; cbn [bind] in H; [|discriminate H].
      exists t, envs. split; assumption. }
    destruct (docs_sources_total env_docs doc A) as [srcs [Hs _]].
    destruct (docs_unfold env_docs doc srcs Hs) as [t [envs [eds [jd [_ [_ [_ [_ [_ [Em P]]]]]]]]]].
    rewrite P in H. injection H as H. exists srcs.
    destruct (merge_definitions eds jd) as [defs|e] eqn:E.
    - exists defs. split; [exact Hs|]. split; [exact Em|exact H].
    - destruct e; discriminate H.
  Qed.

  Lemma preprocess_docs_with : forall m tdir cwd walk env_docs doc vals srcs defs,
    docs_sources classify env_docs doc = Ok srcs -> docs_merged classify env_docs doc = Ok defs ->
    preprocess_docs classify m tdir cwd walk env_docs doc vals =
    Ok (preprocess_defs (eff_dir m tdir) (eff_cwd m cwd) (eff_walk m walk) defs vals).
  Proof.
    intros m tdir cwd walk env_docs doc vals srcs defs Hs Hm.
    destruct (docs_unfold env_docs doc srcs Hs) as [t [envs [eds [jd [_ [_ [_ [_ [_ [Em P]]]]]]]]]].
    rewrite P. rewrite Em in Hm. rewrite Hm. reflexivity.
  Qed.

  (* C10_full_iff: success <-> the merge succeeds and the conditions of the property text hold for the MERGED
     definitions (plus the template-directory rule, plus the joinability of the PATH defaults that are used) *)
  Theorem preprocess_docs_iff : forall m tdir cwd walk env_docs doc vals, accepted env_docs doc ->
    ((exists r, preprocess_docs classify m tdir cwd walk env_docs doc vals = Ok (Ok r)) <->
     exists defs, docs_merged classify env_docs doc = Ok defs /\
       dir_rule_ok (eff_dir m tdir) (eff_walk m walk) defs /\
       no_extra defs vals /\ no_missing defs vals /\
       path_defaults_ok (path_default_of m tdir walk) defs vals /\
       all_sat (path_in_of m cwd) (path_default_of m tdir walk) defs vals).
  Proof.
    intros m tdir cwd walk env_docs doc vals A.
    destruct (docs_sources_total env_docs doc A) as [srcs [Hs _]]. split.
    - intros [r H]. destruct (preprocess_docs_ok_inv _ _ _ _ _ _ _ _ H) as [srcs' [defs [Hs' [Hm Hp]]]].
      exists defs. split; [exact Hm|].
      destruct (docs_merged_spec env_docs doc srcs' defs Hs' Hm) as [[ND _] W].
      apply (proj1 (preprocess_defs_iff _ _ _ defs vals W ND)). exists r. exact Hp.
    - intros [defs [Hm C]].
      destruct (docs_merged_spec env_docs doc srcs defs Hs Hm) as [[ND _] W].
      destruct (proj2 (preprocess_defs_iff (eff_dir m tdir) (eff_cwd m cwd) (eff_walk m walk) defs vals W ND) C) as [r Hr].
      exists r. rewrite (preprocess_docs_with m tdir cwd walk env_docs doc vals srcs defs Hs Hm), Hr. reflexivity.
  Qed.

  (* the same in terms of the SOURCES (C12_sound / C12_complete through the composition): every final value is
     accepted by every individual definition of its parameter *)
  Theorem preprocess_docs_iff_sources : forall m tdir cwd walk env_docs doc vals srcs,
    docs_sources classify env_docs doc = Ok srcs ->
    ((exists r, preprocess_docs classify m tdir cwd walk env_docs doc vals = Ok (Ok r)) <->
     exists defs, docs_merged classify env_docs doc = Ok defs /\
       dir_rule_ok (eff_dir m tdir) (eff_walk m walk) defs /\
       no_extra defs vals /\ no_missing defs vals /\
       path_defaults_ok (path_default_of m tdir walk) defs vals /\
       (forall d v, In d defs -> final (path_in_of m cwd) (path_default_of m tdir walk) vals d v ->
                    Forall (fun s => sat s v) (group_of (pname d) srcs))).
  Proof.
    intros m tdir cwd walk env_docs doc vals srcs Hs.
    assert (A : accepted env_docs doc).
    { destruct (docs_unfold env_docs doc srcs Hs) as [t [envs [_ [_ [Hd [He _]]]]]]. exists t, envs. split; assumption. }
    rewrite (preprocess_docs_iff m tdir cwd walk env_docs doc vals A).
    destruct (docs_sources_wf env_docs doc srcs Hs) as [W _].
    split; intros [defs [Hm [C1 [C2 [C3 [C4 C5]]]]]]; exists defs; (split; [exact Hm|]);
      (split; [exact C1|]); (split; [exact C2|]); (split; [exact C3|]); (split; [exact C4|]);
      destruct (docs_merged_spec env_docs doc srcs defs Hs Hm) as [MF _].
    - intros d v Hd F. apply (proj1 (merged_sat srcs defs d v W MF Hd)). apply C5; assumption.
    - intros d v Hd F. apply (proj1 (merged_sat srcs defs d v W MF Hd)). apply C5; assumption.
  Qed.

  (* C10_full_result *)
  Theorem preprocess_docs_result : forall m tdir cwd walk env_docs doc vals r,
    preprocess_docs classify m tdir cwd walk env_docs doc vals = Ok (Ok r) ->
    exists defs, docs_merged classify env_docs doc = Ok defs /\
      Forall2 (fun d (e : str * (ptype * str)) =>
                 fst e = pname d /\ fst (snd e) = ptyp d /\
                 final (path_in_of m cwd) (path_default_of m tdir walk) vals d (snd (snd e))) defs r /\
      (forall d v, In d defs -> is_path d = false -> lookup (pname d) vals = Some v ->
                   lookup (pname d) r = Some (ptyp d, v)) /\
      (forall d t, In d defs -> is_path d = false -> lookup (pname d) vals = None -> pdefault d = Some t ->
                   lookup (pname d) r = Some (ptyp d, t)).
  Proof.
    intros m tdir cwd walk env_docs doc vals r H.
    destruct (preprocess_docs_ok_inv _ _ _ _ _ _ _ _ H) as [srcs [defs [Hs [Hm Hp]]]].
    destruct (docs_merged_spec env_docs doc srcs defs Hs Hm) as [[ND _] W].
    apply preprocess_defs_true in Hp.
    exists defs. split; [exact Hm|]. split; [|split].
    - exact (preprocess_result _ _ defs vals r W ND Hp).
    - intros d v Hd NP L. exact (preprocess_supplied _ _ defs vals r d v W ND Hp Hd NP L).
    - intros d t Hd NP L D. exact (preprocess_defaulted _ _ defs vals r d t W ND Hp Hd NP L D).
  Qed.

  (* C10_full_error *)
  Theorem preprocess_docs_error : forall m tdir cwd walk env_docs doc vals e,
    preprocess_docs classify m tdir cwd walk env_docs doc vals = Ok (Raise e) -> e = ValueError.
  Proof.
    intros m tdir cwd walk env_docs doc vals e H.
    assert (A : accepted env_docs doc).
    { unfold preprocess_docs in H.
      destruct (decode_job classify doc) as [t|e0] eqn:Hd; cbn [bind] in H; [|discriminate H].
      destruct (mapM (decode_env classify) env_docs) as [envs|e0] eqn:He; cbn [bind] in H; [|discriminate H].
      exists t, envs. split; assumption. }
    destruct (docs_sources_total env_docs doc A) as [srcs [Hs _]].
    destruct (docs_unfold env_docs doc srcs Hs) as [t [envs [eds [jd [_ [_ [_ [_ [_ [Em P]]]]]]]]]].
    rewrite P in H. injection H as H.
    destruct (merge_definitions eds jd) as [defs|e0] eqn:E.
    - eapply preprocess_defs_error. exact H.
    - rewrite (docs_merged_error env_docs doc e0 A Em) in H. injection H as <-. reflexivity.
  Qed.

  (* C11 through the composition, client mode, walk-up disallowed *)
  Lemma to_str_nonnil : forall pp, to_str pp <> [].
  Proof.
    intros pp. unfold to_str. cbv zeta.
    match goal with |- (if is_nil ?x then _ else _) <> _ => destruct x as [|c s'] end; cbn [is_nil]; discriminate.
  Qed.

  Lemma default_body_nonnil : forall dir t v, is_absolute dir = true -> t <> [] ->
    default_body dir false t = Ok v -> v <> [].
  Proof.
    intros dir t v Ha Hne H. unfold default_body in H.
    destruct t as [|c t']; [contradiction Hne; reflexivity|]. cbn [is_nil] in H.
    destruct (is_absolute (c :: t')); cbn [negb] in H; [discriminate H|].
    rewrite Ha in H. cbn [andb] in H.
    destruct (negb (is_relative_to _ _)); [discriminate H|]. injection H as <-. apply to_str_nonnil.
  Qed.

  Theorem preprocess_docs_contained : forall tdir cwd env_docs doc vals r,
    preprocess_docs classify Client tdir cwd false env_docs doc vals = Ok (Ok r) ->
    exists defs, docs_merged classify env_docs doc = Ok defs /\
      forall d t, In d defs -> ptyp d = PATH -> lookup (pname d) vals = None -> pdefault d = Some t ->
        exists v, lookup (pname d) r = Some (PATH, v) /\ ((t = [] /\ v = []) \/ (t <> [] /\ contained tdir v)).
  Proof.
    intros tdir cwd env_docs doc vals r H.
    destruct (preprocess_docs_ok_inv _ _ _ _ _ _ _ _ H) as [srcs [defs [Hs [Hm Hp]]]].
    destruct (docs_merged_spec env_docs doc srcs defs Hs Hm) as [[ND _] W].
    cbn [eff_dir eff_cwd eff_walk] in Hp.
    assert (DR : defs = [] \/ is_absolute tdir = true).
    { unfold preprocess_defs in Hp. apply preprocess_dirok in Hp. destruct Hp as [[E|E] _]; [left; exact E|right].
      unfold dir_check in E. cbn [negb andb] in E. apply negb_true_iff in E. apply negb_false_iff in E. exact E. }
    apply preprocess_defs_true in Hp.
    exists defs. split; [exact Hm|]. intros d t Hd Ty L D.
    destruct (preprocess_lookup _ _ defs vals r d W ND Hp Hd) as [v [Lv F]].
    exists v. rewrite Ty in Lv. split; [exact Lv|].
    apply final_fv in F. unfold fv, default_value in F. rewrite L, D in F.
    assert (IP : is_path d = true) by (unfold is_path; rewrite Ty; reflexivity). rewrite IP in F. cbn [andb] in F.
    destruct t as [|c t']; cbn [is_nil negb] in F.
    - injection F as <-. left. split; reflexivity.
    - right. split; [discriminate|]. injection F as F.
      destruct DR as [E|Ha]; [subst defs; destruct Hd|].
      assert (NN : v <> []) by (eapply default_body_nonnil; [exact Ha| |exact F]; discriminate).
      eapply contained_thm; [|exact NN]. unfold collect_path_default, dir_check. rewrite Ha. cbn [negb andb]. exact F.
  Qed.

  (* ... a relative template directory never yields anything once there is a definition *)
  Theorem preprocess_docs_reldir : forall tdir cwd env_docs doc vals defs,
    docs_merged classify env_docs doc = Ok defs -> defs <> [] -> is_absolute tdir = false ->
    preprocess_docs classify Client tdir cwd false env_docs doc vals = Ok (Raise ValueError).
  Proof.
    intros tdir cwd env_docs doc vals defs Hm Hne Ha.
    assert (A : accepted env_docs doc).
    { unfold docs_merged in Hm.
      destruct (decode_job classify doc) as [t|e0] eqn:Hd; cbn [bind] in Hm; [|discriminate Hm].
      destruct (mapM (decode_env classify) env_docs) as [envs|e0] eqn:He; cbn [bind] in Hm; [|discriminate Hm].
      exists t, envs. split; assumption. }
    destruct (docs_sources_total env_docs doc A) as [srcs [Hs _]].
    rewrite (preprocess_docs_with Client tdir cwd false env_docs doc vals srcs defs Hs Hm).
    cbn [eff_dir eff_cwd eff_walk]. rewrite preprocess_defs_reldir; [reflexivity|reflexivity|exact Ha|exact Hne].
  Qed.

  (* ... supplied PATH values, either mode: joined to the (effective) working directory *)
  Theorem preprocess_docs_supplied_path : forall m tdir cwd walk env_docs doc vals r,
    preprocess_docs classify m tdir cwd walk env_docs doc vals = Ok (Ok r) ->
    exists defs, docs_merged classify env_docs doc = Ok defs /\
      forall d v, In d defs -> ptyp d = PATH -> lookup (pname d) vals = Some v ->
        lookup (pname d) r = Some (PATH, spec_supplied (eff_cwd m cwd) v).
  Proof.
    intros m tdir cwd walk env_docs doc vals r H.
    destruct (preprocess_docs_ok_inv _ _ _ _ _ _ _ _ H) as [srcs [defs [Hs [Hm Hp]]]].
    destruct (docs_merged_spec env_docs doc srcs defs Hs Hm) as [[ND _] W].
    apply preprocess_defs_true in Hp.
    exists defs. split; [exact Hm|]. intros d v Hd Ty L.
    destruct (preprocess_lookup _ _ defs vals r d W ND Hp Hd) as [v' [Lv F]].
    rewrite Ty in Lv. rewrite Lv. apply final_fv in F. unfold fv, supplied_value in F. rewrite L in F.
    injection F as <-.
    assert (IP : is_path d = true) by (unfold is_path; rewrite Ty; reflexivity). rewrite IP. cbn [andb].
    rewrite <- supplied_exact. unfold path_supplied. destruct v as [|c v']; cbn [is_nil negb andb]; reflexivity.
  Qed.

  (* ... server mode: a PATH default is returned verbatim *)
  Theorem preprocess_docs_server_default : forall tdir cwd walk env_docs doc vals r,
    preprocess_docs classify Server tdir cwd walk env_docs doc vals = Ok (Ok r) ->
    exists defs, docs_merged classify env_docs doc = Ok defs /\
      forall d t, In d defs -> lookup (pname d) vals = None -> pdefault d = Some t ->
        lookup (pname d) r = Some (ptyp d, t).
  Proof.
    intros tdir cwd walk env_docs doc vals r H.
    destruct (preprocess_docs_ok_inv _ _ _ _ _ _ _ _ H) as [srcs [defs [Hs [Hm Hp]]]].
    destruct (docs_merged_spec env_docs doc srcs defs Hs Hm) as [[ND _] W].
    apply preprocess_defs_true in Hp. cbn [eff_dir eff_cwd eff_walk] in Hp.
    exists defs. split; [exact Hm|]. intros d t Hd L D.
    destruct (preprocess_lookup _ _ defs vals r d W ND Hp Hd) as [v' [Lv F]].
    rewrite Lv. apply final_fv in F. unfold fv, default_value in F. rewrite L, D in F.
    destruct (is_path d && negb (Numerals.is_nil t)).
    - change (default_body [] true t) with (server_default t) in F. rewrite server_default_verbatim in F.
      congruence.
    - congruence.
  Qed.

  (* the server mode of preprocess_docs is the preprocessing step of create_job's model (CreateJobFull.prep_full) *)
  Theorem preprocess_docs_server_is_prep_full : forall tdir cwd walk env_docs doc vals t envs,
    decode_job classify doc = Ok t -> mapM (decode_env classify) env_docs = Ok envs ->
    match preprocess_docs classify Server tdir cwd walk env_docs doc vals with
    | Ok (Ok r) => prep_full envs t vals = Ok (pvals_of r)
    | Ok (Raise _) => prep_full envs t vals = Raise DecodeValidationError
    | Raise _ => False
    end.
  Proof.
    intros tdir cwd walk env_docs doc vals t envs Hd He.
    destruct (docs_read env_docs doc t envs Hd He) as [eds [jd [Heds [Hjd [We [Wj _]]]]]].
    unfold preprocess_docs, preprocess_templates, merged_defs, prep_full.
    rewrite Hd, He. cbn [bind]. rewrite Heds, Hjd. cbn [bind eff_dir eff_cwd eff_walk].
    destruct (merge_definitions eds jd) as [defs|e] eqn:E.
    - rewrite preprocess_defs_server. destruct (preprocess_server defs vals) as [r|e] eqn:Ep; [reflexivity|].
      rewrite (preprocess_server_raise defs vals e Ep). reflexivity.
    - rewrite (merge_definitions_raise eds jd e We Wj E). reflexivity.
  Qed.
End Docs.
