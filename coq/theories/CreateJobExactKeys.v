(* CreateJobExactKeys.v — C05_exact up to member ORDER, with no condition on the two Jobs.

   CreateJobExact.v proves [json_equiv job job'] (model Job vs. specification Job) and, from it, [json_perm]
   under three conditions on the two VALUES: both have pairwise distinct keys, the specification's Job has no
   null member.  Here the three conditions are proved from the hypotheses on the DOCUMENT alone
   (accepted + [distinct_keys j]):

     model_job_distinct_keys   (CreateJobExactKeysModel.v)  generic in the schema: decode / instantiate / export
                                                            invariants and one boolean check of Generated.schema;
     expected_job_good         (CreateJobExactKeysSpec.v)   the specification's Job: distinct keys and no null
                                                            member, from the acceptance inversions.

   Hence the model's Job and the specification's Job are the same JSON document up to the order of object
   members: scalars equal, arrays pointwise, objects a permutation of members. *)
From Coq Require Import List NArith ZArith Bool String.
Import ListNotations.
Require Import OJD.Base OJD.Lexer OJD.Json OJD.Schema OJD.Generated OJD.CreateJob OJD.CreateJobSpec OJD.Accept OJD.Export
               OJD.JsonEquiv OJD.CreateJobExactCarried OJD.CreateJobExactSpace OJD.CreateJobExactHost OJD.CreateJobExact
               OJD.CreateJobExactKeysLib OJD.CreateJobExactKeysModel OJD.CreateJobExactKeysSpec.
Local Open Scope string_scope.
Local Open Scope list_scope.

Theorem model_job_dk : forall classify resolve j t vals job,
  decode_job classify j = Ok t -> distinct_keys j = true ->
  create_job_object Generated.schema resolve vals t = Ok job -> distinct_keys job = true.
Proof. exact model_job_distinct_keys. Qed.

Theorem spec_job_dk : forall classify resolve sigma j t job',
  decode_job classify j = Ok t -> distinct_keys j = true ->
  expected_job resolve sigma j = Ok job' -> distinct_keys job' = true.
Proof.
  intros classify resolve sigma j t job' Hdec Hd H. exact (proj1 (expected_job_good classify resolve sigma j t job' Hdec Hd H)).
Qed.

Theorem spec_job_nnm : forall classify resolve sigma j t job',
  decode_job classify j = Ok t -> distinct_keys j = true ->
  expected_job resolve sigma j = Ok job' -> no_null_members job' = true.
Proof.
  intros classify resolve sigma j t job' Hdec Hd H. exact (proj2 (expected_job_good classify resolve sigma j t job' Hdec Hd H)).
Qed.

(* the two Jobs of an accepted document are always in the domain where [json_equiv] is [json_perm] *)
Theorem jobs_perm_of_equiv : forall classify resolve sigma j t vals job job',
  decode_job classify j = Ok t -> distinct_keys j = true ->
  create_job_object Generated.schema resolve vals t = Ok job ->
  expected_job resolve sigma j = Ok job' ->
  json_equiv job job' -> json_perm job job'.
Proof.
  intros classify resolve sigma j t vals job job' Hdec Hd Hm Hs He. apply json_equiv_perm.
  - exact He.
  - exact (create_job_object_nnm _ _ _ _ Hm).
  - exact (spec_job_nnm classify resolve sigma j t job' Hdec Hd Hs).
  - exact (model_job_dk classify resolve j t vals job Hdec Hd Hm).
  - exact (spec_job_dk classify resolve sigma j t job' Hdec Hd Hs).
Qed.

Theorem C05_exact_perm_unconditional : forall classify j t vals job,
  ascii_ok classify = true ->
  decode_job classify j = Ok t ->
  distinct_keys j = true -> lax_ints_native j = true -> canonical_numbers j = true ->
  create_job_object Generated.schema (Export.fs_resolve classify) vals t = Ok job ->
  exists job', expected_job (Export.fs_resolve classify) (symtab_of vals) j = Ok job' /\ json_perm job job'.
Proof.
  intros classify j t vals job Hascii Hdec Hd Hl Hc H.
  destruct (C05_exact_full classify j t vals job Hascii Hdec Hd Hl Hc H) as [job' [Hs He]].
  exists job'. split; [exact Hs|].
  exact (jobs_perm_of_equiv classify _ _ j t vals job job' Hdec Hd H Hs He).
Qed.

(* the two partial theorems of CreateJobExact.v, likewise up to member order *)
Theorem C05_exact_plain_perm : forall classify resolve j t vals job,
  decode_job classify j = Ok t ->
  distinct_keys j = true -> lax_ints_native j = true -> plain_steps j = true ->
  create_job_object Generated.schema resolve vals t = Ok job ->
  exists job', expected_job resolve (symtab_of vals) j = Ok job' /\ json_perm job job'.
Proof.
  intros classify resolve j t vals job Hdec Hd Hl Hp H.
  destruct (C05_exact_plain classify resolve j t vals job Hdec Hd Hl Hp H) as [job' [Hs He]].
  exists job'. split; [exact Hs|].
  exact (jobs_perm_of_equiv classify _ _ j t vals job job' Hdec Hd H Hs He).
Qed.
